/-
  T1: check one explored transition of the implementation against the model and
  against the executable property statements.
-/
import FBV.Drv.Wire
import FBV.Spec.SatT1
import FBV.Spec.SatV
namespace FBV.DrvT1
open FBV FBV.Wire

def isReadOp : Op → Bool
  | .readBytes _ | .tryReadBytes _ | .readByte | .tryReadByte | .readAll
  | .readAndCopy _ | .tryReadExact _ | .ioRead _ | .deframe _ => true
  | _ => false

def isWriteOp : Op → Bool
  | .writeBytes _ | .writeStr _ | .ioWrite _ | .pokeWrote _ _ | .copyOnce _ => true
  | _ => false

/-- per-property agreement between model and implementation on the property's own observables.
    C01: the unread bytes, len(), is_empty() after the call and the bytes a read handed out
    (result classes are compared only through their effect: a call that panics where the model
    returns None leaves the same stream and is C04's business, not C01's). -/
def agreeC01 (op : Op) (mo : Out) (mp : Obs) (io : Out) (ip : Obs) : Bool :=
  mp.rd == ip.rd && (mp.wi - mp.ri == ip.wi - ip.ri) && mp.empty == ip.empty &&
  (if isReadOp op && mo.cls != .panic && io.cls != .panic then mo.cls == io.cls && mo.bytes == io.bytes && mo.nums == io.nums else true)

/-- C03: Ok/Err and count of writes, len() and writable().len() after every call -/
def agreeC03 (op : Op) (mo : Out) (mp : Obs) (io : Out) (ip : Obs) : Bool :=
  (if isWriteOp op then mo.cls == io.cls && mo.nums == io.nums else true) &&
  (mp.wi - mp.ri == ip.wi - ip.ri) && mp.free == ip.free

def agreeC04 (b : Buf) (op : Op) (mo : Out) (mp : Obs) (io : Out) (ip : Obs) : Bool :=
  match op with
  | .tryParse ops _ =>
    -- closures that break the contract of read_byte/read_bytes themselves are outside C04
    if scriptPanics b ops then true else (mo.cls == .panic) == (io.cls == .panic)
  | _ =>
    (mo.cls == .panic) == (io.cls == .panic) &&
    (if mo.cls == .panic then mp.ri == ip.ri && mp.wi == ip.wi && mp.rd == ip.rd else true)

def agreeC10 (op : Op) (mo : Out) (mp : Obs) (io : Out) (ip : Obs) : Bool :=
  match op with
  | .deframe _ => mo.cls == io.cls && mo.nums == io.nums && mo.bytes == io.bytes && mp.rd == ip.rd && mp.mem == ip.mem
  | _ => true

def agreeC11 (b : Buf) (op : Op) (mo : Out) (mp : Obs) (io : Out) (ip : Obs) : Bool :=
  match op with
  | .tryParse ops sm =>
    if scriptPanics b ops then true
    else if sm then mo.cls == io.cls && mp.rd == ip.rd && mp.len == ip.len
    else mo.cls == io.cls && mp.rd == ip.rd && mp.len == ip.len && mp.free == ip.free
  | _ => true

def agreeC12 (op : Op) (mo : Out) (mp : Obs) (io : Out) (ip : Obs) : Bool :=
  match op with
  | .copyOnce _ => mo.cls == io.cls && mo.nums == io.nums && mo.log == io.log && mp.rd == ip.rd
  | _ => true

/-- C12 for one `copy_once_from`: one reader call iff there is room, offered exactly the free space,
    exactly the reported count committed, errors change nothing -/
def Sat_C12_cof (b : Buf) (op : Op) (out : Out) (post : Obs) : Bool :=
  match op with
  | .copyOnce resp =>
    if 0 < b.free then
      (out.cls == .panic || out.log == [b.free]) &&
      (match resp with
       | .data bytes _ =>
         let k := min bytes.length b.free
         out.cls == .ok && out.nums == [k] && post.rd == b.readable ++ bytes.take k
       | .err kind => out.cls == .err kind && post.rd == b.readable
       | .panic => out.cls == .panic && post.rd == b.readable)
    else
      (out.cls == .err EK_InvalidData && out.log == [] && post.rd == b.readable) ||
      -- free space only in front of the unread bytes: compacting first is allowed
      (decide (0 < b.ri) && (out.cls == .panic || out.log == [b.mem.length - b.len]) &&
        (match resp with
         | .data bytes _ =>
           let k := min bytes.length (b.mem.length - b.len)
           out.cls == .ok && out.nums == [k] && post.rd == b.readable ++ bytes.take k
         | .err kind => out.cls == .err kind && post.rd == b.readable
         | .panic => out.cls == .panic && post.rd == b.readable))
  | _ => true

/-- C18 for one call: a call that completes without an error return performs no heap allocation -/
def Sat_C18 (out : Out) (allocs : Nat) : Bool :=
  match out.cls with
  | .ok | .none | .some => allocs == 0
  | _ => true

/-- verdict tags for one T1 line; `none` = unparseable -/
def checkT1 (oc : Bool) (pre : List String) (opT : List String) (outT : List String) (postT : List String) :
    Option (List String × Bool) := do
  let (mem, ri, wi) ← match pre with
    | [_n, m, ri, wi] => do pure ((← unhex? m), (← ri.toNat?), (← wi.toNat?))
    | _ => none
  let b : Buf := { mem := mem, ri := ri, wi := wi }
  let op ← op? opT
  let (io, allocs) ← out? outT
  let (b', mo) := step oc b op
  let mp := b'.obs
  let nontrivial := (mp.ri != b.ri || mp.wi != b.wi || mp.mem != b.mem || !mo.bytes.isEmpty)
  if postT == ["X"] then
    return (["UNSAT C04", "DIFF C01", "DIFF C03", "DIFF C04", "DRIFT"], nontrivial)
  let ip ← obs? postT
  let mut v : List String := []
  if !(mo == io && mp == ip) then v := "DRIFT" :: v
  -- `copy_once_from` with free space only in front of the unread bytes: C12 leaves open whether it refuses (today,
  -- the primary model) or compacts first; the implementation may agree with either
  let alt : Option (Out × Obs) := match op with
    | .copyOnce _ =>
      if b.free == 0 && decide (0 < b.ri) then
        let (b2, o2) := step oc (step oc b .shift).1 op
        some (o2, b2.obs)
      else none
    | _ => none
  let agree (f : Out → Obs → Bool) : Bool :=
    f mo mp || (match alt with | some (o2, p2) => f o2 p2 | none => false)
  if !agree (fun mo mp => agreeC01 op mo mp io ip) then v := "DIFF C01" :: v
  if !agree (fun mo mp => agreeC03 op mo mp io ip) then v := "DIFF C03" :: v
  if !agree (fun mo mp => agreeC04 b op mo mp io ip) then v := "DIFF C04" :: v
  if !agreeC10 op mo mp io ip then v := "DIFF C10" :: v
  if !agreeC11 b op mo mp io ip then v := "DIFF C11" :: v
  if !agree (fun mo mp => agreeC12 op mo mp io ip) then v := "DIFF C12" :: v
  if !Sat_C01 b op io ip then v := "UNSAT C01" :: v
  if !Sat_C03 b op io ip then v := "UNSAT C03" :: v
  if !Sat_C04 b op io ip then v := "UNSAT C04" :: v
  if !Sat_C10 b op io ip then v := "UNSAT C10" :: v
  if !Sat_C11 b op io ip then v := "UNSAT C11" :: v
  if !Sat_C12_cof b op io ip then v := "UNSAT C12" :: v
  if !Sat_C18 io allocs then v := "UNSAT C18" :: v
  return (v, nontrivial)

/-- `T0 <N> <ctor> <mem> | <obs>` -/
def checkT0 (pre : List String) (postT : List String) : Option (List String) := do
  let (n, ctor, mem) ← match pre with
    | [n, c, m] => do pure ((← n.toNat?), c, (← unhex? m))
    | _ => none
  let b ← match ctor with
    | "new" => some (Buf.new n) | "default" => some (Buf.new n)
    | "empty" => some (Buf.empty mem) | "filled" => some (Buf.filled mem)
    | _ => none
  if postT == ["X"] then return ["UNSAT C04", "DIFF C01", "DIFF C03"]
  let ip ← obs? postT
  let mut v : List String := []
  if b.obs != ip then v := "DIFF C01" :: "DIFF C03" :: v
  let wantRd := if ctor == "filled" then mem else []
  if !(ip.rd == wantRd && ip.wi - ip.ri == wantRd.length && ip.empty == wantRd.isEmpty && decide (ip.ri ≤ ip.wi)) then
    v := "UNSAT C01" :: v
  if !(ip.mem.length == n && ip.free + wantRd.length == n) then v := "UNSAT C03" :: v
  return v

def slices? (s : String) : Option (List (List Byte)) :=
  if s == "_" then some [] else (s.splitOn ",").mapM unhex?

/-- `TV <N> <mem> <ri> <wi> | wv <slices> | <cls> <n> <allocs> | <post>` and
    `TV <N> <mem> <ri> <wi> | rv <lens> | <cls> <n> <allocs> <dests> | <post>`: the vectored calls of the Read / Write trait
    surface.  The model is the trait's default implementation (`stepWV` / `stepRV`); a disagreement with it is drift
    only (an override may legitimately gather / scatter), the verdicts come from the predicates `Sat_WV` / `Sat_RV`,
    which `C01.stepWV_sat` / `C01.stepRV_sat` prove of the model -/
def checkTV (oc : Bool) (pre opT outT postT : List String) : Option (List String × Bool) := do
  let (mem, ri, wi) ← match pre with
    | [_n, m, ri, wi] => do pure ((← unhex? m), (← ri.toNat?), (← wi.toNat?))
    | _ => none
  let b : Buf := { mem := mem, ri := ri, wi := wi }
  if postT == ["X"] then return (["UNSAT C04", "UNSAT C01", "UNSAT C03", "DRIFT"], true)
  let ip ← obs? postT
  match opT, outT with
  | ["wv", sl], [c, n, a] =>
    let slices ← slices? sl
    let cls ← cls? c
    let allocs ← a.toNat?
    let ns ← if n == "-" then some [] else n.toNat?.map (fun k => [k])
    let io : Out := { cls := cls, nums := ns }
    let (b', mo) := stepWV oc b slices
    let mut v : List String := []
    if !(mo.cls == io.cls && mo.nums == io.nums && b'.obs == ip) then v := "DRIFT" :: v
    if !Sat_WV b slices io ip then
      v := (if cls == .panic then "UNSAT C04" else "UNSAT C01") :: "UNSAT C03" :: v
    if cls == .ok && allocs != 0 then v := "UNSAT C18" :: v
    return (v, !slices.flatten.isEmpty)
  | ["rv", ls], [c, n, a, ds] =>
    let lens ← nums? ls
    let dests ← slices? ds
    let cls ← cls? c
    let allocs ← a.toNat?
    let ns ← if n == "-" then some [] else n.toNat?.map (fun k => [k])
    let io : Out := { cls := cls, nums := ns }
    let (b', mo) := stepRV oc b lens
    let mut v : List String := []
    if !(mo.cls == io.cls && mo.nums == io.nums && b'.obs == ip && destsOf lens mo.bytes == dests) then v := "DRIFT" :: v
    if !Sat_RV b lens dests io ip then
      v := (if cls == .panic then "UNSAT C04" else "UNSAT C01") :: "UNSAT C03" :: v
    if cls == .ok && allocs != 0 then v := "UNSAT C18" :: v
    return (v, b.len != 0 && lens.any (· != 0))
  | [wfa, sl], [c, _n, a] =>
    -- `write_fmt` with these pieces / `write_all` of one piece
    if wfa != "wf" && wfa != "wa" then none else
    let pieces ← if wfa == "wa" then (unhex? sl).map (fun d => [d]) else slices? sl
    let cls ← cls? c
    let allocs ← a.toNat?
    let io : Out := { cls := cls }
    let (b', mo) := stepWF oc b pieces
    let mut v : List String := []
    if !(mo.cls == io.cls && b'.obs == ip) then v := "DRIFT" :: v
    if !Sat_WF b pieces io ip then
      v := (if cls == .panic then "UNSAT C04" else "UNSAT C01") :: "UNSAT C03" :: v
    if cls == .ok && allocs != 0 then v := "UNSAT C18" :: v
    return (v, !pieces.flatten.isEmpty)
  | ["rte"], [c, n, a, got] =>
    let got ← unhex? got
    let cls ← cls? c
    let _ ← a.toNat?
    let ns ← if n == "-" then some [] else n.toNat?.map (fun k => [k])
    let io : Out := { cls := cls, nums := ns }
    let (b', mo) := stepRTE oc b
    let mut v : List String := []
    if !(mo.cls == io.cls && mo.nums == io.nums && mo.bytes == got && b'.obs == ip) then v := "DRIFT" :: v
    if !Sat_RTE b got io ip then
      v := (if cls == .panic then "UNSAT C04" else "UNSAT C01") :: "UNSAT C03" :: v
    return (v, b.len != 0)
  | ["re", ds], [c, _n, a, dest] =>
    let d ← ds.toNat?
    let dest ← unhex? dest
    let cls ← cls? c
    let allocs ← a.toNat?
    let io : Out := { cls := cls }
    let (b', mo) := stepRE oc b d
    let mut v : List String := []
    if !(mo.cls == io.cls && mo.bytes == dest && b'.obs == ip) then v := "DRIFT" :: v
    if !Sat_RE b d dest io ip then
      v := (if cls == .panic then "UNSAT C04" else "UNSAT C01") :: "UNSAT C03" :: v
    if cls == .ok && allocs != 0 then v := "UNSAT C18" :: v
    return (v, b.len != 0 && d != 0)
  | _, _ => none

/-- `TC <N> <mem> <ri> <wi> | clone / copy / clone_from <mem> <ri> <wi> | <obs>`: a copy made through the derived traits
    is the same stream (C01's "from every constructor ... copies"): same unread bytes, len(), is_empty(), and a state
    every later call is defined on.  The model is the exact copy; less than an exact copy is drift only. -/
def checkTC (pre opT postT : List String) : Option (List String × Bool) := do
  let (mem, ri, wi) ← match pre with
    | [_n, m, ri, wi] => do pure ((← unhex? m), (← ri.toNat?), (← wi.toNat?))
    | _ => none
  let b : Buf := { mem := mem, ri := ri, wi := wi }
  let _ ← match opT with
    | ["clone"] | ["copy"] | ["clone_from", _, _, _] => some ()
    | _ => none
  if postT == ["X"] then return (["UNSAT C04", "UNSAT C01", "UNSAT C03", "DRIFT"], true)
  let ip ← obs? postT
  let mut v : List String := []
  if b.obs != ip then v := "DRIFT" :: v
  if !(validObs b ip && ip.rd == b.readable && ip.len == b.len) then v := "UNSAT C01" :: "UNSAT C03" :: v
  return (v, b.len != 0)

end FBV.DrvT1

/-
  Line-protocol parsing and printing shared by every driver module.
  Unparseable input is an error (`none`), never a default.
-/
import FBV.Model.Step
namespace FBV.Wire
open FBV

def hexVal? (c : Char) : Option Nat :=
  if c.isDigit then some (c.toNat - 48)
  else if 'a' ≤ c ∧ c ≤ 'f' then some (c.toNat - 87)
  else none

def unhex? (s : String) : Option (List Byte) :=
  if s == "-" then some [] else
  let rec go : List Char → List Byte → Option (List Byte)
    | a :: b :: rest, acc =>
      match hexVal? a, hexVal? b with
      | some x, some y => go rest ((x * 16 + y).toUInt8 :: acc)
      | _, _ => none
    | [], acc => some acc.reverse
    | _, _ => none
  go s.toList []

def hx (n : Nat) : Char := if n < 10 then Char.ofNat (48 + n) else Char.ofNat (87 + n)
def hex (bs : List Byte) : String :=
  if bs.isEmpty then "-" else String.ofList (bs.flatMap fun b => [hx (b.toNat / 16), hx (b.toNat % 16)])

def nums? (s : String) : Option (List Nat) :=
  if s == "-" then some [] else (s.splitOn ",").mapM String.toNat?

def showNums (l : List Nat) : String :=
  if l.isEmpty then "-" else ",".intercalate (l.map toString)

def cls? (s : String) : Option Cls :=
  match s with
  | "ok" => some .ok | "none" => some .none | "some" => some .some
  | "refused" => some .refused | "panic" => some .panic
  | _ => if s.startsWith "err" then (s.drop 3).toString.toNat?.map Cls.err else none

def showCls : Cls → String
  | .ok => "ok" | .none => "none" | .some => "some" | .refused => "refused" | .panic => "panic"
  | .err k => s!"err{k}"

def showOut (o : Out) : String := s!"{showCls o.cls} {hex o.bytes} {showNums o.nums} {showNums o.log}"

/-- `<cls> <bytes> <nums> <log> <allocs>` -/
def out? (toks : List String) : Option (Out × Nat) :=
  match toks with
  | [c, b, n, l, a] => do
    let c ← cls? c; let b ← unhex? b; let n ← nums? n; let l ← nums? l; let a ← a.toNat?
    pure ({ cls := c, bytes := b, nums := n, log := l }, a)
  | _ => none

def bool? (s : String) : Option Bool :=
  match s with | "0" => some false | "1" => some true | _ => none

/-- `<mem> <ri> <wi> <rd> <e>` -/
def obs? (toks : List String) : Option Obs :=
  match toks with
  | [m, ri, wi, rd, e] => do
    let m ← unhex? m; let ri ← ri.toNat?; let wi ← wi.toNat?; let rd ← unhex? rd; let e ← bool? e
    pure { mem := m, ri := ri, wi := wi, rd := rd, empty := e }
  | _ => none

def showObs (o : Obs) : String := s!"{hex o.mem} {o.ri} {o.wi} {hex o.rd} {if o.empty then 1 else 0}"

def dfId? (s : String) : Option DfId :=
  match s with
  | "line" => some .line | "crlf" => some .crlf | "null" => some .null
  | "reject" => some .reject | "rejectx" => some .rejectX | "lenp" => some .lenPrefix
  | _ => none

def arg? (pre : String) (s : String) : Option Nat :=
  if s.startsWith pre then (s.drop pre.length).toString.toNat? else none

/-- read scripts: comma-separated tokens, `B` … `E0|E1` bracket a nested try_parse -/
def rops? (s : String) : Option (List RdOp) :=
  if s == "-" then some [] else
  -- stack of partially built (reversed) op lists
  let rec go : List String → List (List RdOp) → Option (List RdOp)
    | [], [top] => some top.reverse
    | [], _ => none
    | t :: ts, stack =>
      match stack with
      | [] => none
      | top :: below =>
        let push (o : RdOp) := go ts ((o :: top) :: below)
        if t == "rbyte" then push .readByte
        else if t == "trbyte" then push .tryReadByte
        else if t == "rall" then push .readAll
        else if t == "B" then go ts ([] :: top :: below)
        else if t == "E0" ∨ t == "E1" then
          match below with
          | [] => none
          | parent :: rest => go ts ((RdOp.tryParse top.reverse (t == "E1") :: parent) :: rest)
        else match arg? "rb:" t, arg? "trb:" t, arg? "rac:" t, arg? "tre:" t with
          | some n, _, _, _ => push (.readBytes n)
          | _, some n, _, _ => push (.tryReadBytes n)
          | _, _, some n, _ => push (.readAndCopy n)
          | _, _, _, some n => push (.tryReadExact n)
          | _, _, _, _ => none
  go (s.splitOn ",") [[]]

def op? (toks : List String) : Option Op :=
  match toks with
  | ["wb", d] => (unhex? d).map .writeBytes
  | ["ws", d] => (unhex? d).map .writeStr
  | ["iow", d] => (unhex? d).map .ioWrite
  | ["iofl"] => some .ioFlush
  | ["pw", d, n] => do pure (.pokeWrote (← unhex? d) (← n.toNat?))
  | ["cof", "d", d, s] => do pure (.copyOnce (.data (← unhex? d) (← bool? s)))
  | ["cof", "e", k] => do pure (.copyOnce (.err (← k.toNat?)))
  | ["cof", "p"] => some (.copyOnce .panic)
  | ["rb", n] => n.toNat?.map .readBytes
  | ["trb", n] => n.toNat?.map .tryReadBytes
  | ["rbyte"] => some .readByte
  | ["trbyte"] => some .tryReadByte
  | ["rall"] => some .readAll
  | ["rac", d] => d.toNat?.map .readAndCopy
  | ["tre", d] => d.toNat?.map .tryReadExact
  | ["ior", d] => d.toNat?.map .ioRead
  | ["shift"] => some .shift
  | ["clear"] => some .clear
  | ["dfr", f] => (dfId? f).map .deframe
  | ["tp", s, sm] => do pure (.tryParse (← rops? s) (← bool? sm))
  | _ => none

def words (s : String) : List String := (s.splitOn " ").filter (· ≠ "")

end FBV.Wire

/- C16 / C13 (async) / C17 / C14 / C15 ties: tokio adapters, AsyncFixedBuf polls, async read_frame with Pending and cancellation -/
import FBV.Drv.RF
import FBV.Model.Async
import FBV.Spec.SatV
namespace FBV.DrvAAD
open FBV FBV.Wire FBV.DrvAD

def aract? (t : String) : Option ARAct :=
  if t == "e" then some .eof else if t == "P" then some .pending
  else match arg? "d" t, arg? "s" t, arg? "x" t with
    | some k, _, _ => some (.data k false)
    | _, some k, _ => some (.data k true)
    | _, _, some k => some (.err k)
    | _, _, _ => none

def awact? (t : String) : Option AWAct :=
  if t == "f" then some .full else if t == "z" then some .zero else if t == "P" then some .pending
  else match arg? "p" t, arg? "x" t with
    | some k, _ => some (.part k)
    | _, some k => some (.err k)
    | _, _ => none

def afact? (t : String) : Option AFAct :=
  if t == "o" then some .ok else if t == "P" then some .pending else (arg? "x" t).map .err

def asrw? (s : String) : Option ASRW :=
  match s.splitOn ":" with
  | [id, d, ra, wa, fa] => do
    pure { id := (← id.toNat?), data := (← unhex? d), racts := (← (listOf ra).mapM aract?),
           wacts := (← (listOf wa).mapM awact?), facts := (← (listOf fa).mapM afact?) }
  | _ => none

inductive AOp where
  | read (prefill cap : Nat) | write (b : List Byte) | flush | shutdown

def aop? (t : String) : Option AOp :=
  if t == "f" then some .flush else if t == "s" then some .shutdown
  else if t.startsWith "r" then
    match (t.drop 1).toString.splitOn ":" with
    | [p, c] => do pure (.read (← p.toNat?) (← c.toNat?))
    | [p, c, i] => do
      -- a ReadBuf over uninitialised storage with only `i` unfilled bytes initialised: the model has no
      -- notion of initialisation (no observable of the property depends on it)
      let _ ← i.toNat?
      pure (.read (← p.toNat?) (← c.toNat?))
    | _ => none
  else if t.startsWith "w" then (unhex? (t.drop 1).toString).map .write
  else if t.startsWith "W" then
    -- `poll_write_vectored`: by the trait's default, `poll_write` of the first non-empty slice
    let body := (t.drop 1).toString
    if body == "" then some (.write []) else ((body.splitOn "+").mapM unhex?).map fun l => .write (firstNE l)
  else none

def mkRb (p c : Nat) : ReadBuf := { buf := List.replicate p 0x50 ++ List.replicate c 0x2e, filled := p }

def showPoll (r : PollRes) (rb : ReadBuf) : String :=
  match r with
  | .ready (.ok _) => s!"ok:{hex rb.filledBytes}"
  | .ready (.error k) => s!"err{k}:{hex rb.filledBytes}"
  | .pending => s!"pending:{hex rb.filledBytes}"

def showPW (pre : String) : PollW → String
  | .ready (.ok n) => s!"{pre}ok{n}"
  | .ready (.error k) => s!"{pre}err{k}"
  | .pending => s!"{pre}pending"

def showPF (pre : String) : PollRes → String
  | .ready (.ok _) => s!"{pre}ok"
  | .ready (.error k) => s!"{pre}err{k}"
  | .pending => s!"{pre}pending"

def isRd (s : String) : Bool := s.startsWith "ok:" || s.startsWith "err" || s.startsWith "pending:" || s == "panic"
def logOf (id : String) (log : List String) : List String := log.filter fun c => (c.drop 1).toString.startsWith id
def isRCall (s : String) : Bool := s.startsWith "R"

/-- C13 on an async trace: every write / flush / shutdown is forwarded exactly once with identical bytes and its
    result (count, error or Pending) is returned unchanged -/
def satC13a (ops : List AOp) (results : List String) (log : List String) (innerId : Nat)
    (alts : List (Option (List Byte)) := []) : Bool :=
  -- a vectored write may reach the wrapped writer as its first non-empty slice (the trait's default) or, forwarded to a
  -- stream that gathers, as the whole concatenation: once, result unchanged, in either case
  let alts := alts ++ List.replicate (ops.length - alts.length) none
  let expect : List (List String) := ((ops.zip alts).zip results).filterMap fun ((op, alt), r) =>
    match op with
    | .write b => some (s!"W{innerId}:{hex b}:{r.drop 1}" :: (match alt with | some a => [s!"W{innerId}:{hex a}:{r.drop 1}"] | none => []))
    | .flush => some [s!"F{innerId}:{r.drop 1}"]
    | .shutdown => some [s!"S{innerId}:{r.drop 1}"]
    | .read _ _ => none
  let wlog := log.filter (fun c => !isRCall c)
  expect.length == wlog.length && (expect.zip wlog).all fun (cands, l) => cands.contains l

/-- did some vectored write reach the stream as the concatenation rather than as its first non-empty slice? -/
def gatheredA (ops : List AOp) (log : List String) (innerId : Nat) (alts : List (Option (List Byte))) : Bool :=
  let alts := alts ++ List.replicate (ops.length - alts.length) none
  let ws := (ops.zip alts).filterMap fun (op, alt) => match op with | .write b => some (b, alt) | _ => none
  let wl := log.filter (fun c => c.startsWith "W")
  (ws.zip wl).any fun ((b, alt), l) =>
    match alt with
    | some a => a != b && l.startsWith s!"W{innerId}:{hex a}:"
    | none => false

/-- every read result keeps the already-filled prefix intact -/
def prefixKept (ops : List AOp) (results : List String) : Bool :=
  (ops.zip results).all fun (op, r) =>
    match op with
    | .read p _ =>
      match r.splitOn ":" with
      | [_, h] => match unhex? h with
        | some f => f.take p == List.replicate p 0x50
        | none => false
      | _ => r == "panic"
    | _ => true

/-- generic run of the async chain over two scripted streams (per-stream logs) -/
def runAChain (c : AChain ASRW ASRW) : List AOp → List String → AChain ASRW ASRW × List String
  | [], acc => (c, acc.reverse)
  | .read p k :: rest, acc =>
    let (c', res, rb') := AChain.pollRead asrwReader asrwReader c (mkRb p k)
    runAChain c' rest (showPoll res rb' :: acc)
  | .write b :: rest, acc =>
    let (s2, r) := c.second.pollWrite b
    runAChain { c with second := s2 } rest (showPW "w" r :: acc)
  | .flush :: rest, acc =>
    let (s2, r) := c.second.pollFlush "F"
    runAChain { c with second := s2 } rest (showPF "f" r :: acc)
  | .shutdown :: rest, acc =>
    let (s2, r) := c.second.pollFlush "S"
    runAChain { c with second := s2 } rest (showPF "s" r :: acc)

def splitImpl (l : List String) : Option (List String × List String × List String) :=
  match l with
  | [r, ";", lg] => some (listOf r, listOf lg, [])
  | [r, ";", lg, ";", x] => some (listOf r, listOf lg, [x])
  | _ => none

/-- `ACH <asrw1> <asrw2> <ops> | <res> ; <log> | <tokio res> ; <log>` -/
def checkACH (pre impl tok : List String) : Option (List String × Bool) := do
  let (s1, s2, ops) ← match pre with
    | [a, b, o] => do pure ((← asrw? a), (← asrw? b), (← (listOf o).mapM aop?))
    | _ => none
  let alts := match pre with | [_, _, o] => DrvAD.gatherAlts o | _ => []
  let (ires, ilog, _) ← splitImpl impl
  let (tres, tlog, _) ← splitImpl tok
  let (cf, mres) := runAChain { first := some s1, second := s2 } ops []
  let m1 := match cf.first, cf.dropped with | some s, _ => s.log | none, some s => s.log | none, none => []
  let m2 := cf.second.log
  let mut v : List String := []
  if mres != ires || m1 != logOf "1:" ilog || m2 != logOf "2:" ilog then v := "DRIFT" :: v
  if mres.filter isRd != ires.filter isRd || m1 != logOf "1:" ilog || m2.filter isRCall != (logOf "2:" ilog).filter isRCall then
    v := "DIFF C16" :: v
  if !gatheredA ops ilog 2 alts && (mres.filter (!isRd ·) != ires.filter (!isRd ·) || m2.filter (!isRCall ·) != (logOf "2:" ilog).filter (!isRCall ·)) then
    v := "DIFF C13" :: v
  if ires.filter isRd != tres || ilog.filter isRCall != tlog || !prefixKept ops ires then v := "UNSAT C16" :: v
  if !satC13a ops ires ilog 2 alts then v := "UNSAT C13" :: v
  if ires.contains "panic" then v := "UNSAT C04" :: v
  return (v, ops.length > 1)

/-- `ACB <N> <content> <ri> <asrw2> <ops> | <res> ; <log> ; <left> | <tokio res> ; <log>`: first = AsyncFixedBuf -/
def checkACB (pre impl tok : List String) : Option (List String × Bool) := do
  let (n, content, ri, s2, ops) ← match pre with
    | [n, c, ri, b, o] => do pure ((← n.toNat?), (← unhex? c), (← ri.toNat?), (← asrw? b), (← (listOf o).mapM aop?))
    | _ => none
  let alts := match pre with | [_, _, _, _, o] => DrvAD.gatherAlts o | _ => []
  let (ires, ilog, extra) ← splitImpl impl
  let left ← match extra with | [x] => unhex? x | _ => none
  let (tres, tlog, _) ← splitImpl tok
  let b0 : Buf := { mem := content ++ List.replicate (n - content.length) 0, ri := ri, wi := content.length }
  let rec run (c : AChain Buf ASRW) (ops : List AOp) (acc : List String) : AChain Buf ASRW × List String :=
    match ops with
    | [] => (c, acc.reverse)
    | .read p k :: rest =>
      let (c', res, rb') := AChain.pollRead (bufPollRead true) asrwReader c (mkRb p k)
      run c' rest (showPoll res rb' :: acc)
    | .write b :: rest =>
      let (s2, r) := c.second.pollWrite b
      run { c with second := s2 } rest (showPW "w" r :: acc)
    | .flush :: rest =>
      let (s2, r) := c.second.pollFlush "F"
      run { c with second := s2 } rest (showPF "f" r :: acc)
    | .shutdown :: rest =>
      let (s2, r) := c.second.pollFlush "S"
      run { c with second := s2 } rest (showPF "s" r :: acc)
  let (cf, mres) := run { first := some b0, second := s2 } ops []
  let mleft := match cf.first, cf.dropped with | some b, _ => b.readable | none, some b => b.readable | none, none => []
  let m2 := cf.second.log
  let mut v : List String := []
  if mres != ires || m2 != ilog || mleft != left then v := "DRIFT" :: v
  if mres.filter isRd != ires.filter isRd || m2.filter isRCall != ilog.filter isRCall || mleft != left then v := "DIFF C16" :: v
  if !gatheredA ops ilog 2 alts && (mres.filter (!isRd ·) != ires.filter (!isRd ·) || m2.filter (!isRCall ·) != ilog.filter (!isRCall ·)) then v := "DIFF C13" :: v
  if ires.filter isRd != tres || ilog.filter isRCall != tlog || !prefixKept ops ires then v := "UNSAT C16" :: v
  if !satC13a ops ires ilog 2 alts then v := "UNSAT C13" :: v
  if ires.contains "panic" then v := "UNSAT C04" :: v
  return (v, ops.length > 1)

/-- the take adapter never exposes more than the remaining allowance to the inner stream, and debits exactly what was delivered -/
def satTakeCaps (limit : Nat) (ops : List AOp) (results : List String) (log : List String) : Bool :=
  let rec go (rem : Nat) (ops : List AOp) (results : List String) (reads : List String) : Bool :=
    match ops, results with
    | [], [] => reads.isEmpty
    | .read p c :: ops', r :: rs =>
      if rem == 0 then r == s!"ok:{hex (List.replicate p 0x50)}" && go rem ops' rs reads
      else match reads with
        | [] => false
        | e :: reads' =>
          match e.splitOn ":", r.splitOn ":" with
          | [_, cap, _], [cls, h] =>
            let adv := match unhex? h with | some f => f.length - p | none => 0
            cap == toString (min rem c) && (cls == "ok" || adv == 0) && decide (adv ≤ min rem c) && go (rem - adv) ops' rs reads'
          | _, _ => false
    | _ :: ops', _ :: rs => go rem ops' rs reads
    | _, _ => false
  go limit ops results (log.filter isRCall)

/-- `ATK <asrw> <limit> <ops> | <res> ; <log> | <tokio res> ; <log>` -/
def checkATK (oc : Bool) (pre impl tok : List String) : Option (List String × Bool) := do
  let (s, limit, ops) ← match pre with
    | [a, l, o] => do pure ((← asrw? a), (← l.toNat?), (← (listOf o).mapM aop?))
    | _ => none
  let alts := match pre with | [_, _, o] => DrvAD.gatherAlts o | _ => []
  let (ires, ilog, _) ← splitImpl impl
  let (tres, tlog, _) ← splitImpl tok
  let rec run (t : ATake ASRW) (ops : List AOp) (acc : List String) : ATake ASRW × List String :=
    match ops with
    | [] => (t, acc.reverse)
    | .read p k :: rest =>
      match ATake.pollRead oc asrwReader t (mkRb p k) with
      | (t', .ok (res, rb')) => run t' rest (showPoll res rb' :: acc)
      | (t', .panic) => run t' rest ("panic" :: acc)
    | .write b :: rest =>
      let (s2, r) := t.inner.pollWrite b
      run { t with inner := s2 } rest (showPW "w" r :: acc)
    | .flush :: rest =>
      let (s2, r) := t.inner.pollFlush "F"
      run { t with inner := s2 } rest (showPF "f" r :: acc)
    | .shutdown :: rest =>
      let (s2, r) := t.inner.pollFlush "S"
      run { t with inner := s2 } rest (showPF "s" r :: acc)
  let (tf, mres) := run { inner := s, remaining := limit } ops []
  let mlog := tf.inner.log
  let mut v : List String := []
  if mres != ires || mlog != ilog then v := "DRIFT" :: v
  if mres.filter isRd != ires.filter isRd || mlog.filter isRCall != ilog.filter isRCall then v := "DIFF C16" :: v
  if !gatheredA ops ilog s.id alts && (mres.filter (!isRd ·) != ires.filter (!isRd ·) || mlog.filter (!isRCall ·) != ilog.filter (!isRCall ·)) then v := "DIFF C13" :: v
  if ires.filter isRd != tres || ilog.filter isRCall != tlog || !prefixKept ops ires || !satTakeCaps limit ops ires ilog then
    v := "UNSAT C16" :: v
  if !satC13a ops ires ilog s.id alts then v := "UNSAT C13" :: v
  if ires.contains "panic" then v := "UNSAT C04" :: v
  return (v, ops.length > 1 && limit > 0)

/-! ### C17 -/

/-- `AP <N> <mem> <ri> <wi> | <op> | <res> | <obs>` -/
def checkAP (oc : Bool) (pre opT resT postT : List String) : Option (List String × Bool) := do
  let b ← match pre with
    | [_n, m, ri, wi] => do pure ({ mem := (← unhex? m), ri := (← ri.toNat?), wi := (← wi.toNat?) } : Buf)
    | _ => none
  let ip ← obs? postT
  let impl := " ".intercalate resT
  let (mb, mres, sat) ← match opT with
    | "pr" :: p :: c :: _initialised => do
      let p ← p.toNat?; let c ← c.toNat?
      let (b', res, rb') := bufPollRead oc b (mkRb p c)
      let n := min c b.len
      -- the property: immediately Ready(Ok); appends min(unfilled capacity, len()) unread bytes after the existing contents
      let want := s!"ok {hex (List.replicate p 0x50 ++ b.readable.take n)}"
      let satv := impl == want && ip.rd == b.readable.drop n
      pure (b', (match res with | .ready (.ok _) => s!"ok {hex rb'.filledBytes}" | .ready (.error k) => s!"err{k} {hex rb'.filledBytes}" | .pending => "pending"), satv)
    | ["pw", d] => do
      let d ← unhex? d
      let (b', o) := bufPollWrite oc b d
      let r := match o with | .ok (.ready (.ok n)) => s!"ok {n}" | .ok (.ready (.error k)) => s!"err{k}" | .ok .pending => "pending" | .panic => "panic"
      -- all-or-nothing; InvalidData and no change when it does not fit
      let satv := if d.length ≤ b.free then impl == s!"ok {d.length}" && ip.rd == b.readable ++ d
                  else impl == "err0" && ip.rd == b.readable && ip.ri == b.ri && ip.wi == b.wi && ip.mem == b.mem
      pure (b', r, satv)
    | ["pf"] => pure (b, "ok", impl == "ok" && ip == b.obs)
    | ["ps"] => pure (b, "ok", impl == "ok" && ip == b.obs)
    | _ => none
  let mut v : List String := []
  if mres != impl || mb.obs != ip then v := "DRIFT" :: "DIFF C17" :: v
  if !sat then v := "UNSAT C17" :: v
  return (v, mb != b)

/-- `AC <N> <content> <ri> <ops> | <results> | <final readable> | <sink>`: tokio's read / read_exact / write_all / copy over an
    AsyncFixedBuf, judged as the history of Read/Write calls they stand for -/
def checkAC (oc : Bool) (pre resT leftT sinkT : List String) : Option (List String × Bool) := do
  let (n, content, ri, ops) ← match pre with
    | [n, c, ri, o] => do pure ((← n.toNat?), (← unhex? c), (← ri.toNat?), listOf o)
    | _ => none
  let ires ← match resT with | [r] => some (listOf r) | _ => none
  let left ← match leftT with | [x] => unhex? x | _ => none
  let sink ← match sinkT with | [x] => unhex? x | _ => none
  let b0 : Buf := { mem := content ++ List.replicate (n - content.length) 0, ri := ri, wi := content.length }
  let rec run (b : Buf) (ops : List String) (acc : List String) (snk : List Byte) : Option (Buf × List String × List Byte) :=
    match ops with
    | [] => some (b, acc.reverse, snk)
    | op :: rest =>
      if op == "copy" then
        let r := b.readable
        let (b', _) := readAll oc b
        run b' rest (s!"ok{r.length}" :: acc) (snk ++ r)
      else match arg? "read" op, arg? "exact" op with
        | some k, _ =>
          let (b', o) := readAndCopy oc (List.replicate k 0x2e) b
          match o with
          | .ok (m, d) => run b' rest (s!"ok{m}:{hex d}" :: acc) snk
          | .panic => none
        | _, some k =>
          if k ≤ b.len then
            let (b', o) := readAndCopy oc (List.replicate k 0x2e) b
            match o with
            | .ok (_, d) => run b' rest (s!"ok:{hex d}" :: acc) snk
            | .panic => none
          else
            -- short: everything unread is consumed, then UnexpectedEof
            let (b', _) := readAll oc b
            run b' rest ("err1" :: acc) snk
        | _, _ =>
          if op.startsWith "wall" then
            match unhex? (op.drop 4).toString with
            | some d =>
              if d.isEmpty then run b rest ("ok" :: acc) snk
              else
                let (b', o) := writeBytes oc d b
                match o with
                | .ok (some _) => run b' rest ("ok" :: acc) snk
                | .ok none => run b' rest ("err0" :: acc) snk
                | .panic => none
            | none => none
          else none
  let (bf, mres, msink) ← run b0 ops [] []
  let mut v : List String := []
  if mres != ires || bf.readable != left || msink != sink then v := "DRIFT" :: "DIFF C17" :: "UNSAT C17" :: v
  return (v, ops.length > 1)

/-! ### C14 / C15 -/

def actOf : ARAct → Option Act
  | .data k _ => if k = 0 then none else some (.chunk (k - 1))
  | .err k => some (.err k)
  | .pending => some .pending
  | .eof => none

def showRes (r : Res) : String := DrvRF.resOfSpec r

/-- polls of one future until it completes or is cancelled -/
def pollsARF (f : Deframer) : Nat → AB × ARd × Res → List Char → List String → AB × ARd × Option Res × List Char × List String
  | 0, (b', r', res), ch, acc => (b', r', some res, ch, acc)
  | k + 1, (b', r', res), ch, acc =>
    match res with
    | .pending =>
      match ch with
      | 'c' :: ch' => (b', r', none, ch', acc)
      | _ :: ch' => pollsARF f k (pollAwait f r'.fuel b' r') ch' ("pending" :: acc)
      | [] => pollsARF f k (pollAwait f r'.fuel b' r') [] ("pending" :: acc)
    | _ => (b', r', some res, ch, acc)

/-- the abstract model's run of the harness loop with resume / cancel choices; the deframer is a per-call argument:
    call k uses `fs[k % |fs|]` (the list is rotated after every call, cancelled calls included) -/
def modelARF (fs : List Deframer) (dataLen : Nat) : Nat → Nat → AB → ARd → List Char → List String → List String × List Nat
  | 0, _, _, r, _, acc => (acc.reverse, r.log)
  | n + 1, term, b, r, ch, acc =>
    let f := fs.headD (fun _ => .ok none)
    let fs' := fs.rotateLeft 1
    let (b', r', res, ch', acc') := pollsARF f 1000 (pollLoop f r.fuel b r) ch acc
    let pos := dataLen - r'.rem.length
    match res with
    | none => modelARF fs' dataLen n 0 b' r' ch' (s!"cancel@{hex b'.q}@{pos}" :: acc')
    | some rr =>
      let s := showRes rr
      let entry := s!"{s}@{hex b'.q}@{pos}"
      let term' := if DrvRF.isTerminal s then term + 1 else 0
      if term' ≥ 2 then ((entry :: acc').reverse, r'.log) else modelARF fs' dataLen n term' b' r' ch' (entry :: acc')

/-- `ARF <N> <df> <pre> <ri> <asrw> <choices> <maxcalls> | <polls> ; <log>` -/
def checkARF (pre impl : List String) : Option (List String × Bool) := do
  let (n, df, content, ri, s, choices, maxc) ← match pre with
    | [n, df, c, ri, s, ch, m] => do pure ((← n.toNat?), (← (df.splitOn "+").mapM dfId?), (← unhex? c), (← ri.toNat?), (← asrw? s), ch, (← m.toNat?))
    | _ => none
  let (ipolls, ilog, _) ← splitImpl impl
  let acts ← s.racts.mapM actOf
  let q0 := content.drop ri
  let b0 : AB := { size := n, ri := ri, q := q0 }
  let r0 : ARd := { rem := s.data, acts := acts }
  let ch := if choices == "-" then [] else choices.toList
  let (mpolls, mlog) := modelARF (df.map dfOf) s.data.length maxc 0 b0 r0 ch []
  let cancels := ch.contains 'c'
  let tag := if cancels then "C15" else "C14"
  let mut v : List String := []
  -- the scripted reader is positional: when the destination lengths the implementation offers differ from the
  -- model's (a permitted difference, e.g. compacting lazily) the chunks and the placement of Pending differ too,
  -- so the polls are comparable with the model's only on equal reader-call sequences; the property's own
  -- predicates below are evaluated on the implementation's observations in every case
  let idests := ilog.filterMap fun c => match c.splitOn ":" with | [_, d, _] => d.toNat? | _ => none
  if mpolls != ipolls then
    v := "DRIFT" :: v
    -- C06 / C12 let an Interrupted answer be retried transparently: an implementation that surfaces fewer Interrupted
    -- errors than the model (which surfaces every one) is using that latitude, and is then not comparable poll by poll
    let nIntr (l : List String) := (l.filter fun p => p.startsWith "err2@").length
    if idests == mlog && !(nIntr ipolls < nIntr mpolls) then v := s!"DIFF {tag}" :: v
  -- the property on the implementation's own polls: with pending / cancelled polls deleted the results are the
  -- specification's; at every cancellation point nothing is lost or duplicated; a poll is Pending only if the reader was
  let calls := ipolls.filter (· != "pending")
  let obs ← calls.mapM DrvRF.call?
  let obs' := obs.map fun o => if o.res == "cancel" then { o with res := "err7" } else o
  let hasErr := s.racts.any fun a => match a with | .err _ => true | _ => false
  match df.mapM DrvRF.pdf? with
  | some gs =>
    if !hasErr || true then
      if !DrvRF.satStreamL n s.data gs obs' (q0 ++ s.data) then v := s!"UNSAT {tag}" :: v
  | none => pure ()
  -- `satOwn` includes "a deframer rejection repeats on retry", which presupposes the same deframer on the retry
  if df.length ≤ 1 then
    if !DrvRF.satOwn s.data obs' (q0 ++ s.data) then v := s!"UNSAT {tag}" :: v
  let npend := (ipolls.filter fun p => p == "pending" || p.startsWith "cancel").length
  let rpend := (ilog.filter fun c => c.endsWith ":pending").length
  if npend != rpend then v := s!"UNSAT {tag}" :: v
  return (v, ipolls.length > 2)

/-- `ACO <N> <pre> <ri> <asrw> <choices> | <polls> ; <log>`: one async copy_once_from, restarted after cancels -/
def checkACO (pre impl : List String) : Option (List String × Bool) := do
  let (n, content, ri, s, choices) ← match pre with
    | [n, c, ri, s, ch] => do pure ((← n.toNat?), (← unhex? c), (← ri.toNat?), (← asrw? s), ch)
    | _ => none
  let (ipolls, _ilog, _) ← splitImpl impl
  let acts ← s.racts.mapM actOf
  let q0 := content.drop ri
  let ch := if choices == "-" then [] else choices.toList
  -- the model is `cofPoll` (FBV/Model/ReadFrame.lean), the function C14.cof_* are about: no compaction, one reader
  -- poll per future poll; at a Pending the harness either polls the same future again or drops it and calls anew
  let b0 : AB := { size := n, ri := ri, q := q0 }
  let pos (r : ARd) := s.data.length - r.rem.length
  let rec go (b : AB) (r : ARd) (ch : List Char) (acc : List String) (fuel : Nat) : List String :=
    if fuel = 0 then acc.reverse else
    match cofPoll b r with
    | (b', r', .pending) =>
      match ch with
      | 'c' :: ch' => go b' r' ch' (s!"cancel@{hex b'.q}@{pos r'}" :: acc) (fuel - 1)
      | _ :: ch' => go b' r' ch' ("pending" :: acc) (fuel - 1)
      | [] => go b' r' [] ("pending" :: acc) (fuel - 1)
    | (b', r', .invalid) => (s!"err0@{hex b'.q}@{pos r'}" :: acc).reverse
    | (b', r', .ioErr e) => (s!"err{e}@{hex b'.q}@{pos r'}" :: acc).reverse
    | (b', r', .ok k) => (s!"ok{k}@{hex b'.q}@{pos r'}" :: acc).reverse
  let mpolls := go b0 { rem := s.data, acts := acts } ch [] 1000
  let tag := if ch.contains 'c' then "C15" else "C14"
  let mut v : List String := []
  -- reader calls of the implementation: destination lengths and results
  let rcalls : List (Nat × String) := _ilog.filterMap fun c => match c.splitOn ":" with
    | [_, d, r] => d.toNat?.map fun d => (d, r)
    | _ => none
  let free := b0.free
  if mpolls != ipolls then
    v := "DRIFT" :: v
    -- comparable with the model only when the reader was called the same number of times (an Interrupted answer may
    -- legitimately be retried: C12)
    let mcalls := (mpolls.filter fun p => p == "pending" || p.startsWith "cancel").length + (if free = 0 then 0 else 1)
    if rcalls.length == mcalls then v := s!"DIFF {tag}" :: v
  -- the property on the implementation's own observations
  let pendEntries := ipolls.filter fun p => p == "pending" || p.startsWith "cancel"
  let finals := ipolls.filter fun p => !(p == "pending" || p.startsWith "cancel")
  let cancelsOk := pendEntries.all fun p => p == "pending" || p == s!"cancel@{hex q0}@0"
  let npend := (rcalls.filter fun c => c.2 == "pending").length
  let destsOk := rcalls.all fun c => c.1 == free && decide (0 < free)
  -- between Pendings only Interrupted may be answered and retried; the last answer is the one returned
  let answers := rcalls.filter fun c => c.2 != "pending"
  let earlyOk := answers.dropLast.all fun c => c.2 == "err2"
  let finalOk := match finals with
    | [] => true                       -- the scenario ended in a cancellation
    | [f] =>
      match f.splitOn "@" with
      | [r, q, pos] =>
        if r == "err0" && free == 0 then q == hex q0 && pos == "0" && rcalls.isEmpty
        else if r.startsWith "ok" then
          match (r.drop 2).toString.toNat? with
          | some k => q == hex (q0 ++ s.data.take k) && pos == toString k && decide (k ≤ free) &&
                      (answers.getLast?.map (·.2)) == some s!"ok{k}"
          | none => false
        else if r.startsWith "err" then q == hex q0 && pos == "0" && (answers.getLast?.map (·.2)) == some r
        else false
      | _ => false
    | _ => false
  if !(cancelsOk && pendEntries.length == npend && destsOk && earlyOk && finalOk) then v := s!"UNSAT {tag}" :: v
  return (v, ipolls.length > 1)

end FBV.DrvAAD

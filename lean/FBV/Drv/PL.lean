/- C07 tie: the request loop over a scripted transport (blocking `PL`, tokio `APL`) -/
import FBV.Drv.AAD
import FBV.Model.Pipeline
namespace FBV.DrvPL
open FBV FBV.Wire FBV.DrvAD

def lenOf (h : List Byte) : Nat :=
  match h with
  | [] => 0
  | x :: _ => if x.toNat < 0x30 then 0 else (x.toNat - 0x30) % 80

def showReqs (l : List (List Byte × List Byte)) : String :=
  if l.isEmpty then "-" else ",".intercalate (l.map fun (h, p) => s!"{hex h}:{hex p}")

def okBytes (n : Nat) : List Byte := (List.replicate n [0x4f, 0x4b]).flatten

/-- `PL <N> <srw> <dests> | <reqs> ; <terminal> ; <written> ; <allocs>` (APL: the same with an async script, no allocs) -/
def check (async : Bool) (pre impl : List String) : Option (List String × Bool) := do
  let (n, dataRem, acts, dests) ← match pre with
    | [n, s, ds] => do
      let n ← n.toNat?
      let ds ← nums? ds
      if async then
        let s ← DrvAAD.asrw? s
        let acts ← s.racts.mapM DrvAAD.actOf
        pure (n, s.data, acts, ds)
      else
        let s ← srw? s
        let acts ← s.racts.mapM fun a => match a with
          | .data k _ => if k = 0 then none else some (Act.chunk (k - 1))
          | _ => none
        pure (n, s.data, acts, ds)
    | _ => none
  let (ireqs, iterm, iwritten, allocs) ← match impl with
    | [r, ";", t, ";", wr, ";", a] => do pure (r, t, (← unhex? wr), (← a.toNat?))
    | [r, ";", t, ";", wr] => do pure (r, t, (← unhex? wr), 0)
    | _ => none
  let fuel := dataRem.length + 2
  -- the specification: consecutive segments of the connection stream (no chunking, no schedule, no Pending in it)
  let (sreqs, sterm) := parseConn n deframeLine lenOf fuel dataRem
  -- the abstract model of the loop (`serveZ`, the function `C07.serveZ_spec` is about), run with the same destination schedule, Pendings deleted
  let chunkActs := acts.filter fun a => match a with | .chunk _ => true | _ => false
  -- the harness cycles through `dests` (zero-length destinations included), restarting for every request
  let sched := if dests.isEmpty then [8192] else (List.replicate (dataRem.length + 4) dests).flatten
  let (mreqs, mterm) := serveZ deframeLine lenOf fuel { size := n, ri := 0, q := [] } { rem := dataRem, acts := chunkActs } sched
  let mut v : List String := []
  if showReqs mreqs != ireqs || DrvRF.resOfSpec mterm != iterm then v := "DRIFT" :: "DIFF C07" :: v
  if showReqs sreqs != ireqs || DrvRF.resOfSpec sterm != iterm || iwritten != okBytes sreqs.length then v := "UNSAT C07" :: v
  if allocs != 0 then v := "UNSAT C18" :: v
  return (v, sreqs.length > 1)

end FBV.DrvPL

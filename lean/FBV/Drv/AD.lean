/- C08 / C09 / C13 tie: chain and take scenarios over scripted read-writers -/
import FBV.Drv.Wire
import FBV.Model.Adapters
import FBV.Spec.SatV
namespace FBV.DrvAD
open FBV FBV.Wire

def listOf (s : String) : List String := if s == "-" then [] else s.splitOn ","

def ract? (t : String) : Option RAct :=
  if t == "e" then some .eof
  else if t == "p" then some .panic
  else match arg? "d" t, arg? "s" t, arg? "x" t with
    | some k, _, _ => some (.data k false)
    | _, some k, _ => some (.data k true)
    | _, _, some k => some (.err k)
    | _, _, _ => none

def wact? (t : String) : Option WAct :=
  if t == "f" then some .full else if t == "z" then some .zero
  else match arg? "p" t, arg? "x" t with
    | some k, _ => some (.part k)
    | _, some k => some (.err k)
    | _, _ => none

def fact? (t : String) : Option (Option ErrKind) :=
  if t == "o" then some none else (arg? "x" t).map some

def srw? (s : String) : Option SRW :=
  match s.splitOn ":" with
  | [id, d, ra, wa, fa] => do
    pure { id := (← id.toNat?), data := (← unhex? d), racts := (← (listOf ra).mapM ract?),
           wacts := (← (listOf wa).mapM wact?), facts := (← (listOf fa).mapM fact?) }
  | _ => none

/-- `R<l1>+<l2>+..` / `W<hex>+<hex>+..`: the vectored calls, which by the traits' default implementations are a
    `read` into / a `write` of the first non-empty slice -/
def adop? (t : String) : Option AdOp :=
  if t == "f" then some .flush
  else if t.startsWith "R" then
    let body := (t.drop 1).toString
    if body == "" then some (.read 0) else ((body.splitOn "+").mapM String.toNat?).map fun l => .read (firstNELen l)
  else if t.startsWith "W" then
    let body := (t.drop 1).toString
    if body == "" then some (.write []) else ((body.splitOn "+").mapM unhex?).map fun l => .write (firstNE l)
  else if t.startsWith "r" then (t.drop 1).toString.toNat?.map .read
  else if t.startsWith "w" then (unhex? (t.drop 1).toString).map .write
  else none

def ops? (s : String) : Option (List AdOp) := (listOf s).mapM adop?

/-- for every operation: the whole concatenation of a vectored write's slices (what a gathering implementation hands to a
    writer that really gathers), `none` for the other operations -/
def gatherAlts (s : String) : List (Option (List Byte)) :=
  (listOf s).map fun t =>
    if t.startsWith "W" then
      let body := (t.drop 1).toString
      if body == "" then some [] else ((body.splitOn "+").mapM unhex?).map List.flatten
    else none

def showRd : RdRes → String
  | .ok n => s!"ok{n}"
  | .error k => s!"err{k}"

def showRes : AdRes → String
  | .read r d => s!"{showRd r}:{hex d}"
  | .write r => s!"w{showRd r}"
  | .flush (.ok _) => "fok"
  | .flush (.error k) => s!"ferr{k}"
  | .panic => "panic"

def showCall : Call → String
  | .read id n r => s!"R{id}:{n}:{showRd r}"
  | .write id b r => s!"W{id}:{hex b}:{showRd r}"
  | .flush id (.ok _) => s!"F{id}:ok"
  | .flush id (.error k) => s!"F{id}:err{k}"

def joinC (l : List String) : String := if l.isEmpty then "-" else ",".intercalate l

def isReadRes (s : String) : Bool := s.startsWith "ok" || s.startsWith "err"
def isReadCall (s : String) : Bool := s.startsWith "R"

/-- the C13 clause on an observed trace: the inner write/flush log is exactly the adapter-level
    write/flush sequence with identical bytes, and every result is returned unchanged -/
def satC13 (ops : List AdOp) (results : List String) (log : List String) (innerId : Nat)
    (alts : List (Option (List Byte)) := []) : Bool :=
  -- a vectored write may reach the wrapped writer as the first non-empty slice (the trait's default) or, forwarded to
  -- a writer that gathers, as the whole concatenation: once, and its result returned unchanged, in either case
  let alts := alts ++ List.replicate (ops.length - alts.length) none
  let expect : List (List String) := ((ops.zip alts).zip results).filterMap fun ((op, alt), r) =>
    match op with
    | .write b =>
      if r == "panic" then none else
      some (s!"W{innerId}:{hex b}:{r.drop 1}" :: (match alt with | some a => [s!"W{innerId}:{hex a}:{r.drop 1}"] | none => []))
    | .flush => if r == "panic" then none else some [s!"F{innerId}:{r.drop 1}"]
    | .read _ => none
  let wlog := log.filter (fun c => !isReadCall c)
  expect.length == wlog.length && (expect.zip wlog).all fun (cands, l) => cands.contains l

/-- did some vectored write reach the writer as the concatenation rather than as its first non-empty slice? -/
def gathered (ops : List AdOp) (log : List String) (innerId : Nat) (alts : List (Option (List Byte))) : Bool :=
  let alts := alts ++ List.replicate (ops.length - alts.length) none
  let ws := (ops.zip alts).filterMap fun (op, alt) => match op with | .write b => some (b, alt) | _ => none
  let wl := log.filter (fun c => c.startsWith "W")
  (ws.zip wl).any fun ((b, alt), l) =>
    match alt with
    | some a => a != b && l.startsWith s!"W{innerId}:{hex a}:"
    | none => false

/-- C08 clauses on the implementation's own read log: `second` is not read before `first` has answered
    `Ok(0)` to a non-empty destination, and `first` is never read again afterwards -/
def satC08log (log : List String) : Bool :=
  let reads := log.filter isReadCall
  let rec go (l : List String) (switched : Bool) (eofSeen : Bool) : Bool :=
    match l with
    | [] => true
    | c :: rest =>
      match c.splitOn ":" with
      | [who, n, r] =>
        if who == "R1" then
          if switched then false
          else go rest false (eofSeen || (r == "ok0" && n != "0"))
        else
          if !eofSeen then false else go rest true eofSeen
      | _ => false
  go reads false false

/-- `CH <srw1> <srw2> <ops> | <res> ; <log> ; <allocs> | <stdres> ; <stdlog>` -/
def checkCH (pre impl std : List String) (std2 : List String := []) : Option (List String × Bool) := do
  let (s1, s2, ops) ← match pre with
    | [a, b, o] => do pure ((← srw? a), (← srw? b), (← ops? o))
    | _ => none
  let alts := match pre with | [_, _, o] => gatherAlts o | _ => []
  -- second reference: std's adapter over twins that really scatter / gather (what a forwarding implementation meets)
  let (sres2, slog2) := match std2 with
    | [r, ";", l] => (listOf r, listOf l)
    | _ => ([], ["<none>"])
  let (ires, ilog, allocs) ← match impl with
    | [r, ";", l, ";", a] => do pure (listOf r, listOf l, (← a.toNat?))
    | _ => none
  let (sres, slog) ← match std with
    | [r, ";", l] => some (listOf r, listOf l)
    | _ => none
  let x0 : ChainS := { c := { first := some s1, second := s2 }, log := [] }
  let (xf, mres) := runChainS x0 ops
  let mresS := mres.map showRes
  let mlogS := xf.log.map showCall
  let mut v : List String := []
  if mresS != ires || mlogS != ilog then v := "DRIFT" :: v
  let okStd1 := ires.filter isReadRes == sres && ilog.filter isReadCall == slog
  let okStd2 := ires.filter isReadRes == sres2 && ilog.filter isReadCall == slog2
  -- the model is the traits' default for vectored calls; an implementation that forwards them (and so agrees with std's
  -- adapter over scattering / gathering twins instead) is compared with that reference, not with the model
  if (okStd1 || !okStd2) && (mresS.filter isReadRes != ires.filter isReadRes || mlogS.filter isReadCall != ilog.filter isReadCall) then v := "DIFF C08" :: v
  if !gathered ops ilog 2 alts && (mresS.filter (!isReadRes ·) != ires.filter (!isReadRes ·) || mlogS.filter (!isReadCall ·) != ilog.filter (!isReadCall ·)) then
    v := "DIFF C13" :: v
  if !(okStd1 || okStd2) || !satC08log ilog then v := "UNSAT C08" :: v
  if !satC13 ops ires ilog 2 alts then v := "UNSAT C13" :: v
  if ires.contains "panic" then v := "UNSAT C04" :: v
  if allocs != 0 then v := "UNSAT C18" :: v
  return (v, ops.length > 1)

/-- `CB <N> <content> <ri> <srw2> <ops> | <res> ; <log> ; <allocs> ; <left> | <stdres> ; <stdlog>`:
    `first` is a real FixedBuf (model: the concrete `Buf` through `impl Read`) -/
def checkCB (pre impl std : List String) : Option (List String × Bool) := do
  let (n, content, ri, s2, ops) ← match pre with
    | [n, c, ri, b, o] => do pure ((← n.toNat?), (← unhex? c), (← ri.toNat?), (← srw? b), (← ops? o))
    | _ => none
  let (ires, ilog, allocs, left) ← match impl with
    | [r, ";", l, ";", a, ";", lf] => do pure (listOf r, listOf l, (← a.toNat?), (← unhex? lf))
    | _ => none
  let (sres, slog) ← match std with
    | [r, ";", l] => some (listOf r, listOf l)
    | _ => none
  -- the buffer as the harness built it: write_bytes(content); read_bytes(ri)
  let b0 : Buf := { mem := content ++ List.replicate (n - content.length) 0, ri := ri, wi := content.length }
  -- run the generic chain with `bufReader` for first and the scripted reader (with log) for second
  let rec run (c : Chain Buf (SRW × List Call)) (ops : List AdOp) (acc : List String) : Chain Buf (SRW × List Call) × List String :=
    match ops with
    | [] => (c, acc.reverse)
    | .read k :: rest =>
      let (c', res, d) := Chain.read (bufReader true) srwReader c (List.replicate k DEST_INIT)
      run c' rest (s!"{showRd res}:{hex d}" :: acc)
    | .write bts :: rest =>
      let (s2', res, call) := c.second.1.write bts
      run { c with second := (s2', c.second.2 ++ [call]) } rest (s!"w{showRd res}" :: acc)
    | .flush :: rest =>
      let (s2', res, call) := c.second.1.flush
      run { c with second := (s2', c.second.2 ++ [call]) } rest ((match res with | .ok _ => "fok" | .error k => s!"ferr{k}") :: acc)
  let (cf, mresS) := run { first := some b0, second := (s2, []) } ops []
  let mlogS := cf.second.2.map showCall
  let mleft := match cf.first, cf.dropped with
    | some b, _ => b.readable
    | none, some b => b.readable
    | none, none => []
  let mut v : List String := []
  if mresS != ires || mlogS != ilog || mleft != left then v := "DRIFT" :: v
  if mresS.filter isReadRes != ires.filter isReadRes || mlogS.filter isReadCall != ilog.filter isReadCall || mleft != left then
    v := "DIFF C08" :: v
  if mresS.filter (!isReadRes ·) != ires.filter (!isReadRes ·) || mlogS.filter (!isReadCall ·) != ilog.filter (!isReadCall ·) then
    v := "DIFF C13" :: v
  if ires.filter isReadRes != sres || ilog.filter isReadCall != slog then v := "UNSAT C08" :: v
  if !satC13 ops ires ilog 2 then v := "UNSAT C13" :: v
  if ires.contains "panic" then v := "UNSAT C04" :: v
  if allocs != 0 then v := "UNSAT C18" :: v
  return (v, ops.length > 1)

/-- the C09 clauses on an observed trace -/
def satC09 (limit : Nat) (ops : List AdOp) (results : List String) (log : List String) : Bool :=
  let rec go (rem : Nat) (ops : List AdOp) (results : List String) (reads : List String) : Bool :=
    match ops, results with
    | [], [] => reads.isEmpty
    | .read n :: ops', r :: rs =>
      if rem == 0 then
        -- limit reached: Ok(0) without calling inner, destination untouched
        r == s!"ok0:{hex (List.replicate n DEST_INIT)}" && go rem ops' rs reads
      else
        match reads with
        | [] => false
        | c :: reads' =>
          let offered := min rem n
          match c.splitOn ":", r.splitOn ":" with
          | [_, dl, cres], [rres, dhex] =>
            -- inner is offered exactly min(remaining, |dest|) (never more than the allowance), its result is returned as is,
            -- a short read uses up only what was returned, an error uses up nothing, bytes beyond the offered length are untouched
            let used := if rres.startsWith "ok" then (rres.drop 2).toString.toNat?.getD 0 else 0
            let tailOk := match unhex? dhex with
              | some d => d.drop offered == List.replicate (n - offered) DEST_INIT && d.length == n
              | none => false
            dl == toString offered && cres == rres && decide (used ≤ offered) && tailOk && go (rem - used) ops' rs reads'
          | _, _ => false
    | _ :: ops', _ :: rs => go rem ops' rs reads
    | _, _ => false
  go limit ops results (log.filter isReadCall)

/-- `TK <srw> <limit> <ops> | <res> ; <log> ; <allocs> | <stdres> ; <stdlog>` -/
def checkTK (oc : Bool) (pre impl std : List String) (std2 : List String := []) : Option (List String × Bool) := do
  let (s, limit, ops) ← match pre with
    | [a, l, o] => do pure ((← srw? a), (← l.toNat?), (← ops? o))
    | _ => none
  let alts := match pre with | [_, _, o] => gatherAlts o | _ => []
  let (sres2, slog2) := match std2 with
    | [r, ";", l] => (listOf r, listOf l)
    | _ => ([], ["<none>"])
  let (ires, ilog, allocs) ← match impl with
    | [r, ";", l, ";", a] => do pure (listOf r, listOf l, (← a.toNat?))
    | _ => none
  let (sres, slog) ← match std with
    | [r, ";", l] => some (listOf r, listOf l)
    | _ => none
  let (xf, mres) := runTakeS oc { t := { inner := s, remaining := limit }, log := [] } ops
  let mresS := mres.map showRes
  let mlogS := xf.log.map showCall
  let mut v : List String := []
  if mresS != ires || mlogS != ilog then v := "DRIFT" :: v
  let okStd1 := ires.filter isReadRes == sres && ilog.filter isReadCall == slog
  let okStd2 := ires.filter isReadRes == sres2 && ilog.filter isReadCall == slog2
  if (okStd1 || !okStd2) && (mresS.filter isReadRes != ires.filter isReadRes || mlogS.filter isReadCall != ilog.filter isReadCall) then v := "DIFF C09" :: v
  if !gathered ops ilog s.id alts && (mresS.filter (!isReadRes ·) != ires.filter (!isReadRes ·) || mlogS.filter (!isReadCall ·) != ilog.filter (!isReadCall ·)) then
    v := "DIFF C13" :: v
  if !(okStd1 || okStd2) || !satC09 limit ops ires ilog then v := "UNSAT C09" :: v
  if !satC13 ops ires ilog s.id alts then v := "UNSAT C13" :: v
  if ires.contains "panic" then v := "UNSAT C04" :: v
  if allocs != 0 then v := "UNSAT C18" :: v
  return (v, ops.length > 1 && limit > 0)

/-- `BW <adapter> <len> <act> | <lengths the inner writer saw> ; <result>`: a payload too long to be logged byte by byte
    through an adapter's write side.  C13: forwarded exactly once, with the same length, result returned unchanged
    (the model's `chain_write` / `take_write` say this for every payload; here only lengths are compared) -/
def checkBW (pre impl : List String) : Option (List String × Bool) := do
  let (len, act) ← match pre with
    | [_, l, a] => do pure ((← l.toNat?), (← wact? a))
    | _ => none
  let (calls, res) ← match impl with
    | [c, ";", r] => do pure ((← nums? c), r)
    | _ => none
  let want := match act with
    | .full => s!"ok{len}" | .part k => s!"ok{min k len}" | .zero => "ok0" | .err k => s!"err{k}"
  let ok := calls == [len] && res == want
  return ((if ok then [] else ["DRIFT", "DIFF C13", "UNSAT C13"]), true)

end FBV.DrvAD

/- C19 tie: escape_ascii outputs and the method / Debug forms, exact equality with the model -/
import FBV.Drv.Wire
import FBV.Model.Escape
namespace FBV.DrvES
open FBV FBV.Wire

def isPrintable (l : List Byte) : Bool := l.all fun c => 32 ≤ c && c ≤ 126

/-- `ES <hex> | <hex|panic>` -/
def checkES (pre post : List String) : Option (List String × Bool) := do
  let d ← match pre with | [d] => unhex? d | _ => none
  let impl ← match post with | [x] => some x | _ => none
  let model := hex (escape d)
  let mut v : List String := []
  if impl != model then v := "DRIFT" :: "DIFF C19" :: v
  if impl == "panic" then
    v := "UNSAT C19" :: "UNSAT C04" :: v
  else
    let out ← unhex? impl
    -- the property's own clauses on the implementation's output: printable, decodable back to the input,
    -- equal to the concatenation of the per-byte escapes
    if !(isPrintable out && unescape d.length out == some d && out == d.flatMap esc) then v := "UNSAT C19" :: v
  return (v, !d.isEmpty)

/-- `EB <N> <mem> <ri> <wi> | <escape_ascii()> | <Debug>` -/
def checkEB (pre p1 p2 : List String) : Option (List String × Bool) := do
  let b ← match pre with
    | [_n, m, ri, wi] => do pure ({ mem := (← unhex? m), ri := (← ri.toNat?), wi := (← wi.toNat?) } : Buf)
    | _ => none
  let e ← match p1 with | [x] => some x | _ => none
  let g ← match p2 with | [x] => some x | _ => none
  let mut v : List String := []
  if e != hex b.escapeAscii || g != hex b.debug then v := "DRIFT" :: "DIFF C19" :: "UNSAT C19" :: v
  if e == "panic" then v := "UNSAT C04" :: v
  return (v, b.ri < b.wi)

end FBV.DrvES

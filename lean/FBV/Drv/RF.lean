/- C02 / C06 / C12 tie: repeated read_frame calls over a scripted reader -/
import FBV.Drv.AD
import FBV.Model.ReadFrame
import FBV.Spec.FrameSpec
import FBV.Model.Deframe
namespace FBV.DrvRF
open FBV FBV.Wire FBV.DrvAD

structure CallObs where
  res : String          -- frame:HEX | none | err<k> | panic
  rd : List Byte        -- readable() after the call
  pos : Nat             -- reader position after the call
deriving Repr

def call? (s : String) : Option CallObs :=
  match s.splitOn "@" with
  | [r, rd, pos] => do pure { res := r, rd := (← unhex? rd), pos := (← pos.toNat?) }
  | _ => none

def showRF : RFRes → String
  | .frame p => s!"frame:{hex p}"
  | .none => "none"
  | .err k => s!"err{k}"
  | .panic => "panic"

def isTerminal (r : String) : Bool := r == "none" || r == "err0" || r == "err1"

/-- the model's run of the harness loop -/
def modelRun (oc : Bool) (fs : List Deframer) (dataLen : Nat) : Nat → Nat → Buf → SRW → List Call → List String → List String × List String
  | 0, _, _, _, _, acc => (acc.reverse, [])
  | n + 1, term, b, s, _log, acc =>
    -- the harness may use a different deframer for each call (cycling through `fs`)
    let f := fs.headD (fun _ => .ok none)
    let (b', s', log', res) := readFrameC oc f (s.data.length + s.racts.length + 2) b s []
    let r := showRF res
    let entry := s!"{r}@{hex b'.readable}@{dataLen - s'.data.length}"
    let logS := "C" :: log'.map showCall
    let term' := if isTerminal r then term + 1 else 0
    if term' ≥ 2 then ((entry :: acc).reverse, logS)
    else
      let (rest, lg) := modelRun oc (fs.rotateLeft 1) dataLen n term' b' s' [] (entry :: acc)
      (rest, logS ++ lg)

/-- never-rejecting view of the deframers that honour the contract -/
def pdf? : DfId → Option PDeframer
  | .line => some deframeLine | .crlf => some deframeCrlf | .null => some deframeNull | .lenPrefix => some dfLenPrefix
  | _ => none

def resOfSpec : Res → String
  | .frame p => s!"frame:{hex p}"
  | .eofNone => "none" | .invalid => "err0" | .ueof => "err1"
  | .ioErr k => s!"err{k}" | .pending => "pending" | .fuelOut => "fuel"

def isReaderFault (r : String) : Bool :=
  r == "panic" || (r.startsWith "err" && r != "err0" && r != "err1")

/-- C02 / C06 on the implementation's observed calls: with reader faults (errors, panics) deleted, the results
    are exactly the specification's (frames of the stream in order, then the terminal outcome, which repeats);
    after EVERY call the unread bytes followed by the undelivered bytes are what the specification leaves pending;
    a reader fault consumes and loses nothing -/
def satStreamL (size : Nat) (data : List Byte) : List PDeframer → List CallObs → List Byte → Bool
  | _, [], _ => true
  | gs, c :: rest, t =>
    let g := gs.headD (fun _ => none)
    let partitionOk (t' : List Byte) := c.rd ++ data.drop c.pos == t'
    if isReaderFault c.res then partitionOk t && satStreamL size data (gs.rotateLeft 1) rest t
    else
      let (r, t') := specNext size g t
      resOfSpec r == c.res && partitionOk t' && satStreamL size data (gs.rotateLeft 1) rest t'

def satStream (size : Nat) (g : PDeframer) (data : List Byte) (calls : List CallObs) (t : List Byte) : Bool :=
  satStreamL size data [g] calls t


/-- C06's clauses that hold for ANY deframer (also rejecting ones), on the implementation's observations: a call
    that ends in an error, a panic or `None` consumes and loses nothing (unread ++ undelivered is unchanged), a
    frame only removes a prefix, and `InvalidData` (deframer rejection / buffer full) repeats on retry -/
def satOwn (data : List Byte) : List CallObs → List Byte → Bool
  | [], _ => true
  | c :: rest, t =>
    let t' := c.rd ++ data.drop c.pos
    let isFrame := c.res.startsWith "frame"
    let keep := if isFrame then t'.isSuffixOf t else t' == t
    let rep := if c.res == "err0" then
        match rest.find? (fun n => !isReaderFault n.res) with
        | some n => n.res == "err0"
        | none => true
      else true
    keep && rep && satOwn data rest t'

/-- every fault the caller sees is the next one the reader produced, in order; only Interrupted may be missing (C06: "an
    Interrupted read may instead be retried transparently") -/
def faultsOk : List String → List String → Bool
  | [], _ => true
  | _ :: _, [] => false
  | s :: ss, t :: ts => if s == t then faultsOk ss ts else if t == "err2" then faultsOk (s :: ss) ts else false

/-- C12 on the implementation's log: in each read_frame call, every reader call happens only while the buffered
    bytes hold no complete frame, with a non-empty destination no larger than the free space; nothing is read after
    a result is available -/
def satCalls (size : Nat) (f : Deframer) (data : List Byte) : List String → List Byte → Nat → Bool
  | [], _, _ => true
  | e :: rest, cur, pos =>
    if e == "C" then satCalls size f data rest cur pos   -- `cur` is re-synchronised by the caller per segment
    else match e.splitOn ":" with
      | [_, dl, r] =>
        match dl.toNat? with
        | none => false
        | some d =>
          let verdict := if cur.isEmpty then (Except.ok none : Except Unit _) else f cur
          let needed := match verdict with | .ok none => true | _ => false
          let n := if r.startsWith "ok" then (r.drop 2).toString.toNat?.getD 0 else 0
          -- an empty read, an error (other than Interrupted, which may be retried) or a panic is a result:
          -- no further call in this segment (`Disciplined` in FBV/Spec/CallTrace.lean, `C12.call_discipline`)
          let stop := r == "ok0" || (r.startsWith "err" && r != "err2") || r == "panic" || r == "pending"
          needed && decide (0 < d) && decide (d + cur.length ≤ size) && decide (n ≤ d) && (!stop || rest.isEmpty) &&
            satCalls size f data rest (cur ++ (data.drop pos).take n) (pos + n)
      | _ => false

/-- split the log into per-call segments -/
def segments (log : List String) : List (List String) :=
  let rec go (l : List String) (cur : List String) (acc : List (List String)) : List (List String) :=
    match l with
    | [] => (cur.reverse :: acc).reverse
    | e :: rest => if e == "C" then go rest [] (cur.reverse :: acc) else go rest (e :: cur) acc
  (go log [] []).drop 1

def satC12 (size : Nat) (fs : List Deframer) (data : List Byte) (rd0 : List Byte) (calls : List CallObs) (log : List String) : Bool :=
  let segs := segments log
  let rec go (fs : List Deframer) (segs : List (List String)) (calls : List CallObs) (rd : List Byte) (pos : Nat) : Bool :=
    match segs, calls with
    | [], [] => true
    | s :: ss, c :: cs => satCalls size (fs.headD (fun _ => .ok none)) data s rd pos && go (fs.rotateLeft 1) ss cs c.rd c.pos
    | _, _ => false
  go fs segs calls rd0 0

/-- `RF <N> <df> <pre> <ri> <srw> <maxcalls> | <calls> ; <log> ; <allocs>` -/
def check (oc : Bool) (pre impl : List String) : Option (List String × Bool) := do
  let (n, df, content, ri, s, maxc) ← match pre with
    | [n, df, c, ri, s, m] => do pure ((← n.toNat?), (← (df.splitOn "+").mapM dfId?), (← unhex? c), (← ri.toNat?), (← srw? s), (← m.toNat?))
    | _ => none
  let (icallsS, ilog, allocs) ← match impl with
    | [c, ";", l, ";", a] => do pure (listOf c, listOf l, (← a.toNat?))
    | _ => none
  let icalls ← icallsS.mapM call?
  let b0 : Buf := { mem := content ++ List.replicate (n - content.length) 0, ri := ri, wi := content.length }
  let dfs := df
  let fs := dfs.map dfOf
  let (mcalls, mlog) := modelRun oc fs s.data.length maxc 0 b0 s [] []
  let faults := s.racts.any fun a => match a with | .err _ | .panic | .eof => true | _ => false
  let mut v : List String := []
  if mcalls != icallsS || mlog != ilog then v := "DRIFT" :: v
  -- property observables: per call the result and `readable ++ undelivered`; per call the number of reader calls
  -- per call: the result and `readable ++ undelivered`; calls that ended in a reader fault (error / panic) are erased, because
  -- C06 only demands that the fault-free results and the stream partition are those of the error-free run
  let proj (cs : List String) : List String := cs.filterMap fun c =>
    match call? c with
    | some o => if isReaderFault o.res then none else some s!"{o.res}|{hex (o.rd ++ s.data.drop o.pos)}"
    | none => some c
  let faultKinds (cs : List String) : List String := cs.filterMap fun c =>
    match call? c with
    | some o => if isReaderFault o.res then some o.res else none
    | none => none
  let segCounts (l : List String) := (segments l).map List.length
  let contractDf := dfs.all fun d => (pdf? d).isSome
  -- the scripted reader is positional (one action per call): when the implementation's reader-call sequence is not
  -- the model's (a needless or missing call is C12's business and reported as UNSAT C12 below; a different but
  -- permitted destination length is nobody's) every later action lands on a different call than in the model, so
  -- the C02 / C06 projections are not comparable with the model's; the properties' own predicates (`satStream`,
  -- `satOwn`, fault kinds) are evaluated on the implementation's observations in every case
  let rd0 := b0.readable
  let c12ok := satC12 n fs s.data rd0 icalls ilog
  if mlog == ilog && (proj mcalls != proj icallsS || faultKinds mcalls != faultKinds icallsS) then
    v := (if faults || !contractDf then "DIFF C06" else "DIFF C02") :: v
  if !satOwn s.data icalls (rd0 ++ s.data) then v := "UNSAT C06" :: v
  -- C12's observables are the truth values of its clauses on the log (raw destination lengths and call
  -- counts are compared as drift only): the model satisfies them by theorem, so a disagreement is exactly
  -- a failure of the predicate on the implementation's own log, reported as UNSAT below
  let _ := segCounts
  match dfs.mapM pdf? with
  | some gs =>
    if !satStreamL n s.data gs icalls (rd0 ++ s.data) then v := (if faults then "UNSAT C06" else "UNSAT C02") :: v
    -- every reader fault comes back with the kind the reader produced, in order
    let scripted := s.racts.filterMap fun a => match a with | .err k => some s!"err{k}" | .panic => some "panic" | _ => none
    let seen := faultKinds icallsS
    if faults && !faultsOk seen scripted then v := "UNSAT C06" :: v
  | none =>
    -- rejecting deframers: own errors repeat and leave the unread bytes intact (compared against the model only)
    pure ()
  if !c12ok then v := "UNSAT C12" :: v
  if !faults && icallsS.any (fun c => c.startsWith "panic") then v := "UNSAT C04" :: v
  if allocs != 0 then v := "UNSAT C18" :: v
  return (v, icalls.length > 2)

end FBV.DrvRF

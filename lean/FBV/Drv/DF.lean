/- C05 tie: deframer outputs, exact equality with the model -/
import FBV.Drv.Wire
namespace FBV.DrvDF
open FBV FBV.Wire

def showRes : Except Unit (Option (Nat × Nat × Nat)) → String
  | .error _ => "err"
  | .ok none => "none"
  | .ok (some (s, e, n)) => s!"some {s} {e} {n}"

/-- `DF <name> <hex> | <result…> <allocs>` -/
def check (pre : List String) (post : List String) : Option (List String × Bool) := do
  let (f, d) ← match pre with
    | [f, d] => do pure ((← dfId? f), (← unhex? d))
    | _ => none
  let allocs ← post.getLast?.bind String.toNat?
  let impl := " ".intercalate post.dropLast
  let model := showRes (dfOf f d)
  let mut v : List String := []
  let provided := f == .line || f == .crlf || f == .null
  if impl != model then
    v := "DRIFT" :: v
    if provided then v := "DIFF C05" :: "UNSAT C05" :: v
  if provided && (impl == "panic" || impl == "err") && !v.contains "UNSAT C05" then v := "UNSAT C05" :: v
  if allocs != 0 && impl != "err" && impl != "panic" then v := "UNSAT C18" :: v
  return (v, model != "none")

end FBV.DrvDF

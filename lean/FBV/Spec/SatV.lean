/-
  The `std::io::Read` / `std::io::Write` trait surface beyond `read` / `write`: the vectored calls.  The model is the
  trait's DEFAULT implementation (`write` / `read` of the first non-empty slice), which is what the crate uses as long
  as it does not override them; the property predicates say what C01 / C03 / C04 demand of ANY implementation of
  these methods (also of a gathering / scattering override): the accepted bytes are a prefix of the concatenation made
  of whole slices, a refused call changes nothing, a read hands out the next unread bytes in order across the slices.
-/
import FBV.Spec.SatT1
namespace FBV

def firstNE (l : List (List Byte)) : List Byte := (l.find? (fun s => !s.isEmpty)).getD []
def firstNELen (l : List Nat) : Nat := (l.find? (fun k => k != 0)).getD 0

/-- `Write::write_vectored`, default implementation -/
def stepWV (oc : Bool) (b : Buf) (slices : List (List Byte)) : Buf × Out := step oc b (.ioWrite (firstNE slices))
/-- `Read::read_vectored`, default implementation -/
def stepRV (oc : Bool) (b : Buf) (lens : List Nat) : Buf × Out := step oc b (.ioRead (firstNELen lens))

/-- lengths of the prefixes of the concatenation that consist of whole slices -/
def prefixSums : List (List Byte) → List Nat
  | [] => [0]
  | s :: rest => 0 :: (prefixSums rest).map (· + s.length)

def validObs (b : Buf) (post : Obs) : Bool :=
  decide (post.ri ≤ post.wi) && decide (post.wi ≤ b.mem.length) && (post.mem.length == b.mem.length) &&
  (post.rd.length == post.wi - post.ri) && (post.empty == (post.wi == post.ri))

/-- C01 / C03 / C04 for one `write_vectored(slices)` -/
def Sat_WV (b : Buf) (slices : List (List Byte)) (out : Out) (post : Obs) : Bool :=
  let total := slices.flatten
  validObs b post &&
  match out.cls, out.nums with
  | .ok, [n] =>
    (prefixSums slices).contains n && decide (n ≤ b.free) && (total.isEmpty || decide (0 < n) ) &&
    post.rd == b.readable ++ total.take n && post.free + n == b.free
  | .err k, _ => k == EK_InvalidData && post.rd == b.readable && post.free == b.free && decide (b.free < total.length)
  | _, _ => false

/-- C01 / C03 / C04 for one `read_vectored` into destinations of the given lengths; `dests` are their contents afterwards -/
def Sat_RV (b : Buf) (lens : List Nat) (dests : List (List Byte)) (out : Out) (post : Obs) : Bool :=
  let total := lens.foldl (· + ·) 0
  validObs b post &&
  match out.cls, out.nums with
  | .ok, [n] =>
    decide (min (firstNELen lens) b.len ≤ n) && decide (n ≤ min total b.len) &&
    (dests.flatten).take n == b.readable.take n && post.rd == b.readable.drop n &&
    dests.map List.length == lens && decide (b.free ≤ post.free)
  | _, _ => false

/-- the destinations after the default `read_vectored`: the first non-empty one holds the bytes `read` produced, the
    others are untouched (`DEST_FILL`) -/
def destsOf : List Nat → List Byte → List (List Byte)
  | [], _ => []
  | k :: rest, bytes => if k = 0 then [] :: destsOf rest bytes else bytes :: rest.map (fun j => List.replicate j DEST_FILL)

/-! ### the provided methods `write_all`, `write_fmt`, `read_exact` (trait defaults over `write` / `read`) -/

/-- `Write::write_all(data)`, default implementation, on a writer whose `write` is all-or-nothing: no call for empty
    data, otherwise one `write` -/
def stepWA (oc : Bool) (b : Buf) (d : List Byte) : Buf × Out :=
  if d = [] then (b, { cls := .ok }) else
  match step oc b (.ioWrite d) with
  | (b', o) => (b', { cls := o.cls })

/-- `Write::write_fmt` with these string pieces (literal parts and formatted arguments in order): the default
    implementation `write_all`s each piece in turn and stops at the first failure, whose error it returns -/
def stepWF (oc : Bool) : Buf → List (List Byte) → Buf × Out
  | b, [] => (b, { cls := .ok })
  | b, p :: ps =>
    match stepWA oc b p with
    | (b', o) => if o.cls == .ok then stepWF oc b' ps else (b', { cls := o.cls })

/-- C01 / C03 / C04 for `write_fmt(pieces)` (also `write_all`, with one piece): on success everything was appended in
    order; on failure some whole leading pieces were (possibly none) and the whole did not fit; the error is the
    buffer's own InvalidData; nothing else changes -/
def Sat_WF (b : Buf) (pieces : List (List Byte)) (out : Out) (post : Obs) : Bool :=
  let total := pieces.flatten
  validObs b post &&
  match out.cls with
  | .ok => post.rd == b.readable ++ total && post.free + total.length == b.free
  | .err k =>
    k == EK_InvalidData && decide (b.free < total.length) &&
    (List.range (pieces.length + 1)).any fun j =>
      post.rd == b.readable ++ (pieces.take j).flatten && post.free + (pieces.take j).flatten.length == b.free
  | _ => false

/-- `Read::read_exact` into a destination of length `d`, default implementation over `FixedBuf`'s `read` -/
def stepRE (oc : Bool) (b : Buf) (d : Nat) : Buf × Out :=
  match step oc b (.ioRead d) with
  | (b', o) => if d ≤ b.len then (b', o) else (b', { o with cls := .err EK_UnexpectedEof })

/-- C01 / C03 / C04 for `read_exact`: success iff enough is unread, then exactly the next `d` bytes are handed out;
    otherwise UnexpectedEof, and what is still unread is a suffix of what was -/
def Sat_RE (b : Buf) (d : Nat) (dest : List Byte) (out : Out) (post : Obs) : Bool :=
  validObs b post && decide (b.free ≤ post.free) && (dest.length == d) &&
  match out.cls with
  | .ok => decide (d ≤ b.len) && dest == b.readable.take d && post.rd == b.readable.drop d
  | .err k => k == EK_UnexpectedEof && decide (b.len < d) && post.rd.isSuffixOf b.readable &&
      dest.take (b.len - post.rd.length) == b.readable.take (b.len - post.rd.length)
  | _ => false

/-- `Read::read_to_end`, default implementation over `FixedBuf`'s `read`: every unread byte is handed out (appended to the
    caller's vector), the buffer is drained -/
def stepRTE (oc : Bool) (b : Buf) : Buf × Out :=
  match step oc b .readAll with
  | (b', o) => (b', { o with nums := [b.len] })

/-- C01 / C03 / C04 for `read_to_end`: all unread bytes in order, and — the buffer being drained — every byte of
    capacity is writable again -/
def Sat_RTE (b : Buf) (got : List Byte) (out : Out) (post : Obs) : Bool :=
  validObs b post &&
  match out.cls, out.nums with
  | .ok, [n] => n == b.len && got == b.readable && post.rd.isEmpty && post.free == b.mem.length
  | _, _ => false

end FBV

/- the documented deframer contract, made precise -/
import FBV.Model.Prim
namespace FBV

/-- a deframer that never rejects: `none` = incomplete, `some (start, end, block_len)` -/
abbrev PDeframer := List Byte → Option (Nat × Nat × Nat)

/-- The documented contract: the reported ranges lie inside the data, a complete frame is non-empty
    as a block, and the answer depends only on the block it reports (so appending bytes after a
    complete frame never changes it). -/
structure DeframerOK (f : PDeframer) : Prop where
  bounds : ∀ d s e n, f d = some (s, e, n) → s ≤ e ∧ e ≤ n ∧ 0 < n ∧ n ≤ d.length
  prefixDet : ∀ d d' s e n, f d = some (s, e, n) → d'.take n = d.take n → f d' = some (s, e, n)

end FBV

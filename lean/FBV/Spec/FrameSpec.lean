/- what `read_frame` must return, as a pure function of capacity, deframer and the pending stream -/
import FBV.Model.ReadFrame
import FBV.Spec.DeframerOK
namespace FBV

/-- the next result for pending stream `t` (unread buffer bytes followed by everything the reader has
    not delivered yet) and what is pending afterwards.  No chunking appears here. -/
def specNext (size : Nat) (g : PDeframer) (t : List Byte) : Res × List Byte :=
  match g t with
  | some (s, e, n) => if n ≤ size then (.frame ((t.take e).drop s), t.drop n) else (.invalid, t)
  | none => if size ≤ t.length then (.invalid, t) else if t = [] then (.eofNone, t) else (.ueof, t)

/-- all results of repeated calls until a terminal one -/
def specAll (size : Nat) (g : PDeframer) : Nat → List Byte → List Res
  | 0, _ => []
  | fuel + 1, t =>
    match specNext size g t with
    | (.frame p, t') => .frame p :: specAll size g fuel t'
    | (r, _) => [r]

/-- lift a never-rejecting deframer to the `Deframer` type the loop takes -/
def liftDf (g : PDeframer) : Deframer := fun d => .ok (g d)

/-- the state in which a pending future is suspended: compacted, nothing complete buffered, room left -/
def AtAwait (g : PDeframer) (b : AB) : Prop := b.ri = 0 ∧ (b.q = [] ∨ g b.q = none) ∧ b.free ≠ 0

end FBV

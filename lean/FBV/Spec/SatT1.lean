/-
  Executable statements of the buffer-core properties over ONE observed call:
  `Sat_Cxx pre op out post`.  `pre` is the state the call started from, `out` /
  `post` what was observed afterwards.  The same predicates are
  (i) proved of the model for every state and every call (`FBV/Props/Cxx.lean`), and
  (ii) evaluated by the driver on the IMPLEMENTATION's transitions.
-/
import FBV.Model.Step
namespace FBV

/-- what a call did to the unread byte sequence, as far as the call's own result says -/
inductive Eff where
  | delivered (d : List Byte)     -- handed `d` to the caller
  | accepted (w : List Byte)      -- accepted `w`
  | consumed (n : Nat)            -- consumed the first `n` unread bytes (a deframed block)
  | cleared
  | neutral
  | suffix                        -- consumed some prefix (closure-driven reads)

def effOf (b : Buf) (op : Op) (out : Out) (post : Obs) : Eff :=
  match op, out.cls with
  | .writeBytes d, .ok => .accepted d
  | .writeStr d, .ok => .accepted d
  | .ioWrite d, .ok => .accepted d
  | .pokeWrote _ n, .ok => .accepted ((post.mem.take (b.wi + n)).drop b.wi)
  | .copyOnce (.data bytes _), .ok => .accepted (bytes.take (out.nums.headD 0))
  | .readBytes _, .ok => .delivered out.bytes
  | .tryReadBytes _, .some => .delivered out.bytes
  | .readByte, .ok => .delivered out.bytes
  | .tryReadByte, .some => .delivered out.bytes
  | .readAll, .ok => .delivered out.bytes
  | .readAndCopy _, .ok => .delivered (out.bytes.take (out.nums.headD 0))
  | .ioRead _, .ok => .delivered (out.bytes.take (out.nums.headD 0))
  | .tryReadExact _, .some => .delivered out.bytes
  | .deframe _, .some => .consumed (out.nums.getD 2 0)
  | .clear, _ => .cleared
  | .tryParse _ _, .some => .suffix
  | .tryParse _ _, .panic => .suffix
  | _, _ => .neutral

/-- C01 for one call: the unread bytes change exactly by what the call handed out / accepted,
    and `len()` / `is_empty()` describe the unread remainder -/
def Sat_C01 (b : Buf) (op : Op) (out : Out) (post : Obs) : Bool :=
  let r := b.readable
  let r' := post.rd
  decide (post.ri ≤ post.wi) && (post.wi - post.ri == r'.length) && (post.empty == r'.isEmpty) &&
  match effOf b op out post with
  | .delivered d => r == d ++ r'
  | .accepted w => r' == r ++ w
  | .consumed n => decide (n ≤ r.length) && r' == r.drop n
  | .cleared => r' == []
  | .neutral => r' == r
  | .suffix => decide (r'.length ≤ r.length) && r' == r.drop (r.length - r'.length)

def Obs.len (o : Obs) : Nat := o.wi - o.ri
def Obs.free (o : Obs) : Nat := o.mem.length - o.wi

def sameIdx (b : Buf) (post : Obs) : Bool := post.ri == b.ri && post.wi == b.wi
def sameAll (b : Buf) (post : Obs) : Bool := post.ri == b.ri && post.wi == b.wi && post.mem == b.mem

/-- a write of `n` bytes: succeeds iff it fits, then shrinks the free space by exactly `n`; refused ⇒ nothing changes -/
def satWrite (b : Buf) (n : Nat) (okCls : Bool) (refusedCls : Bool) (post : Obs) : Bool :=
  if n ≤ b.free then okCls && post.free + n == b.free && post.len == b.len + n
  else refusedCls && sameAll b post

/-- C03 for one call: the call-specific clause -/
def C03branch (b : Buf) (op : Op) (out : Out) (post : Obs) : Bool :=
  let N := b.mem.length
  match op with
  | .writeBytes d => satWrite b d.length (out.cls == .ok && out.nums == [d.length]) (out.cls == .refused) post
  | .writeStr d => satWrite b d.length (out.cls == .ok) (out.cls == .refused) post
  | .ioWrite d => satWrite b d.length (out.cls == .ok && out.nums == [d.length]) (out.cls == .err EK_InvalidData) post
  | .pokeWrote _ n =>
    if n ≤ b.free then out.cls == .ok && post.free + n == b.free && post.len == b.len + n
    else out.cls == .panic && sameIdx b post
  | .copyOnce resp =>
    if 0 < b.free then
      match resp with
      | .data bytes _ =>
        let k := min bytes.length b.free
        out.cls == .ok && out.nums == [k] && post.free + k == b.free && post.len == b.len + k
      | .err kind => out.cls == .err kind && sameIdx b post
      | .panic => out.cls == .panic && sameIdx b post
    else
      -- completely full: refused; when the only free space is in front of the unread bytes the
      -- documentation leaves open whether the call refuses (today) or compacts first
      (out.cls == .err EK_InvalidData && sameAll b post) ||
      (decide (0 < b.ri) && match resp with
        | .data bytes _ =>
          let k := min bytes.length (N - b.len)
          out.cls == .ok && out.nums == [k] && post.len == b.len + k && post.free + post.len == N
        | .err kind => out.cls == .err kind && post.len == b.len
        | .panic => out.cls == .panic && post.len == b.len)
  | .shift => post.len == b.len && post.free + post.len == N
  | .clear => post.len == 0 && post.free == N
  | .ioFlush => sameAll b post
  | _ =>
    -- reads, deframe, try_parse: never reduce the free space; draining reclaims everything
    decide (b.free ≤ post.free) && decide (post.len ≤ b.len) &&
    (if 0 < b.len ∧ post.len = 0 then post.free == N else true)

/-- C03 for one call -/
def Sat_C03 (b : Buf) (op : Op) (out : Out) (post : Obs) : Bool :=
  (decide (post.ri ≤ post.wi) && decide (post.wi ≤ b.mem.length) && (post.mem.length == b.mem.length)) &&
  C03branch b op out post

/-- does the closure script itself violate the contract of `read_byte` / `read_bytes`
    (ask for more than is unread)?  Such closures are outside C04 / C11. -/
def scriptPanics (b : Buf) (ops : List RdOp) : Bool := (tryParse true ops true b).2.isPanic

/-- C04 for one call: panics exactly where documented, in either profile, without side effects -/
def Sat_C04 (b : Buf) (op : Op) (out : Out) (post : Obs) : Bool :=
  let unchanged := sameIdx b post && post.rd == b.readable
  let panicked := out.cls == .panic
  match op with
  | .readByte => if b.len < 1 then panicked && unchanged else !panicked
  | .readBytes n => if b.len < n then panicked && unchanged else !panicked
  | .pokeWrote _ n => if b.free < n then panicked && unchanged else !panicked
  | .copyOnce .panic =>
    -- the reader is the caller's code: when it panics the unread bytes are intact and the buffer stays usable (the
    -- indices may have moved if the method compacted before calling the reader, which C12 leaves open when the
    -- free space is only in front of the unread bytes); a completely full buffer never reaches the reader
    let intact := post.rd == b.readable && post.len == b.len && decide (post.ri ≤ post.wi) && decide (post.wi ≤ b.mem.length)
    if 0 < b.free then panicked && intact else (!panicked || (intact && decide (0 < b.ri)))
  | .tryParse ops _ => if scriptPanics b ops then true else !panicked
  | _ => !panicked

/-- C10 for one `deframe(f)` call -/
def Sat_C10 (b : Buf) (op : Op) (out : Out) (post : Obs) : Bool :=
  match op with
  | .deframe f =>
    let r := b.readable
    if r.isEmpty then out.cls == .none && sameAll b post
    else match dfOf f r with
      | .error _ => out.cls == .err EK_InvalidData && sameAll b post
      | .ok none => out.cls == .none && sameAll b post
      | .ok (some (s, e, n)) =>
        out.cls == .some && out.nums == [b.ri + s, b.ri + e, n] && post.mem == b.mem &&
        post.rd == r.drop n && out.bytes == (r.take e).drop s &&
        out.bytes == (post.mem.take (b.ri + e)).drop (b.ri + s)
  | _ => true

/-- bytes a read script consumes from a buffer holding `len` unread bytes (only meaningful when it does not panic) -/
def rdOpsSize : List RdOp → Nat
  | [] => 0
  | .tryParse ops _ :: rest => 2 + rdOpsSize ops + rdOpsSize rest
  | _ :: rest => 1 + rdOpsSize rest

def scriptConsumed (len : Nat) : List RdOp → Nat
  | [] => 0
  | .readByte :: rest => 1 + scriptConsumed (len - 1) rest
  | .tryReadByte :: rest => (if 0 < len then 1 else 0) + scriptConsumed (len - (if 0 < len then 1 else 0)) rest
  | .readBytes n :: rest => n + scriptConsumed (len - n) rest
  | .tryReadBytes n :: rest => (if n ≤ len then n else 0) + scriptConsumed (len - (if n ≤ len then n else 0)) rest
  | .readAndCopy d :: rest => min d len + scriptConsumed (len - min d len) rest
  | .tryReadExact d :: rest => (if d ≤ len then d else 0) + scriptConsumed (len - (if d ≤ len then d else 0)) rest
  | .readAll :: rest => len + scriptConsumed 0 rest
  | .tryParse ops sm :: rest =>
    let k := if sm then scriptConsumed len ops else 0
    k + scriptConsumed (len - k) rest
termination_by l => rdOpsSize l
decreasing_by all_goals (simp [rdOpsSize] <;> omega)

/-- C11 for one `try_parse` call -/
def Sat_C11 (b : Buf) (op : Op) (out : Out) (post : Obs) : Bool :=
  match op with
  | .tryParse ops sm =>
    if scriptPanics b ops then true
    else if sm then
      out.cls == .some && post.rd == b.readable.drop (scriptConsumed b.len ops) &&
      post.len + scriptConsumed b.len ops == b.len
    else out.cls == .none && sameAll b post && post.rd == b.readable
  | _ => true

end FBV

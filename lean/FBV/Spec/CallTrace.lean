/-
  The reader calls made by one call of the `read_frame` loop, with the unread bytes the buffer held
  when each was made, the destination length offered and the reader's answer — and the discipline
  C12 demands of them.
-/
import FBV.Model.ReadFrame
namespace FBV

structure RdCall where
  /-- unread bytes in the buffer when the reader was called -/
  q : List Byte
  /-- destination length offered -/
  d : Nat
  resp : Resp
deriving Repr, DecidableEq

def traceAwait (k : AB → ARd → List RdCall) (b1 : AB) (r : ARd) : List RdCall :=
  match r.read b1.free with
  | (.pending, _) => [⟨b1.q, b1.free, .pending⟩]
  | (.err e, _) => [⟨b1.q, b1.free, .err e⟩]
  | (.data c, r') => ⟨b1.q, b1.free, .data c⟩ :: (if c = [] then [] else k (b1.append c) r')

/-- same recursion as `pollLoop`, collecting the reader calls -/
def pollTrace (f : Deframer) : Nat → AB → ARd → List RdCall
  | 0, _, _ => []
  | fuel + 1, b, r =>
    match (if b.q = [] then .ok none else f b.q) with
    | .error _ => []
    | .ok (some _) => []
    | .ok none =>
      let b1 := b.shift
      if b1.free = 0 then [] else traceAwait (pollTrace f fuel) b1 r

/-- C12's clauses on a call trace: each call is made only while the buffered bytes hold neither a complete
    frame nor data the deframer rejects; the destination is non-empty and fits the free space; at most the
    offered length comes back; after an empty read, an error or `Pending` no further call is made; the next
    call sees exactly the previous bytes plus what the reader reported -/
def Disciplined (f : Deframer) (size : Nat) : List RdCall → Prop
  | [] => True
  | x :: rest =>
    (if x.q = [] then (Except.ok none : Except Unit _) else f x.q) = .ok none ∧ 0 < x.d ∧ x.q.length + x.d ≤ size ∧
    (match x.resp with
     | .data c => c.length ≤ x.d ∧ (match rest with | [] => True | y :: _ => c ≠ [] ∧ y.q = x.q ++ c)
     | _ => rest = []) ∧
    Disciplined f size rest

end FBV

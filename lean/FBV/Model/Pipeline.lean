/-
  The documented request loop (fixed-buffer/tests/server.rs, fixed-buffer-tokio/tests/server.rs), abstract level:
    read_frame → header;  n := lenOf header;  ReadWriteTake(n) over ReadWriteChain(buffer, stream) drained by the caller;
    response written through the adapter;  repeat.
  The buffer is `AB`, the stream a well-behaved scripted reader (`ARd` with chunk actions).
-/
import FBV.Spec.FrameSpec
namespace FBV

/-- the stream as a blocking reader (chunk scripts only produce data) -/
def ARd.readData (r : ARd) (d : Nat) : List Byte × ARd :=
  match r.read d with
  | (.data c, r') => (c, r')
  | (_, r') => ([], r')

/-- `impl Read for FixedBuf` at the abstract level: `read_and_copy_bytes` -/
def AB.read (b : AB) (d : Nat) : List Byte × AB :=
  let n := min d b.q.length
  if n = 0 then ([], b) else (b.q.take n, b.consume n)

/-- ReadWriteChain(first = the buffer, second = the stream), after the C08 repair -/
structure PChain where
  done : Bool
  b : AB
  r : ARd

def PChain.read (c : PChain) (d : Nat) : List Byte × PChain :=
  if c.done then
    let (x, r') := c.r.readData d
    (x, { c with r := r' })
  else
    let (x, b') := AB.read c.b d
    if x = [] ∧ d ≠ 0 then
      let (y, r') := c.r.readData d
      (y, { done := true, b := b', r := r' })
    else (x, { c with b := b' })

/-- ReadWriteTake over the chain -/
structure PTake where
  remaining : Nat
  c : PChain

def PTake.read (t : PTake) (d : Nat) : List Byte × PTake :=
  if t.remaining = 0 then ([], t) else
  let k := min t.remaining d
  let (x, c') := t.c.read k
  (x, { remaining := t.remaining - x.length, c := c' })

/-- the caller's drain loop (`io::copy`-style): destination sizes `k+1` from the schedule, stop at `Ok(0)` -/
def drain : Nat → PTake → List Nat → List Byte × PTake
  | 0, t, _ => ([], t)
  | fuel + 1, t, ds =>
    let d := (ds.head?.getD 0) + 1
    let (x, t') := t.read d
    if x = [] then ([], t') else
      let (rest, t'') := drain fuel t' ds.tail
      (x ++ rest, t'')

/-- what is still to come on the connection: unread buffer bytes, then undelivered stream bytes -/
def PChain.pending (c : PChain) : List Byte := c.b.q ++ c.r.rem

/-- the request loop: headers and payloads obtained, and the terminal result of the last read_frame -/
def serve (g : PDeframer) (lenOf : List Byte → Nat) : Nat → AB → ARd → List Nat → List (List Byte × List Byte) × Res
  | 0, _, _, _ => ([], .fuelOut)
  | fuel + 1, b, r, ds =>
    match pollLoop (liftDf g) (r.rem.length + 1) b r with
    | (b', r', .frame h) =>
      let n := lenOf h
      let (p, t') := drain (min n (b'.q.length + r'.rem.length) + 1) { remaining := n, c := { done := false, b := b', r := r' } } ds
      let (rest, term) := serve g lenOf fuel t'.c.b t'.c.r ds
      ((h, p) :: rest, term)
    | (_, _, res) => ([], res)


/-- the drain loop with an ARBITRARY destination schedule: zero-length destinations are allowed (such a read returns
    `Ok(0)` without meaning end-of-stream, so the caller goes on); after the schedule is used up, 1-byte destinations -/
def drainZ : Nat → PTake → List Nat → List Byte × PTake
  | 0, t, _ => ([], t)
  | fuel + 1, t, ds =>
    let d := ds.head?.getD 1
    let (x, t') := t.read d
    if d = 0 then drainZ fuel t' ds.tail
    else if x = [] then ([], t') else
      let (rest, t'') := drainZ fuel t' ds.tail
      (x ++ rest, t'')

def zeros (ds : List Nat) : Nat := ds.count 0

/-- the request loop with arbitrary destination schedules (one per request) -/
def serveZ (g : PDeframer) (lenOf : List Byte → Nat) : Nat → AB → ARd → List Nat → List (List Byte × List Byte) × Res
  | 0, _, _, _ => ([], .fuelOut)
  | fuel + 1, b, r, ds =>
    match pollLoop (liftDf g) (r.rem.length + 1) b r with
    | (b', r', .frame h) =>
      let n := lenOf h
      let (p, t') := drainZ (zeros ds + min n (b'.q.length + r'.rem.length) + 1) { remaining := n, c := { done := false, b := b', r := r' } } ds
      let (rest, term) := serveZ g lenOf fuel t'.c.b t'.c.r ds
      ((h, p) :: rest, term)
    | (_, _, res) => ([], res)

/-- the write side of the transport as the log of byte strings written to it.  `ReadWriteChain::write` /
    `ReadWriteTake::write` forward to the wrapped stream unchanged and touch neither `first`, the switch-over flag
    nor the allowance (C13); `write_all` of a response is therefore one entry of the log and leaves the chain as it is -/
def PChain.writeAll (c : PChain) (w : List (List Byte)) (x : List Byte) : PChain × List (List Byte) := (c, w ++ [x])

/-- the request loop of tests/server.rs INCLUDING the response: after the payload has been drained, `resp header payload`
    is written through the adapter; returns what `serveZ` returns and the transport's write log -/
def serveW (g : PDeframer) (lenOf : List Byte → Nat) (resp : List Byte → List Byte → List Byte) :
    Nat → AB → ARd → List Nat → List (List Byte) → (List (List Byte × List Byte) × Res) × List (List Byte)
  | 0, _, _, _, w => (([], .fuelOut), w)
  | fuel + 1, b, r, ds, w =>
    match pollLoop (liftDf g) (r.rem.length + 1) b r with
    | (b', r', .frame h) =>
      let n := lenOf h
      let (p, t') := drainZ (zeros ds + min n (b'.q.length + r'.rem.length) + 1) { remaining := n, c := { done := false, b := b', r := r' } } ds
      let (c'', w') := t'.c.writeAll w (resp h p)
      let (out, w'') := serveW g lenOf resp fuel c''.b c''.r ds w'
      (((h, p) :: out.1, out.2), w'')
    | (_, _, res) => (([], res), w)

/-- the specification: consecutive segments of the connection's byte stream -/
def parseConn (size : Nat) (g : PDeframer) (lenOf : List Byte → Nat) : Nat → List Byte → List (List Byte × List Byte) × Res
  | 0, _ => ([], .fuelOut)
  | fuel + 1, t =>
    match specNext size g t with
    | (.frame h, t') =>
      let (rest, term) := parseConn size g lenOf fuel (t'.drop (lenOf h))
      ((h, t'.take (lenOf h)) :: rest, term)
    | (res, _) => ([], res)

end FBV

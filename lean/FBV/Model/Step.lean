/-
  One public-API call as data (`Op`), its observable result (`Out`), and `step`:
  the transition function of the concrete model.  The T1 correspondence runs
  `step` from the implementation's observed state on every explored call.
-/
import FBV.Model.Buf
import FBV.Model.Deframe
namespace FBV

inductive Op where
  | writeBytes (d : List Byte)
  | writeStr (d : List Byte)
  | ioWrite (d : List Byte)
  | ioFlush
  | pokeWrote (d : List Byte) (n : Nat)   -- `writable()[..k].copy_from_slice(d[..k])` with `k = min |d| |writable|`, then `wrote(n)`
  | copyOnce (resp : RdResp)
  | readBytes (n : Nat)
  | tryReadBytes (n : Nat)
  | readByte
  | tryReadByte
  | readAll
  | readAndCopy (d : Nat)                 -- destination of length `d`, pre-filled with 0xEE
  | tryReadExact (d : Nat)
  | ioRead (d : Nat)
  | shift
  | clear
  | deframe (f : DfId)
  | tryParse (ops : List RdOp) (sm : Bool)
deriving Repr

/-- result class of a call -/
inductive Cls where
  | ok | none | some | refused | err (kind : ErrKind) | panic
deriving Repr, DecidableEq

/-- observable result of a call, in one generic shape:
    class, returned / destination bytes, returned numbers, destination lengths seen by the reader -/
structure Out where
  cls : Cls
  bytes : List Byte := []
  nums : List Nat := []
  log : List Nat := []
deriving Repr, DecidableEq

def DEST_FILL : Byte := 0xEE

def outOf {α} (o : Outcome α) (f : α → Out) : Out :=
  match o with
  | .ok a => f a
  | .panic => { cls := .panic }

/-- the transition function -/
def step (oc : Bool) (b : Buf) : Op → Buf × Out
  | .writeBytes d =>
    let (b', o) := writeBytes oc d b
    (b', outOf o fun r => match r with | some n => { cls := .ok, nums := [n] } | none => { cls := .refused })
  | .writeStr d =>
    let (b', o) := writeBytes oc d b
    (b', outOf o fun r => match r with | some _ => { cls := .ok } | none => { cls := .refused })
  | .ioWrite d =>
    let (b', o) := writeBytes oc d b
    (b', outOf o fun r => match r with | some n => { cls := .ok, nums := [n] } | none => { cls := .err EK_InvalidData })
  | .ioFlush => (b, { cls := .ok })
  | .pokeWrote d n =>
    let k := min d.length (b.mem.length - b.wi)
    let (b1, o1) := poke (d.take k) b
    match o1 with
    | .panic => (b1, { cls := .panic })
    | .ok _ => let (b', o) := wrote oc n b1; (b', outOf o fun _ => { cls := .ok })
  | .copyOnce resp =>
    let (b', o) := copyOnceFrom oc resp b
    (b', outOf o fun (r, log) => match r with
      | .ok n => { cls := .ok, nums := [n], log := log }
      | .error k => { cls := .err k, log := log })
  | .readBytes n => let (b', o) := readBytes oc n b; (b', outOf o fun s => { cls := .ok, bytes := s })
  | .tryReadBytes n =>
    let (b', o) := tryReadBytes oc n b
    (b', outOf o fun r => match r with | some s => { cls := .some, bytes := s } | none => { cls := .none })
  | .readByte => let (b', o) := readByte oc b; (b', outOf o fun x => { cls := .ok, bytes := [x] })
  | .tryReadByte =>
    let (b', o) := tryReadByte oc b
    (b', outOf o fun r => match r with | some x => { cls := .some, bytes := [x] } | none => { cls := .none })
  | .readAll => let (b', o) := readAll oc b; (b', outOf o fun s => { cls := .ok, bytes := s })
  | .readAndCopy d =>
    let (b', o) := readAndCopy oc (List.replicate d DEST_FILL) b
    (b', outOf o fun (n, dest) => { cls := .ok, bytes := dest, nums := [n] })
  | .tryReadExact d =>
    let dest := List.replicate d DEST_FILL
    let (b', o) := tryReadExact oc dest b
    (b', outOf o fun r => match r with | some dd => { cls := .some, bytes := dd } | none => { cls := .none, bytes := dest })
  | .ioRead d =>
    let (b', o) := readAndCopy oc (List.replicate d DEST_FILL) b
    (b', outOf o fun (n, dest) => { cls := .ok, bytes := dest, nums := [n] })
  | .shift => let (b', o) := shiftM oc b; (b', outOf o fun _ => { cls := .ok })
  | .clear => let (b', o) := clearM b; (b', outOf o fun _ => { cls := .ok })
  | .deframe f =>
    let (b', o) := deframeM oc (dfOf f) b
    match o with
    | .panic => (b', { cls := .panic })
    | .ok (.error _) => (b', { cls := .err EK_InvalidData })
    | .ok (.ok none) => (b', { cls := .none })
    | .ok (.ok (some (ms, me, n))) =>
      -- the harness then reads `mem()[ms..me]`
      (b', outOf (slice b'.mem ms me) fun pl => { cls := .some, bytes := pl, nums := [ms, me, n] })
  | .tryParse ops sm =>
    let (b', o) := tryParse oc ops sm b
    (b', outOf o fun r => if r then { cls := .some } else { cls := .none })

/-- what the harness can see of a buffer through the public API -/
structure Obs where
  mem : List Byte
  ri : Nat                 -- `wi - len()`
  wi : Nat                 -- `SIZE - writable().len()`
  rd : List Byte           -- `readable()`
  empty : Bool             -- `is_empty()`
deriving Repr, DecidableEq

def Buf.obs (b : Buf) : Obs :=
  { mem := b.mem, ri := b.ri, wi := b.wi, rd := b.readable, empty := b.wi == b.ri }

def Obs.buf (o : Obs) : Buf := { mem := o.mem, ri := o.ri, wi := o.wi }

end FBV

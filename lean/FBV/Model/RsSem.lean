/-
  Target language of the translator `tools/rs2lean.py`: the handful of combinators into which the
  translated Rust functions are expressed.  Every partial Rust operation is a checked primitive that
  panics exactly when Rust does (slice indexing, `usize` + and - under the build's overflow-check
  setting `oc`); `&&` / `||` short-circuit; a `for n in lo..hi { … return … }` loop is `forFirst`
  (first iteration whose body returns).  Import-free.
-/
import FBV.Model.Prim
namespace FBV.Rs
open FBV

@[inline] def bind (o : Outcome α) (f : α → Outcome β) : Outcome β :=
  match o with
  | .ok a => f a
  | .panic => .panic

/-- `s[i]` on a slice: panics when out of bounds -/
def idx (s : List Byte) (i : Nat) : Outcome Byte :=
  match s[i]? with
  | some b => .ok b
  | none => .panic

/-- `a && b` — `b` is not evaluated when `a` is false -/
def andM (a : Outcome Bool) (b : Outcome Bool) : Outcome Bool :=
  bind a (fun x => if x then b else .ok false)

/-- `a || b` — `b` is not evaluated when `a` is true -/
def orM (a : Outcome Bool) (b : Outcome Bool) : Outcome Bool :=
  bind a (fun x => if x then .ok true else b)

/-- `if c { t } else { e }` with an effectful condition -/
def iteM (c : Outcome Bool) (t e : Outcome α) : Outcome α :=
  bind c (fun x => if x then t else e)

/-- a statement block either falls through (`none`) or executes `return v` (`some v`) -/
abbrev Flow (ρ : Type) := Outcome (Option ρ)

/-- sequencing of statements: the second runs only if the first fell through -/
def seq (a b : Flow ρ) : Flow ρ :=
  bind a (fun r => match r with | some v => .ok (some v) | none => b)

/-- `for n in lo..hi { body }`: the range is evaluated once; iteration stops at the first `return` or panic -/
def forFirst (lo hi : Nat) (body : Nat → Flow ρ) : Flow ρ :=
  if lo < hi then
    match body lo with
    | .ok none => forFirst (lo + 1) hi body
    | r => r
  else .ok none
termination_by hi - lo

/-- a function body: statements, then the tail expression if nothing returned -/
def fnBody (stmts : Flow ρ) (tail : Outcome ρ) : Outcome ρ :=
  bind stmts (fun r => match r with | some v => .ok v | none => tail)

/-- `Result<Option<(Range<usize>, usize)>, MalformedInputError>` -/
abbrev DfRet := Except Unit (Option (Nat × Nat × Nat))

end FBV.Rs

/-
  Readers and read-writers as the adapters see them.

  * `Reader σ` : an ARBITRARY deterministic `std::io::Read` implementation with state `σ`:
    given the destination slice it is handed, it returns its new state, `Ok(n)`/`Err(kind)` and the
    new contents of that slice.  The adapter theorems quantify over all of these.
  * `SRW` : the scripted read-writer the harness uses (twin of `harness/src/ad.rs`), which is one
    particular `Reader` / writer with a call log.
-/
import FBV.Model.Buf
namespace FBV

deriving instance DecidableEq for Except

/-- result of one `read` call: `Ok(n)` or `Err(kind)` -/
abbrev RdRes := Except ErrKind Nat

abbrev Reader (σ : Type) := σ → List Byte → σ × RdRes × List Byte

/-- the documented contract of `Read::read`: the slice keeps its length and `n ≤ buf.len()` -/
def ReaderOK {σ : Type} (r : Reader σ) : Prop :=
  ∀ s dest, (r s dest).2.2.length = dest.length ∧ (∀ n, (r s dest).2.1 = .ok n → n ≤ dest.length)

/-- `impl Read for FixedBuf`: `Ok(self.read_and_copy_bytes(buf))`; a panic cannot happen under `WInv` (C04) and is
    mapped to `Err 98` so that `Reader` stays a total function (never observed: proved in C08) -/
def bufReader (oc : Bool) : Reader Buf := fun b dest =>
  match readAndCopy oc dest b with
  | (b', .ok (n, d')) => (b', .ok n, d')
  | (b', .panic) => (b', .error 98, dest)

/-! ### the scripted read-writer -/

inductive RAct where
  | data (k : Nat) (scribble : Bool)   -- deliver up to `k` bytes; with `scribble`, first overwrite the whole slice with 0xEE
  | eof                                 -- `Ok(0)` without consuming
  | err (kind : ErrKind)
  | panic                               -- the reader panics (reported to the model as error kind 99)
deriving Repr, DecidableEq

inductive WAct where
  | full | part (k : Nat) | zero | err (kind : ErrKind)
deriving Repr, DecidableEq

/-- one logged call on a scripted read-writer -/
inductive Call where
  | read (id : Nat) (destLen : Nat) (res : RdRes)
  | write (id : Nat) (bytes : List Byte) (res : RdRes)
  | flush (id : Nat) (res : Except ErrKind Unit)
deriving Repr, DecidableEq

structure SRW where
  id : Nat
  data : List Byte
  racts : List RAct
  wacts : List WAct
  facts : List (Option ErrKind)
  written : List Byte := []
deriving Repr, DecidableEq

def SRW.read (s : SRW) (dest : List Byte) : SRW × RdRes × List Byte × Call :=
  let (a, rest) := match s.racts with
    | [] => (RAct.data dest.length false, [])
    | a :: rest => (a, rest)
  match a with
  | .data k scr =>
    let base := if scr then List.replicate dest.length (0xEE : Byte) else dest
    let n := min (min k dest.length) s.data.length
    ({ s with data := s.data.drop n, racts := rest }, .ok n, s.data.take n ++ base.drop n, .read s.id dest.length (.ok n))
  | .eof => ({ s with racts := rest }, .ok 0, dest, .read s.id dest.length (.ok 0))
  | .err k => ({ s with racts := rest }, .error k, dest, .read s.id dest.length (.error k))
  | .panic => ({ s with racts := rest }, .error 99, dest, .read s.id dest.length (.error 99))

def SRW.write (s : SRW) (buf : List Byte) : SRW × RdRes × Call :=
  let (a, rest) := match s.wacts with
    | [] => (WAct.full, [])
    | a :: rest => (a, rest)
  match a with
  | .full => ({ s with wacts := rest, written := s.written ++ buf }, .ok buf.length, .write s.id buf (.ok buf.length))
  | .part k =>
    let n := min k buf.length
    ({ s with wacts := rest, written := s.written ++ buf.take n }, .ok n, .write s.id buf (.ok n))
  | .zero => ({ s with wacts := rest }, .ok 0, .write s.id buf (.ok 0))
  | .err k => ({ s with wacts := rest }, .error k, .write s.id buf (.error k))

def SRW.flush (s : SRW) : SRW × Except ErrKind Unit × Call :=
  match s.facts with
  | [] => (s, .ok (), .flush s.id (.ok ()))
  | none :: rest => ({ s with facts := rest }, .ok (), .flush s.id (.ok ()))
  | some k :: rest => ({ s with facts := rest }, .error k, .flush s.id (.error k))

/-- the scripted read-writer as a `Reader` over (state, log) -/
def srwReader : Reader (SRW × List Call) := fun (s, log) dest =>
  let (s', res, d', c) := s.read dest
  ((s', log ++ [c]), res, d')

end FBV

/-
  escape_ascii.rs: `escape_ascii(input)` pushes, for every input byte, the bytes of
  `core::ascii::escape_default(byte)` through `core::str::from_utf8(&[b]).unwrap()`.
  `esc` is `core::ascii::escape_default` (modelled from its documentation / source and tied
  exhaustively to the real function on every run).
-/
import FBV.Model.Buf
namespace FBV

def hexDigit (n : Nat) : Byte := if n < 10 then (48 + n).toUInt8 else (87 + n).toUInt8

/-- `core::ascii::escape_default` -/
def esc (b : Byte) : List Byte :=
  if b = 9 then [92, 116] else if b = 13 then [92, 114] else if b = 10 then [92, 110]
  else if b = 39 then [92, 39] else if b = 34 then [92, 34] else if b = 92 then [92, 92]
  else if 32 ≤ b ∧ b ≤ 126 then [b]
  else [92, 120, hexDigit (b.toNat / 16), hexDigit (b.toNat % 16)]

/-- the intended result: concatenation of the per-byte escapes -/
def escape (bs : List Byte) : List Byte := bs.flatMap esc

/-- the Rust loop, including the `from_utf8(&[ascii_byte]).unwrap()` which panics on a byte ≥ 0x80 -/
def escapeM : List Byte → Outcome (List Byte)
  | [] => .ok []
  | b :: rest =>
    if (esc b).all (· < 128) then
      match escapeM rest with
      | .ok r => .ok (esc b ++ r)
      | .panic => .panic
    else .panic

def natBytes (n : Nat) : List Byte := (Nat.repr n).toList.map fun c => c.toNat.toUInt8
def strBytes (s : String) : List Byte := s.toList.map fun c => c.toNat.toUInt8

/-- `FixedBuf::escape_ascii(&self)` -/
def Buf.escapeAscii (b : Buf) : List Byte := escape b.readable

/-- `impl Debug`: `FixedBuf<{SIZE}>{{{} writable, {} readable: "{}"}}` with SIZE, SIZE - write_index, len(), escape_ascii() -/
def Buf.debug (b : Buf) : List Byte :=
  strBytes "FixedBuf<" ++ natBytes b.mem.length ++ strBytes ">{" ++ natBytes (b.mem.length - b.wi) ++
  strBytes " writable, " ++ natBytes (b.wi - b.ri) ++ strBytes " readable: \"" ++ b.escapeAscii ++ strBytes "\"}"

/-! a decoder, one byte at a time (used to show that distinct inputs give distinct outputs) -/
def hexVal (c : Byte) : Option Nat :=
  if 48 ≤ c ∧ c ≤ 57 then some (c.toNat - 48) else if 97 ≤ c ∧ c ≤ 102 then some (c.toNat - 87) else none

/-- the byte a two-character escape `\\d` stands for -/
def simpleEsc (d : Byte) : Option Byte :=
  if d = 116 then some 9 else if d = 114 then some 13 else if d = 110 then some 10
  else if d = 39 then some 39 else if d = 34 then some 34 else if d = 92 then some 92
  else none

def decodeEsc (d : Byte) (rest : List Byte) : Option (Byte × List Byte) :=
  if d = 120 then
    match rest with
    | h :: l :: rest3 =>
      match hexVal h, hexVal l with
      | some a, some b => some ((a * 16 + b).toUInt8, rest3)
      | _, _ => none
    | _ => none
  else (simpleEsc d).map fun b => (b, rest)

def decode1 : List Byte → Option (Byte × List Byte)
  | [] => none
  | c :: rest =>
    if c = 92 then
      match rest with
      | [] => none
      | d :: rest2 => decodeEsc d rest2
    else some (c, rest)

def unescape : Nat → List Byte → Option (List Byte)
  | 0, xs => if xs = [] then some [] else none
  | fuel + 1, xs =>
    if xs = [] then some [] else
    match decode1 xs with
    | none => none
    | some (b, r) => (unescape fuel r).map (b :: ·)

end FBV

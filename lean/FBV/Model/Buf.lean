/-
  Concrete model of `FixedBuf<SIZE>` (fixed-buffer/src/lib.rs): the struct is
  `(mem, read_index, write_index)`, every method is a function in the
  state-and-panic monad `M`, written statement by statement after the Rust.
  `SIZE` is `mem.length`.  The state *at the panic* is returned, because the
  panic contract (C04) is about exactly that.
-/
import FBV.Model.Prim
namespace FBV

structure Buf where
  mem : List Byte
  ri : Nat
  wi : Nat
deriving Repr, DecidableEq

abbrev M (α : Type) := Buf → Buf × Outcome α

@[simp] def M.pure (a : α) : M α := fun b => (b, .ok a)
@[simp] def M.bind (x : M α) (f : α → M β) : M β := fun b =>
  match x b with
  | (b', .ok a) => f a b'
  | (b', .panic) => (b', .panic)
instance : Monad M where
  pure := M.pure
  bind := M.bind

@[simp] theorem pure_eq (a : α) : (pure a : M α) = M.pure a := rfl
@[simp] theorem bind_eq (x : M α) (f : α → M β) : (x >>= f) = M.bind x f := rfl

@[simp] def getB : M Buf := fun b => (b, .ok b)
@[simp] def setB (b' : Buf) : M Unit := fun _ => (b', .ok ())
@[simp] def panicM : M α := fun b => (b, .panic)
@[simp] def liftO (o : Outcome α) : M α := fun b => (b, o)

def Buf.size (b : Buf) : Nat := b.mem.length
/-- weak invariant: what every method needs; `SIZE < 2^63` is Rust's object-size limit -/
def Buf.WInv (b : Buf) : Prop := b.ri ≤ b.wi ∧ b.wi ≤ b.mem.length ∧ b.mem.length < 2 ^ 63
/-- strong invariant: additionally, an empty buffer is rewound -/
def Buf.Inv (b : Buf) : Prop := b.WInv ∧ (b.ri = b.wi → b.ri = 0)
def Buf.readable (b : Buf) : List Byte := (b.mem.take b.wi).drop b.ri
def Buf.free (b : Buf) : Nat := b.mem.length - b.wi
def Buf.len (b : Buf) : Nat := b.wi - b.ri

instance (b : Buf) : Decidable b.WInv := by unfold Buf.WInv; exact inferInstance
instance (b : Buf) : Decidable b.Inv := by unfold Buf.Inv; exact inferInstance

/-- constructors -/
def Buf.new (size : Nat) : Buf := { mem := List.replicate size 0, ri := 0, wi := 0 }
def Buf.empty (mem : List Byte) : Buf := { mem := mem, ri := 0, wi := 0 }
def Buf.filled (mem : List Byte) : Buf := { mem := mem, ri := 0, wi := mem.length }

section
variable (oc : Bool)

/-- `pub fn len(&self) -> usize { self.write_index - self.read_index }` -/
def lenM : M Nat := do
  let b ← getB
  liftO (usizeSub oc b.wi b.ri)

/-- `is_empty`: `self.write_index == self.read_index` -/
def isEmptyM : M Bool := do
  let b ← getB
  pure (b.wi == b.ri)

/-- `clear` -/
def clearM : M Unit := do
  let b ← getB
  setB { b with ri := 0 }
  let b ← getB
  setB { b with wi := 0 }

/-- `readable`: `&self.mem[read_index..write_index]` -/
def readableM : M (List Byte) := do
  let b ← getB
  liftO (slice b.mem b.ri b.wi)

/-- `writable`: `&mut self.mem[write_index..]` (its current contents) -/
def writableM : M (List Byte) := do
  let b ← getB
  liftO (slice b.mem b.wi b.mem.length)

/-- `read_bytes` (after the `fix:` for C04: the count is compared with `len()` before any addition) -/
def readBytes (n : Nat) : M (List Byte) := do
  let l ← lenM oc
  if ¬ (n ≤ l) then panicM else
  let b ← getB
  let nri ← liftO (usizeAdd oc b.ri n)
  let old := b.ri
  setB { b with ri := nri }
  let b ← getB
  (if b.ri = b.wi then setB { b with ri := 0, wi := 0 } else pure ())
  let b ← getB
  liftO (slice b.mem old nri)

/-- `wrote` (after the `fix:` for C04: the count is compared with the free space before any addition) -/
def wrote (n : Nat) : M Unit := do
  if n = 0 then pure () else
  let b ← getB
  let room ← liftO (usizeSub oc b.mem.length b.wi)
  if ¬ (n ≤ room) then panicM else
  let nwi ← liftO (usizeAdd oc b.wi n)
  setB { b with wi := nwi }

/-- the caller stores `data` at the front of `writable()` (panics like `writable()[..k]` would) -/
def poke (data : List Byte) : M Unit := do
  let w ← writableM
  if w.length < data.length then panicM else
  let b ← getB
  setB { b with mem := writeAt b.mem b.wi data }

/-- `write_bytes` : `Result<usize, NotEnoughSpaceError>` as `Option Nat` -/
def writeBytes (data : List Byte) : M (Option Nat) := do
  let w ← writableM
  if w.length < data.length then pure none else
  poke data
  wrote oc data.length
  pure (some data.length)

/-- `shift` -/
def shiftM : M Unit := do
  let b ← getB
  if b.ri = 0 then pure () else
  let src ← liftO (slice b.mem b.ri b.wi)           -- copy_within(read_index..write_index, 0)
  setB { b with mem := writeAt b.mem 0 src }
  let b ← getB
  let nwi ← liftO (usizeSub oc b.wi b.ri)
  setB { b with wi := nwi }
  let b ← getB
  setB { b with ri := 0 }

/-- `read_byte` : `self.read_bytes(1)[0]` -/
def readByte : M Byte := do
  let s ← readBytes oc 1
  match s with
  | x :: _ => pure x
  | [] => panicM

def tryReadByte : M (Option Byte) := do
  if (← isEmptyM) then pure none else
  let x ← readByte oc
  pure (some x)

def tryReadBytes (n : Nat) : M (Option (List Byte)) := do
  let l ← lenM oc
  if l < n then pure none else
  let s ← readBytes oc n
  pure (some s)

def readAll : M (List Byte) := do
  let l ← lenM oc
  readBytes oc l

/-- `read_and_copy_bytes(dest)`: returns the count and the new contents of `dest` -/
def readAndCopy (dest : List Byte) : M (Nat × List Byte) := do
  let r ← readableM
  let len := min dest.length r.length
  if len = 0 then pure (0, dest) else
  let src ← liftO (slice r 0 len)
  let dest' := writeAt dest 0 src
  let _ ← readBytes oc len
  pure (len, dest')

def tryReadExact (dest : List Byte) : M (Option (List Byte)) := do
  let l ← lenM oc
  if l < dest.length then pure none else
  let (_, dest') ← readAndCopy oc dest
  pure (some dest')

/-- `deframe` : Ok(Some(range), block_len) | Ok(None) | Err(InvalidData).  The block length is
    not part of the Rust return value; it is kept here because the harness logs what the deframer said. -/
def deframeM (f : Deframer) : M (Except Unit (Option (Nat × Nat × Nat))) := do
  if (← isEmptyM) then pure (.ok none) else
  let r ← readableM
  match f r with
  | .error e => pure (.error e)
  | .ok none => pure (.ok none)
  | .ok (some (s, e, n)) =>
    let b ← getB
    let ms ← liftO (usizeAdd oc b.ri s)
    let me ← liftO (usizeAdd oc b.ri e)
    let _ ← readBytes oc n
    pure (.ok (some (ms, me, n)))

/-- what a scripted reader does with the destination it is handed -/
inductive RdResp where
  /-- copies `min |bytes| |dest|` bytes to the front of `dest` and reports that count;
      with `scribble` it first overwrites all of `dest` with `0xEE` -/
  | data (bytes : List Byte) (scribble : Bool)
  | err (kind : ErrKind)
  | panic
deriving Repr, DecidableEq

/-- `copy_once_from(reader)`: result and the destination lengths the reader saw -/
def copyOnceFrom (resp : RdResp) : M (Except ErrKind Nat × List Nat) := do
  let w ← writableM
  if w.length = 0 then pure (.error EK_InvalidData, []) else
  match resp with
  | .panic => panicM
  | .err k => pure (.error k, [w.length])
  | .data bytes scr =>
    let k := min bytes.length w.length
    let base := if scr then List.replicate w.length (0xEE : Byte) else w
    let dest' := bytes.take k ++ base.drop k
    let b ← getB
    setB { b with mem := writeAt b.mem b.wi dest' }
    wrote oc k
    pure (.ok k, [w.length])

/-- read scripts: what a `try_parse` closure does -/
inductive RdOp where
  | readByte | tryReadByte | readBytes (n : Nat) | tryReadBytes (n : Nat)
  | readAndCopy (d : Nat) | tryReadExact (d : Nat) | readAll
  | tryParse (ops : List RdOp) (some : Bool)
deriving Repr

mutual
def runOp : RdOp → M Unit
  | .readByte => do let _ ← readByte oc; pure ()
  | .tryReadByte => do let _ ← tryReadByte oc; pure ()
  | .readBytes n => do let _ ← readBytes oc n; pure ()
  | .tryReadBytes n => do let _ ← tryReadBytes oc n; pure ()
  | .readAndCopy d => do let _ ← readAndCopy oc (List.replicate d 0); pure ()
  | .tryReadExact d => do let _ ← tryReadExact oc (List.replicate d 0); pure ()
  | .readAll => do let _ ← readAll oc; pure ()
  | .tryParse ops sm => do let _ ← tryParse ops sm; pure ()
def runOps : List RdOp → M Unit
  | [] => pure ()
  | o :: os => do runOp o; runOps os
/-- `try_parse(f)` where `f` runs `ops` and then returns `Some(())` iff `sm` -/
def tryParse (ops : List RdOp) (sm : Bool) : M Bool := do
  let b0 ← getB
  runOps ops
  if sm then pure true else
  let b ← getB
  setB { b with ri := b0.ri }
  let b ← getB
  setB { b with wi := b0.wi }
  pure false
end

end

end FBV

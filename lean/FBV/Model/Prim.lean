/-
  Primitives shared by every model file.  Import-free (core Lean only) so that the
  driver can be linked as a `lean_exe`.

  Everything partial in the Rust source is a *checked* primitive here that panics
  exactly when Rust does: `usize` addition / subtraction (with the build's
  overflow-check setting `oc`), slicing, `copy_from_slice`.
-/
namespace FBV

abbrev Byte := UInt8

/-- result of running a piece of Rust: a value or an unwinding panic -/
inductive Outcome (α : Type) where
  | ok : α → Outcome α
  | panic : Outcome α
deriving Repr, DecidableEq

def Outcome.isPanic : Outcome α → Bool
  | .panic => true
  | .ok _ => false

def USIZE : Nat := 2 ^ 64

/-- `a + b` on a 64-bit `usize`; `oc` = overflow checks enabled (dev/test profile) or not (release). -/
def usizeAdd (oc : Bool) (a b : Nat) : Outcome Nat :=
  if a + b < 2 ^ 64 then .ok (a + b)
  else if oc then .panic else .ok (a + b - 2 ^ 64)

/-- `a - b` on a 64-bit `usize` -/
def usizeSub (oc : Bool) (a b : Nat) : Outcome Nat :=
  if b ≤ a then .ok (a - b)
  else if oc then .panic else .ok (a + 2 ^ 64 - b)

/-- `&s[a..b]` -/
def slice (s : List Byte) (a b : Nat) : Outcome (List Byte) :=
  if b < a then .panic
  else if s.length < b then .panic
  else .ok ((s.take b).drop a)

/-- `s[a..a+src.len()].copy_from_slice(src)`; callers have bounds-checked the sub-slice already -/
def writeAt (s : List Byte) (a : Nat) (src : List Byte) : List Byte :=
  s.take a ++ src ++ s.drop (a + src.length)

/-- `std::io::ErrorKind`s that occur, as small numbers (the line protocol uses the same numbers) -/
abbrev ErrKind := Nat
def EK_InvalidData : ErrKind := 0
def EK_UnexpectedEof : ErrKind := 1
def EK_Interrupted : ErrKind := 2
def EK_WouldBlock : ErrKind := 3
def EK_TimedOut : ErrKind := 4
def EK_ConnectionReset : ErrKind := 5
def EK_Other : ErrKind := 6

/-- deframer result `(start, end, block_len)`; `none` = incomplete; `error` = `MalformedInputError` -/
abbrev Deframer := List Byte → Except Unit (Option (Nat × Nat × Nat))

end FBV

/-
  fixed-buffer-tokio: poll-level models.
  * `ReadBuf` = (bytes, filled); `initialized` is not modelled (no observable of any property depends on it).
  * `AReader σ` : an ARBITRARY `AsyncRead` implementation: `poll_read(state, ReadBuf) → (state, Poll<Result<()>>, ReadBuf)`.
  * `AChain` / `ATake` : async_read_write_chain.rs / async_read_write_take.rs; `TokChain` / `TokTake` : reference models of
    tokio::io::util::{chain,take} (tokio 1.53 source).
  * `ASRW` : the scripted async read-writer of harness-tokio/src/asrw.rs.
  * `AsyncFixedBuf`'s AsyncRead/AsyncWrite impls over the concrete `Buf`.
-/
import FBV.Model.Reader
namespace FBV

structure ReadBuf where
  buf : List Byte
  filled : Nat
deriving Repr, DecidableEq

def ReadBuf.remaining (rb : ReadBuf) : Nat := rb.buf.length - rb.filled
def ReadBuf.filledBytes (rb : ReadBuf) : List Byte := rb.buf.take rb.filled

inductive PollRes where
  | ready (r : Except ErrKind Unit)
  | pending
deriving Repr, DecidableEq

abbrev AReader (σ : Type) := σ → ReadBuf → σ × PollRes × ReadBuf

/-- contract of `AsyncRead::poll_read`: only the unfilled part may change, `filled` never shrinks, and on
    `Pending` / `Err` nothing is added -/
def AReaderOK {σ : Type} (r : AReader σ) : Prop :=
  ∀ s rb, rb.filled ≤ rb.buf.length →
    (r s rb).2.2.buf.length = rb.buf.length ∧ rb.filled ≤ (r s rb).2.2.filled ∧ (r s rb).2.2.filled ≤ rb.buf.length ∧
    (r s rb).2.2.buf.take rb.filled = rb.buf.take rb.filled ∧
    ((r s rb).2.1 ≠ .ready (.ok ()) → (r s rb).2.2.filled = rb.filled)

/-! ### AsyncReadWriteChain -/

structure AChain (σ₁ σ₂ : Type) where
  first : Option σ₁
  dropped : Option σ₁ := none
  second : σ₂

/-- `poll_read` (after the `fix:` for C16: a poll that adds nothing means end-of-first only if there was room) -/
def AChain.pollRead {σ₁ σ₂ : Type} (r1 : AReader σ₁) (r2 : AReader σ₂) (c : AChain σ₁ σ₂) (rb : ReadBuf) :
    AChain σ₁ σ₂ × PollRes × ReadBuf :=
  match c.first with
  | some s1 =>
    match r1 s1 rb with
    | (s1', .pending, rb') => ({ c with first := some s1' }, .pending, rb')
    | (s1', .ready (.error e), rb') => ({ c with first := some s1' }, .ready (.error e), rb')
    | (s1', .ready (.ok _), rb') =>
      if rb'.filled - rb.filled > 0 ∨ rb.remaining = 0 then ({ c with first := some s1' }, .ready (.ok ()), rb')
      else
        let (s2', res2, rb'') := r2 c.second rb'
        ({ first := none, dropped := some s1', second := s2' }, res2, rb'')
  | none =>
    let (s2', res2, rb') := r2 c.second rb
    ({ c with second := s2' }, res2, rb')

structure TokChain (σ₁ σ₂ : Type) where
  first : σ₁
  second : σ₂
  doneFirst : Bool

/-- tokio `Chain::poll_read`: `if !done_first { let rem = buf.remaining(); ready!(first.poll_read(cx, buf))?;
    if buf.remaining() == rem && rem != 0 { done_first = true } else { return Ready(Ok(())) } } second.poll_read(cx, buf)` -/
def TokChain.pollRead {σ₁ σ₂ : Type} (r1 : AReader σ₁) (r2 : AReader σ₂) (c : TokChain σ₁ σ₂) (rb : ReadBuf) :
    TokChain σ₁ σ₂ × PollRes × ReadBuf :=
  if !c.doneFirst then
    match r1 c.first rb with
    | (s1', .pending, rb') => ({ c with first := s1' }, .pending, rb')
    | (s1', .ready (.error e), rb') => ({ c with first := s1' }, .ready (.error e), rb')
    | (s1', .ready (.ok _), rb') =>
      if rb'.remaining = rb.remaining ∧ rb.remaining ≠ 0 then
        let (s2', res2, rb'') := r2 c.second rb'
        ({ first := s1', second := s2', doneFirst := true }, res2, rb'')
      else ({ c with first := s1' }, .ready (.ok ()), rb')
  else
    let (s2', res2, rb') := r2 c.second rb
    ({ c with second := s2' }, res2, rb')

/-! ### AsyncReadWriteTake -/

structure ATake (σ : Type) where
  inner : σ
  remaining : Nat

/-- the sub-buffer the inner stream is handed: the first `k` unfilled bytes, nothing filled -/
def ReadBuf.sub (rb : ReadBuf) (k : Nat) : ReadBuf := { buf := (rb.buf.drop rb.filled).take k, filled := 0 }
/-- splice the sub-buffer back and advance by what the inner stream filled -/
def ReadBuf.merge (rb : ReadBuf) (k : Nat) (sub : ReadBuf) : ReadBuf :=
  { buf := rb.buf.take rb.filled ++ sub.buf ++ rb.buf.drop (rb.filled + k), filled := rb.filled + sub.filled }

def ATake.pollRead {σ : Type} (oc : Bool) (r : AReader σ) (t : ATake σ) (rb : ReadBuf) :
    ATake σ × Outcome (PollRes × ReadBuf) :=
  if t.remaining = 0 then (t, .ok (.ready (.ok ()), rb)) else
  let k := min t.remaining rb.remaining
  match r t.inner (rb.sub k) with
  | (s', .ready (.ok _), sub') =>
    match usizeSub oc t.remaining sub'.filled with
    | .ok rem' => ({ inner := s', remaining := rem' }, .ok (.ready (.ok ()), rb.merge k sub'))
    | .panic => ({ t with inner := s' }, .panic)
  | (s', .ready (.error e), sub') => ({ t with inner := s' }, .ok (.ready (.error e), rb.merge k { sub' with filled := 0 }))
  | (s', .pending, sub') => ({ t with inner := s' }, .ok (.pending, rb.merge k { sub' with filled := 0 }))

/-- tokio `Take::poll_read` -/
def TokTake.pollRead {σ : Type} (r : AReader σ) (t : ATake σ) (rb : ReadBuf) : ATake σ × Outcome (PollRes × ReadBuf) :=
  if t.remaining = 0 then (t, .ok (.ready (.ok ()), rb)) else
  let k := min rb.remaining t.remaining
  match r t.inner (rb.sub k) with
  | (s', .pending, sub') => ({ t with inner := s' }, .ok (.pending, rb.merge k { sub' with filled := 0 }))
  | (s', .ready (.error e), sub') => ({ t with inner := s' }, .ok (.ready (.error e), rb.merge k { sub' with filled := 0 }))
  | (s', .ready (.ok _), sub') =>
    if sub'.filled ≤ t.remaining then ({ inner := s', remaining := t.remaining - sub'.filled }, .ok (.ready (.ok ()), rb.merge k sub'))
    else ({ t with inner := s' }, .panic)

/-! ### the scripted async read-writer -/

inductive ARAct where
  | data (k : Nat) (scribble : Bool) | eof | err (kind : ErrKind) | pending
deriving Repr, DecidableEq

inductive AWAct where
  | full | part (k : Nat) | zero | err (kind : ErrKind) | pending
deriving Repr, DecidableEq

/-- flush / shutdown script entries -/
inductive AFAct where
  | ok | err (kind : ErrKind) | pending
deriving Repr, DecidableEq

structure ASRW where
  id : Nat
  data : List Byte
  racts : List ARAct
  wacts : List AWAct
  facts : List AFAct
  log : List String := []
deriving Repr, DecidableEq

def showK (r : Except ErrKind Nat) : String :=
  match r with | .ok n => s!"ok{n}" | .error k => s!"err{k}"

def ASRW.pollRead (s : ASRW) (rb : ReadBuf) : ASRW × PollRes × ReadBuf :=
  let cap := rb.remaining
  let (a, rest) := match s.racts with
    | [] => (ARAct.data cap false, [])
    | a :: rest => (a, rest)
  match a with
  | .pending => ({ s with racts := rest, log := s.log ++ [s!"R{s.id}:{cap}:pending"] }, .pending, rb)
  | .eof => ({ s with racts := rest, log := s.log ++ [s!"R{s.id}:{cap}:ok0"] }, .ready (.ok ()), rb)
  | .err k => ({ s with racts := rest, log := s.log ++ [s!"R{s.id}:{cap}:err{k}"] }, .ready (.error k), rb)
  | .data k scr =>
    let n := min (min k cap) s.data.length
    let unfilled := rb.buf.drop rb.filled
    let base := if scr then List.replicate unfilled.length (0xEE : Byte) else unfilled
    ({ s with data := s.data.drop n, racts := rest, log := s.log ++ [s!"R{s.id}:{cap}:ok{n}"] }, .ready (.ok ()),
     { buf := rb.buf.take rb.filled ++ s.data.take n ++ base.drop n, filled := rb.filled + n })

def asrwReader : AReader ASRW := fun s rb => s.pollRead rb

def hexS (bs : List Byte) : String :=
  let hx (n : Nat) : Char := if n < 10 then Char.ofNat (48 + n) else Char.ofNat (87 + n)
  if bs.isEmpty then "-" else String.ofList (bs.flatMap fun b => [hx (b.toNat / 16), hx (b.toNat % 16)])

/-- result of `poll_write`: `Ready(Ok n)`, `Ready(Err k)` or `Pending` -/
inductive PollW where
  | ready (r : Except ErrKind Nat) | pending
deriving Repr, DecidableEq

def ASRW.pollWrite (s : ASRW) (b : List Byte) : ASRW × PollW :=
  let (a, rest) := match s.wacts with
    | [] => (AWAct.full, [])
    | a :: rest => (a, rest)
  let (txt, r) : String × PollW := match a with
    | .full => (s!"ok{b.length}", .ready (.ok b.length))
    | .part k => (s!"ok{min k b.length}", .ready (.ok (min k b.length)))
    | .zero => ("ok0", .ready (.ok 0))
    | .err k => (s!"err{k}", .ready (.error k))
    | .pending => ("pending", .pending)
  ({ s with wacts := rest, log := s.log ++ [s!"W{s.id}:{hexS b}:{txt}"] }, r)

/-- `poll_flush` (tag "F") / `poll_shutdown` (tag "S") -/
def ASRW.pollFlush (s : ASRW) (tag : String) : ASRW × PollRes :=
  let (a, rest) := match s.facts with
    | [] => (AFAct.ok, [])
    | a :: rest => (a, rest)
  let (txt, r) : String × PollRes := match a with
    | .ok => ("ok", .ready (.ok ()))
    | .err k => (s!"err{k}", .ready (.error k))
    | .pending => ("pending", .pending)
  ({ s with facts := rest, log := s.log ++ [s!"{tag}{s.id}:{txt}"] }, r)

/-! ### AsyncFixedBuf: `impl AsyncRead / AsyncWrite` -/

/-- `poll_read`: `read_and_copy_bytes(buf.initialize_unfilled())`, `buf.advance(n)`, `Ready(Ok(()))` -/
def bufPollRead (oc : Bool) : AReader Buf := fun b rb =>
  match readAndCopy oc (rb.buf.drop rb.filled) b with
  | (b', .ok (n, d')) => (b', .ready (.ok ()), { buf := rb.buf.take rb.filled ++ d', filled := rb.filled + n })
  | (b', .panic) => (b', .ready (.error 98), rb)

/-- `poll_write`: `write_bytes(buf)` mapped to `InvalidData` when it does not fit -/
def bufPollWrite (oc : Bool) (b : Buf) (d : List Byte) : Buf × Outcome PollW :=
  match writeBytes oc d b with
  | (b', .ok (some n)) => (b', .ok (.ready (.ok n)))
  | (b', .ok none) => (b', .ok (.ready (.error EK_InvalidData)))
  | (b', .panic) => (b', .panic)

end FBV

namespace FBV
/-! ### adapters' `AsyncWrite`: `poll_write` / `poll_flush` / `poll_shutdown` forward to the wrapped read-writer -/
def AChain.pollWrite {σ₁ : Type} (c : AChain σ₁ ASRW) (b : List Byte) : AChain σ₁ ASRW × PollW :=
  let (s2, r) := c.second.pollWrite b; ({ c with second := s2 }, r)
def AChain.pollFlush {σ₁ : Type} (c : AChain σ₁ ASRW) (tag : String) : AChain σ₁ ASRW × PollRes :=
  let (s2, r) := c.second.pollFlush tag; ({ c with second := s2 }, r)
def ATake.pollWrite (t : ATake ASRW) (b : List Byte) : ATake ASRW × PollW :=
  let (s2, r) := t.inner.pollWrite b; ({ t with inner := s2 }, r)
def ATake.pollFlush (t : ATake ASRW) (tag : String) : ATake ASRW × PollRes :=
  let (s2, r) := t.inner.pollFlush tag; ({ t with inner := s2 }, r)
/-- `AsyncFixedBuf::poll_flush` / `poll_shutdown`: `Ready(Ok(()))`, no effect -/
def bufPollFlush (b : Buf) : Buf × PollRes := (b, .ready (.ok ()))
end FBV

/-
  read_write_chain.rs / read_write_take.rs, and reference models of std::io::Chain / std::io::Take
  (from library/std/src/io/mod.rs of the pinned toolchain).
-/
import FBV.Model.Reader
namespace FBV

/-! ### ReadWriteChain -/

/-- `ReadWriteChain { reader: Option<&mut R>, read_writer: &mut RW }` -/
structure Chain (σ₁ σ₂ : Type) where
  first : Option σ₁
  dropped : Option σ₁ := none      -- ghost: the state `first` was in when the chain let go of it (never read again)
  second : σ₂

/-- `impl Read for ReadWriteChain` (after the `fix:` for C08: `Ok(0)` switches readers only for a non-empty destination) -/
def Chain.read {σ₁ σ₂ : Type} (r1 : Reader σ₁) (r2 : Reader σ₂) (c : Chain σ₁ σ₂) (dest : List Byte) :
    Chain σ₁ σ₂ × RdRes × List Byte :=
  match c.first with
  | some s1 =>
    match r1 s1 dest with
    | (s1', .ok 0, d') =>
      if dest.length ≠ 0 then
        -- EOF: forget `first`, fall through to `read_writer.read(buf)`
        let (s2', res2, d'') := r2 c.second d'
        ({ first := none, dropped := some s1', second := s2' }, res2, d'')
      else ({ c with first := some s1' }, .ok 0, d')
    | (s1', .ok n, d') => ({ c with first := some s1' }, .ok n, d')
    | (s1', .error e, d') => ({ c with first := some s1' }, .error e, d')
  | none =>
    let (s2', res2, d') := r2 c.second dest
    ({ c with second := s2' }, res2, d')

/-- `std::io::Chain { first, second, done_first }` -/
structure StdChain (σ₁ σ₂ : Type) where
  first : σ₁
  second : σ₂
  doneFirst : Bool

/-- `impl Read for std::io::Chain`:
    `if !done_first { match first.read(buf)? { 0 if !buf.is_empty() => done_first = true, n => return Ok(n) } } second.read(buf)` -/
def StdChain.read {σ₁ σ₂ : Type} (r1 : Reader σ₁) (r2 : Reader σ₂) (c : StdChain σ₁ σ₂) (dest : List Byte) :
    StdChain σ₁ σ₂ × RdRes × List Byte :=
  if !c.doneFirst then
    match r1 c.first dest with
    | (s1', .error e, d') => ({ c with first := s1' }, .error e, d')
    | (s1', .ok n, d') =>
      if n = 0 ∧ dest.length ≠ 0 then
        let (s2', res2, d'') := r2 c.second d'
        ({ first := s1', second := s2', doneFirst := true }, res2, d'')
      else ({ c with first := s1' }, .ok n, d')
  else
    let (s2', res2, d') := r2 c.second dest
    ({ c with second := s2' }, res2, d')

/-! ### ReadWriteTake -/

/-- `ReadWriteTake { read_writer: &mut RW, remaining_bytes: u64 }` -/
structure Take (σ : Type) where
  inner : σ
  remaining : Nat

/-- `impl Read for ReadWriteTake`.  `as u64`/`as usize` are lossless on a 64-bit target for slice lengths;
    the subtraction is the checked `u64` one (it can only fail if the inner reader breaks its contract). -/
def Take.read {σ : Type} (oc : Bool) (r : Reader σ) (t : Take σ) (dest : List Byte) :
    Take σ × Outcome (RdRes × List Byte) :=
  if t.remaining = 0 then (t, .ok (.ok 0, dest)) else
  let k := min t.remaining dest.length
  match r t.inner (dest.take k) with
  | (s', .ok n, d') =>
    match usizeSub oc t.remaining n with
    | .ok rem' => ({ inner := s', remaining := rem' }, .ok (.ok n, d' ++ dest.drop k))
    | .panic => ({ t with inner := s' }, .panic)
  | (s', .error e, d') => ({ t with inner := s' }, .ok (.error e, d' ++ dest.drop k))

/-- `std::io::Take { inner, limit }`:
    `if limit == 0 { return Ok(0) }; let max = min(buf.len() as u64, limit) as usize; let n = inner.read(&mut buf[..max])?;
     assert!(n as u64 <= limit); limit -= n as u64; Ok(n)` -/
def StdTake.read {σ : Type} (r : Reader σ) (t : Take σ) (dest : List Byte) : Take σ × Outcome (RdRes × List Byte) :=
  if t.remaining = 0 then (t, .ok (.ok 0, dest)) else
  let max := min dest.length t.remaining
  match r t.inner (dest.take max) with
  | (s', .error e, d') => ({ t with inner := s' }, .ok (.error e, d' ++ dest.drop max))
  | (s', .ok n, d') =>
    if n ≤ t.remaining then ({ inner := s', remaining := t.remaining - n }, .ok (.ok n, d' ++ dest.drop max))
    else ({ t with inner := s' }, .panic)

/-! ### writes: both adapters forward to the wrapped read-writer -/

/-- one call on an adapter, as the harness issues them -/
inductive AdOp where
  | read (destLen : Nat)
  | write (bytes : List Byte)
  | flush
deriving Repr, DecidableEq

/-- the adapter-level result of one call -/
inductive AdRes where
  | read (res : RdRes) (dest : List Byte)
  | write (res : RdRes)
  | flush (res : Except ErrKind Unit)
  | panic
deriving Repr, DecidableEq

def DEST_INIT : Byte := 0x2e

/-- ReadWriteChain over two scripted read-writers sharing one call log -/
structure ChainS where
  c : Chain SRW SRW
  log : List Call

def ChainS.step (x : ChainS) : AdOp → ChainS × AdRes
  | .read n =>
    -- run `Chain.read` with readers that append to the shared log
    let r1 : Reader (SRW × List Call) := srwReader
    let dest := List.replicate n DEST_INIT
    match x.c.first with
    | some s1 =>
      match s1.read dest with
      | (s1', .ok 0, d', c1) =>
        if n ≠ 0 then
          let (s2', res2, d'', c2) := x.c.second.read d'
          ({ c := { first := none, dropped := some s1', second := s2' }, log := x.log ++ [c1, c2] }, .read res2 d'')
        else ({ c := { x.c with first := some s1' }, log := x.log ++ [c1] }, .read (.ok 0) d')
      | (s1', res, d', c1) => ({ c := { x.c with first := some s1' }, log := x.log ++ [c1] }, .read res d')
    | none =>
      let (s2', res2, d', c2) := x.c.second.read dest
      let _ := r1
      ({ c := { x.c with second := s2' }, log := x.log ++ [c2] }, .read res2 d')
  | .write b =>
    let (s2', res, c) := x.c.second.write b
    ({ c := { x.c with second := s2' }, log := x.log ++ [c] }, .write res)
  | .flush =>
    let (s2', res, c) := x.c.second.flush
    ({ c := { x.c with second := s2' }, log := x.log ++ [c] }, .flush res)

/-- ReadWriteTake over a scripted read-writer -/
structure TakeS where
  t : Take SRW
  log : List Call

def TakeS.step (oc : Bool) (x : TakeS) : AdOp → TakeS × AdRes
  | .read n =>
    let dest := List.replicate n DEST_INIT
    if x.t.remaining = 0 then (x, .read (.ok 0) dest) else
    let k := min x.t.remaining n
    match x.t.inner.read (dest.take k) with
    | (s', .ok m, d', c) =>
      match usizeSub oc x.t.remaining m with
      | .ok rem' => ({ t := { inner := s', remaining := rem' }, log := x.log ++ [c] }, .read (.ok m) (d' ++ dest.drop k))
      | .panic => ({ t := { x.t with inner := s' }, log := x.log ++ [c] }, .panic)
    | (s', .error e, d', c) => ({ t := { x.t with inner := s' }, log := x.log ++ [c] }, .read (.error e) (d' ++ dest.drop k))
  | .write b =>
    let (s', res, c) := x.t.inner.write b
    ({ t := { x.t with inner := s' }, log := x.log ++ [c] }, .write res)
  | .flush =>
    let (s', res, c) := x.t.inner.flush
    ({ t := { x.t with inner := s' }, log := x.log ++ [c] }, .flush res)

def runChainS (x : ChainS) : List AdOp → ChainS × List AdRes
  | [] => (x, [])
  | op :: rest => let (x', r) := x.step op; let (xf, rs) := runChainS x' rest; (xf, r :: rs)

def runTakeS (oc : Bool) (x : TakeS) : List AdOp → TakeS × List AdRes
  | [] => (x, [])
  | op :: rest => let (x', r) := x.step oc op; let (xf, rs) := runTakeS oc x' rest; (xf, r :: rs)

end FBV

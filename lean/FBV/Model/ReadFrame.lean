/-
  `read_frame` (blocking and async share this loop) at two levels.

  * abstract: the buffer is `(size, ri, q)` — capacity, read offset, unread bytes; the reader is a
    remaining stream plus a script of actions (`chunk k` = "deliver at most k+1 bytes", `err kind`,
    `pending` for the async reader).  One function, `pollLoop`, is both the blocking loop (scripts
    without `pending`) and one poll of the async future started at the top of the loop.
  * concrete: the same loop over `Buf` through the checked buffer methods (`readFrameC`), run by
    the driver against the implementation.
-/
import FBV.Model.Buf
import FBV.Model.Reader
namespace FBV

/-- abstract buffer: capacity, read offset, unread bytes -/
structure AB where
  size : Nat
  ri : Nat
  q : List Byte
deriving Repr, DecidableEq

def AB.Inv (b : AB) : Prop := b.ri + b.q.length ≤ b.size
def AB.free (b : AB) : Nat := b.size - (b.ri + b.q.length)
def AB.shift (b : AB) : AB := { b with ri := 0 }
def AB.consume (b : AB) (n : Nat) : AB :=
  if n = b.q.length then { b with ri := 0, q := [] } else { b with ri := b.ri + n, q := b.q.drop n }
def AB.append (b : AB) (c : List Byte) : AB := { b with q := b.q ++ c }

inductive Act where
  | chunk (k : Nat)      -- deliver at most k+1 bytes (so every script is a well-behaved reader's)
  | err (kind : ErrKind)
  | pending              -- async only: `Poll::Pending`
deriving Repr, DecidableEq

/-- scripted stream reader: remaining stream, action script, log of the destination lengths it was offered -/
structure ARd where
  rem : List Byte
  acts : List Act
  log : List Nat := []
deriving Repr, DecidableEq

inductive Resp where
  | data (c : List Byte) | pending | err (kind : ErrKind)
deriving Repr, DecidableEq

def ARd.read (r : ARd) (d : Nat) : Resp × ARd :=
  match r.acts with
  | [] => (.data (r.rem.take d), { rem := r.rem.drop d, acts := [], log := r.log ++ [d] })
  | .chunk k :: as => (.data (r.rem.take (min (k+1) d)), { rem := r.rem.drop (min (k+1) d), acts := as, log := r.log ++ [d] })
  | .pending :: as => (.pending, { r with acts := as, log := r.log ++ [d] })
  | .err e :: as => (.err e, { r with acts := as, log := r.log ++ [d] })

inductive Res where
  | frame (payload : List Byte)
  | eofNone | invalid | ueof
  | ioErr (kind : ErrKind)
  | pending
  | fuelOut
deriving DecidableEq, Repr

/-- from the await point on: the reader is polled with the free space of the (already compacted) buffer -/
def fromAwait (k : AB → ARd → AB × ARd × Res) (b1 : AB) (r : ARd) : AB × ARd × Res :=
  match r.read b1.free with
  | (.pending, r') => (b1, r', .pending)
  | (.err e, r') => (b1, r', .ioErr e)
  | (.data c, r') =>
    if c = [] then (b1, r', if b1.q = [] then .eofNone else .ueof)
    else k (b1.append c) r'

/-- the `read_frame` loop from its top (blocking call, or a poll of a fresh future) -/
def pollLoop (f : Deframer) : Nat → AB → ARd → AB × ARd × Res
  | 0, b, r => (b, r, .fuelOut)
  | fuel + 1, b, r =>
    match (if b.q = [] then .ok none else f b.q) with
    | .error _ => (b, r, .invalid)
    | .ok (some (s, e, n)) => (b.consume n, r, .frame ((b.q.take e).drop s))
    | .ok none =>
      let b1 := b.shift
      if b1.free = 0 then (b1, r, .invalid) else
      fromAwait (pollLoop f fuel) b1 r

/-- enough fuel: one iteration per delivered chunk plus one per non-data action plus one -/
def ARd.fuel (r : ARd) : Nat := r.rem.length + r.acts.length + 2

/-- a poll of a future that is suspended at its await point -/
def pollAwait (f : Deframer) (fuel : Nat) (b : AB) (r : ARd) : AB × ARd × Res :=
  fromAwait (pollLoop f fuel) b r


/-! ### `AsyncFixedBuf::copy_once_from` (and, with scripts without `pending`, the blocking one) at the abstract level -/

inductive CofRes where
  | ok (n : Nat) | invalid | ioErr (kind : ErrKind) | pending
deriving DecidableEq, Repr

/-- one poll of a `copy_once_from` future.  The future has a single await point and holds no state besides the
    borrowed buffer and reader: a poll of a suspended future and the first poll of a new one are the same function -/
def cofPoll (b : AB) (r : ARd) : AB × ARd × CofRes :=
  if b.free = 0 then (b, r, .invalid) else
  match r.read b.free with
  | (.pending, r') => (b, r', .pending)
  | (.err e, r') => (b, r', .ioErr e)
  | (.data c, r') => (b.append c, r', .ok c.length)

/-- a conversation: poll until the result is Ready; at every Pending the caller may equally well drop the future and
    call again (same function) -/
def cofDrive : Nat → AB → ARd → AB × ARd × CofRes
  | 0, b, r => (b, r, .pending)
  | n + 1, b, r =>
    match cofPoll b r with
    | (b', r', .pending) => cofDrive n b' r'
    | out => out

/-- abstraction of a concrete buffer -/
def Buf.abs (b : Buf) : AB := { size := b.mem.length, ri := b.ri, q := b.readable }

/-! ### concrete loop -/

inductive RFRes where
  | frame (payload : List Byte)
  | none
  | err (kind : ErrKind)
  | panic
deriving Repr, DecidableEq

/-- scripted reader used with the concrete loop: `SRW` plus a `panic` action encoded as error kind 99 in the script -/
def readFrameC (oc : Bool) (f : Deframer) : Nat → Buf → SRW → List Call → Buf × SRW × List Call × RFRes
  | 0, b, s, log => (b, s, log, .panic)
  | fuel + 1, b, s, log =>
    let (b1, o) := (if b.wi != b.ri then deframeM oc f b else (b, .ok (.ok none)))
    match o with
    | .panic => (b1, s, log, .panic)
    | .ok (.error _) => (b1, s, log, .err EK_InvalidData)
    | .ok (.ok (some (ms, me, _))) =>
      match slice b1.mem ms me with
      | .ok p => (b1, s, log, .frame p)
      | .panic => (b1, s, log, .panic)
    | .ok (.ok none) =>
      match shiftM oc b1 with
      | (b2, .panic) => (b2, s, log, .panic)
      | (b2, .ok _) =>
        match writableM b2 with
        | (_, .panic) => (b2, s, log, .panic)
        | (_, .ok w) =>
          if w.length = 0 then (b2, s, log, .err EK_InvalidData) else
          let (s', res, d', call) := s.read w
          let log' := log ++ [call]
          match res with
          | .error k => if k = 99 then (b2, s', log', .panic)   -- the scripted reader panicked
                        else (b2, s', log', .err k)
          | .ok n =>
            let b3 : Buf := { b2 with mem := writeAt b2.mem b2.wi d' }
            if n = 0 then
              (b3, s', log', if b3.wi == b3.ri then .none else .err EK_UnexpectedEof)
            else
              match wrote oc n b3 with
              | (b4, .panic) => (b4, s', log', .panic)
              | (b4, .ok _) => readFrameC oc f fuel b4 s' log'

end FBV

/-
  The three provided deframers (deframe_line.rs, deframe_crlf.rs, deframe_null.rs) as the
  same index loops as the Rust, plus the test deframers the harness uses.
-/
import FBV.Model.Prim
namespace FBV

def LF : Byte := 10
def CR : Byte := 13
def NUL : Byte := 0

/-- `for n in 0..data.len() { if data[n] == b'\n' { ... return } } Ok(None)` from index `n` on -/
def lineFrom (d : List Byte) (n : Nat) : Option (Nat × Nat × Nat) :=
  if h : n < d.length then
    if d[n] = LF then
      let e := if h0 : 0 < n then (if d[n-1]'(by omega) = CR then n - 1 else n) else n
      some (0, e, n + 1)
    else lineFrom d (n + 1)
  else none
termination_by d.length - n

def deframeLine (d : List Byte) : Option (Nat × Nat × Nat) := lineFrom d 0

/-- `for n in 1..data.len() { if data[n-1] == b'\r' && data[n] == b'\n' { return (0..n-1, n+1) } }` -/
def crlfFrom (d : List Byte) (n : Nat) : Option (Nat × Nat × Nat) :=
  if h : n < d.length then
    if h0 : 0 < n then
      if d[n-1]'(by omega) = CR ∧ d[n] = LF then some (0, n - 1, n + 1)
      else crlfFrom d (n + 1)
    else crlfFrom d (n + 1)
  else none
termination_by d.length - n

def deframeCrlf (d : List Byte) : Option (Nat × Nat × Nat) :=
  if 1 < d.length then crlfFrom d 1 else none

/-- `for n in 0..data.len() { if data[n] == 0 { return (0..n, n+1) } }` -/
def nullFrom (d : List Byte) (n : Nat) : Option (Nat × Nat × Nat) :=
  if h : n < d.length then
    if d[n] = NUL then some (0, n, n + 1)
    else nullFrom d (n + 1)
  else none
termination_by d.length - n

def deframeNull (d : List Byte) : Option (Nat × Nat × Nat) := nullFrom d 0

/-- identifiers of the deframers the harness passes to `deframe` / `read_frame` -/
inductive DfId where
  | line | crlf | null
  | reject        -- always `Err(MalformedInputError)`
  | rejectX       -- `Err` if the data contains `x`/`X`, else `deframe_line` (the test suite's deframer)
  | lenPrefix     -- first byte `L % 4` is a length: payload `1..1+L`, block `1+L` (payload range not starting at 0)
deriving Repr, DecidableEq

def dfLenPrefix (d : List Byte) : Option (Nat × Nat × Nat) :=
  match d with
  | [] => none
  | x :: _ =>
    let l := x.toNat % 4
    if d.length < 1 + l then none else some (1, 1 + l, 1 + l)

def dfOf : DfId → Deframer
  | .line => fun d => .ok (deframeLine d)
  | .crlf => fun d => .ok (deframeCrlf d)
  | .null => fun d => .ok (deframeNull d)
  | .reject => fun _ => .error ()
  | .rejectX => fun d => if d.contains 120 || d.contains 88 then .error () else .ok (deframeLine d)
  | .lenPrefix => fun d => .ok (dfLenPrefix d)

end FBV

/- list identities about `take` / `drop` / `writeAt` used by the buffer lemmas -/
import FBV.Model.Prim
namespace FBV
variable {α : Type}

theorem writeAt_length (s : List Byte) (a : Nat) (src : List Byte) (h : a + src.length ≤ s.length) :
    (writeAt s a src).length = s.length := by
  simp [writeAt]; omega

theorem writeAt_take (s : List Byte) (a : Nat) (src : List Byte) (h : a ≤ s.length) :
    (writeAt s a src).take a = s.take a := by
  unfold writeAt
  rw [List.append_assoc, List.take_append_of_le_length (by simp; omega)]
  simp [List.take_take]

theorem writeAt_take_le (s : List Byte) (a k : Nat) (src : List Byte) (h : a ≤ s.length) (hk : k ≤ a) :
    (writeAt s a src).take k = s.take k := by
  have := congrArg (List.take k) (writeAt_take s a src h)
  simpa [List.take_take, Nat.min_eq_left hk] using this

theorem writeAt_take_end (s : List Byte) (a : Nat) (src : List Byte) (h : a ≤ s.length) :
    (writeAt s a src).take (a + src.length) = s.take a ++ src := by
  unfold writeAt
  rw [List.take_append_of_le_length (by simp; omega)]
  rw [List.take_of_length_le (by simp; omega)]

theorem writeAt_take_drop (s : List Byte) (a k : Nat) (src : List Byte) (h : a ≤ s.length) (hk : k ≤ src.length) :
    ((writeAt s a src).take (a + k)).drop a = src.take k := by
  unfold writeAt
  rw [List.append_assoc, List.take_append]
  simp only [List.length_take, Nat.min_eq_left h, Nat.add_sub_cancel_left]
  rw [List.drop_append_of_le_length (by simp; omega)]
  rw [List.take_of_length_le (l := List.take a s) (by simp; omega)]
  simp [List.take_append_of_le_length hk, Nat.min_eq_left h]

theorem writeAt_nil (s : List Byte) (a : Nat) : writeAt s a [] = s := by
  simp [writeAt]

theorem take_drop_take (s : List α) (a n w : Nat) (h : a + n ≤ w) :
    (s.take (a + n)).drop a = ((s.take w).drop a).take n := by
  rw [List.take_drop, List.take_take]; congr 2; omega

theorem slice_of_window (m : List α) (ri wi s e : Nat) (h : ri + e ≤ wi) :
    (((m.take wi).drop ri).take e).drop s = (m.take (ri + e)).drop (ri + s) := by
  rw [← take_drop_take m ri e wi h, List.drop_drop]

theorem drop_take_append (s d : List α) (ri wi : Nat) (h1 : ri ≤ wi) (h2 : wi ≤ s.length) :
    (s.take wi ++ d).drop ri = (s.take wi).drop ri ++ d := by
  rw [List.drop_append_of_le_length (by simp; omega)]

end FBV

/-
  Index-level characterisations of the three provided deframers (the loops of
  deframe_line.rs / deframe_crlf.rs / deframe_null.rs).
-/
import FBV.Model.Deframe
namespace FBV

/-- end of the payload for a line whose LF is at index `k`: one CR directly before it is dropped -/
def endOf (d : List Byte) (k : Nat) : Nat := if 0 < k ∧ d[k-1]? = some CR then k - 1 else k

theorem lineFrom_some (d : List Byte) (n : Nat) (r : Nat × Nat × Nat) :
    lineFrom d n = some r ↔
      ∃ k, n ≤ k ∧ d[k]? = some LF ∧ (∀ i, n ≤ i → i < k → d[i]? ≠ some LF) ∧ r = (0, endOf d k, k + 1) := by
  fun_induction lineFrom d n
  · rename_i n h hlf e
    constructor
    · intro hr
      refine ⟨n, Nat.le_refl _, by simp [h, hlf], by intros; omega, ?_⟩
      simp at hr; subst hr
      simp only [endOf, e]
      grind
    · rintro ⟨k, hk, hkl, hmin, rfl⟩
      have : k = n := by
        apply Nat.le_antisymm _ hk
        apply Nat.le_of_not_lt; intro hlt
        exact hmin n (Nat.le_refl _) hlt (by simp [h, hlf])
      subst this
      simp only [endOf, e]
      grind
  · rename_i n h hlf ih
    rw [ih]
    constructor
    · rintro ⟨k, hk, hkl, hmin, rfl⟩
      refine ⟨k, by omega, hkl, ?_, rfl⟩
      intro i hi hik
      by_cases hin : i = n
      · subst hin; simp [h, hlf]
      · exact hmin i (by omega) hik
    · rintro ⟨k, hk, hkl, hmin, rfl⟩
      have : k ≠ n := by rintro rfl; simp [h] at hkl; exact hlf hkl
      exact ⟨k, by omega, hkl, fun i hi hik => hmin i (by omega) hik, rfl⟩
  · rename_i n h
    constructor
    · intro hr; cases hr
    · rintro ⟨k, hk, hkl, _, _⟩
      have : k < d.length := by
        apply Nat.lt_of_not_le; intro hge
        simp [List.getElem?_eq_none hge] at hkl
      omega

theorem lineFrom_none (d : List Byte) (n : Nat) :
    lineFrom d n = none ↔ ∀ i, n ≤ i → d[i]? ≠ some LF := by
  fun_induction lineFrom d n
  · rename_i n h hlf e
    simp only [reduceCtorEq, false_iff]
    intro hall
    exact hall n (Nat.le_refl _) (by simp [h, hlf])
  · rename_i n h hlf ih
    rw [ih]
    constructor
    · intro hall i hi
      by_cases hin : i = n
      · subst hin; simp [h, hlf]
      · exact hall i (by omega)
    · intro hall i hi; exact hall i (by omega)
  · rename_i n h
    simp only [true_iff]
    intro i hi
    rw [List.getElem?_eq_none (by omega)]; simp

theorem nullFrom_some (d : List Byte) (n : Nat) (r : Nat × Nat × Nat) :
    nullFrom d n = some r ↔
      ∃ k, n ≤ k ∧ d[k]? = some NUL ∧ (∀ i, n ≤ i → i < k → d[i]? ≠ some NUL) ∧ r = (0, k, k + 1) := by
  fun_induction nullFrom d n
  · rename_i n h hz
    constructor
    · intro hr
      refine ⟨n, Nat.le_refl _, by simp [h, hz], by intros; omega, ?_⟩
      simp at hr; exact hr.symm
    · rintro ⟨k, hk, hkl, hmin, rfl⟩
      have : k = n := by
        apply Nat.le_antisymm _ hk
        apply Nat.le_of_not_lt; intro hlt
        exact hmin n (Nat.le_refl _) hlt (by simp [h, hz])
      subst this; rfl
  · rename_i n h hz ih
    rw [ih]
    constructor
    · rintro ⟨k, hk, hkl, hmin, rfl⟩
      refine ⟨k, by omega, hkl, ?_, rfl⟩
      intro i hi hik
      by_cases hin : i = n
      · subst hin; simp [h, hz]
      · exact hmin i (by omega) hik
    · rintro ⟨k, hk, hkl, hmin, rfl⟩
      have : k ≠ n := by rintro rfl; simp [h] at hkl; exact hz hkl
      exact ⟨k, by omega, hkl, fun i hi hik => hmin i (by omega) hik, rfl⟩
  · rename_i n h
    constructor
    · intro hr; cases hr
    · rintro ⟨k, hk, hkl, _, _⟩
      have : k < d.length := by
        apply Nat.lt_of_not_le; intro hge
        simp [List.getElem?_eq_none hge] at hkl
      omega

theorem nullFrom_none (d : List Byte) (n : Nat) :
    nullFrom d n = none ↔ ∀ i, n ≤ i → d[i]? ≠ some NUL := by
  fun_induction nullFrom d n
  · rename_i n h hz
    simp only [reduceCtorEq, false_iff]
    intro hall
    exact hall n (Nat.le_refl _) (by simp [h, hz])
  · rename_i n h hz ih
    rw [ih]
    constructor
    · intro hall i hi
      by_cases hin : i = n
      · subst hin; simp [h, hz]
      · exact hall i (by omega)
    · intro hall i hi; exact hall i (by omega)
  · rename_i n h
    simp only [true_iff]
    intro i hi
    rw [List.getElem?_eq_none (by omega)]; simp

/-- "a CR LF pair ends at index `i`" -/
def crlfAt (d : List Byte) (i : Nat) : Prop := 0 < i ∧ d[i-1]? = some CR ∧ d[i]? = some LF

theorem crlfFrom_some (d : List Byte) (n : Nat) (r : Nat × Nat × Nat) :
    crlfFrom d n = some r ↔
      ∃ k, n ≤ k ∧ crlfAt d k ∧ (∀ i, n ≤ i → i < k → ¬ crlfAt d i) ∧ r = (0, k - 1, k + 1) := by
  fun_induction crlfFrom d n
  · rename_i n h h0 hc
    have hat : crlfAt d n := ⟨h0, by
      have : n - 1 < d.length := by omega
      simp [this, hc.1], by simp [h, hc.2]⟩
    constructor
    · intro hr
      refine ⟨n, Nat.le_refl _, hat, by intros; omega, ?_⟩
      simp at hr; exact hr.symm
    · rintro ⟨k, hk, hkl, hmin, rfl⟩
      have : k = n := by
        apply Nat.le_antisymm _ hk
        apply Nat.le_of_not_lt; intro hlt
        exact hmin n (Nat.le_refl _) hlt hat
      subst this; rfl
  · rename_i n h h0 hc ih
    have hnat : ¬ crlfAt d n := by
      rintro ⟨_, h1, h2⟩
      have : n - 1 < d.length := by omega
      simp [this] at h1
      simp [h] at h2
      exact hc ⟨h1, h2⟩
    rw [ih]
    constructor
    · rintro ⟨k, hk, hkl, hmin, rfl⟩
      refine ⟨k, by omega, hkl, ?_, rfl⟩
      intro i hi hik
      by_cases hin : i = n
      · subst hin; exact hnat
      · exact hmin i (by omega) hik
    · rintro ⟨k, hk, hkl, hmin, rfl⟩
      have : k ≠ n := by rintro rfl; exact hnat hkl
      exact ⟨k, by omega, hkl, fun i hi hik => hmin i (by omega) hik, rfl⟩
  · rename_i n h h0 ih
    have hn0 : n = 0 := by omega
    have hnat : ¬ crlfAt d n := by rintro ⟨hp, _⟩; omega
    rw [ih]
    constructor
    · rintro ⟨k, hk, hkl, hmin, rfl⟩
      refine ⟨k, by omega, hkl, ?_, rfl⟩
      intro i hi hik
      by_cases hin : i = n
      · subst hin; exact hnat
      · exact hmin i (by omega) hik
    · rintro ⟨k, hk, hkl, hmin, rfl⟩
      have : k ≠ n := by rintro rfl; exact hnat hkl
      exact ⟨k, by omega, hkl, fun i hi hik => hmin i (by omega) hik, rfl⟩
  · rename_i n h
    constructor
    · intro hr; cases hr
    · rintro ⟨k, hk, ⟨_, _, hkl⟩, _, _⟩
      have : k < d.length := by
        apply Nat.lt_of_not_le; intro hge
        simp [List.getElem?_eq_none hge] at hkl
      omega

theorem crlfFrom_none (d : List Byte) (n : Nat) :
    crlfFrom d n = none ↔ ∀ i, n ≤ i → ¬ crlfAt d i := by
  fun_induction crlfFrom d n
  · rename_i n h h0 hc
    have hat : crlfAt d n := ⟨h0, by
      have : n - 1 < d.length := by omega
      simp [this, hc.1], by simp [h, hc.2]⟩
    simp only [reduceCtorEq, false_iff]
    intro hall
    exact hall n (Nat.le_refl _) hat
  · rename_i n h h0 hc ih
    have hnat : ¬ crlfAt d n := by
      rintro ⟨_, h1, h2⟩
      have : n - 1 < d.length := by omega
      simp [this] at h1
      simp [h] at h2
      exact hc ⟨h1, h2⟩
    rw [ih]
    constructor
    · intro hall i hi
      by_cases hin : i = n
      · subst hin; exact hnat
      · exact hall i (by omega)
    · intro hall i hi; exact hall i (by omega)
  · rename_i n h h0 ih
    have hnat : ¬ crlfAt d n := by rintro ⟨hp, _⟩; omega
    rw [ih]
    constructor
    · intro hall i hi
      by_cases hin : i = n
      · subst hin; exact hnat
      · exact hall i (by omega)
    · intro hall i hi; exact hall i (by omega)
  · rename_i n h
    simp only [true_iff]
    rintro i hi ⟨_, _, h2⟩
    rw [List.getElem?_eq_none (by omega)] at h2; cases h2

end FBV

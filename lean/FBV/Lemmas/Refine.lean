/-
  Refinement: the CONCRETE `read_frame` loop (`readFrameC`, over the checked `Buf` methods — the model the
  driver compares with the implementation) is simulated step for step by the ABSTRACT loop (`pollLoop`, over
  `(size, ri, unread bytes)` — the model C02/C06/C12/C14/C15/C07 are proved about).
-/
import FBV.Lemmas.StepReads
import FBV.Lemmas.LoopLemmas
namespace FBV

/-- reader actions the abstract level knows: positive data chunks (scribbling or not) and errors of a kind that
    `read_frame` does not raise itself -/
def goodAct : RAct → Bool
  | .data k _ => decide (0 < k)
  | .err k => decide (2 ≤ k ∧ k ≠ 99)
  | _ => false

def actOfR : RAct → Act
  | .data k _ => .chunk (k - 1)
  | .err k => .err k
  | _ => .pending

/-- the abstract view of a scripted reader (the log is a parameter so that the simulation is exact) -/
def absR (s : SRW) (lg : List Nat) : ARd := { rem := s.data, acts := s.racts.map actOfR, log := lg }

def absRes : RFRes → Res
  | .frame p => .frame p
  | .none => .eofNone
  | .err k => if k = 0 then .invalid else if k = 1 then .ueof else .ioErr k
  | .panic => .fuelOut

theorem abs_consume (b : Buf) (n : Nat) (h : b.WInv) (hn : n ≤ b.wi - b.ri) : (b.consume n).abs = b.abs.consume n := by
  have hl := Buf.readable_length b h
  obtain ⟨h1, h2, h3⟩ := h
  have hr := consume_readable b n ⟨h1, h2, h3⟩ hn
  unfold Buf.abs AB.consume
  simp only [hr, consume_mem]
  by_cases hd : b.ri + n = b.wi
  · have hnl : n = b.readable.length := by omega
    have : b.readable.drop n = [] := List.drop_eq_nil_of_le (by omega)
    subst hnl
    simp [Buf.consume, hd, this]
  · have hnl : ¬ n = b.readable.length := by omega
    simp [Buf.consume, hd, hnl]

theorem abs_shifted (b : Buf) (h : b.WInv) : b.shifted.abs = b.abs.shift := by
  simp [Buf.abs, AB.shift, shifted_mem_length b h, shifted_ri, shifted_readable b h]

theorem abs_free_shifted (b : Buf) (h : b.WInv) : b.shifted.mem.length - b.shifted.wi = b.abs.shift.free := by
  have hl := Buf.readable_length b h
  simp only [AB.free, AB.shift, Buf.abs, shifted_mem_length b h, shifted_wi, hl]
  omega

/-- what one scripted read returns, in both views -/
theorem read_corr (s : SRW) (w : List Byte) (lg : List Nat) (hgood : ∀ a ∈ s.racts, goodAct a = true) :
    match (s.read w).2.1, (absR s lg).read w.length with
    | .ok n, (.data c, r') =>
      c = s.data.take n ∧ c.length = n ∧ n ≤ w.length ∧ r' = absR (s.read w).1 (lg ++ [w.length]) ∧
      (s.read w).2.2.1.length = w.length ∧ (s.read w).2.2.1.take n = c ∧
      (∀ a ∈ (s.read w).1.racts, goodAct a = true)
    | .error k, (.err k', r') => k = k' ∧ 2 ≤ k ∧ k ≠ 99 ∧ r' = absR (s.read w).1 (lg ++ [w.length]) ∧
      (∀ a ∈ (s.read w).1.racts, goodAct a = true)
    | _, _ => False := by
  cases hr : s.racts with
  | nil =>
    simp only [SRW.read, hr, absR, ARd.read, List.map_nil]
    refine ⟨?_, ?_, ?_, ?_, ?_, ?_, ?_⟩
    · simp [Nat.min_comm]
    · simp <;> omega
    · omega
    · simp
    · simp <;> omega
    · rw [List.take_append_of_le_length (by simp <;> omega)]; simp [List.take_take]
    · simp
  | cons a rest =>
    have hg := hgood a (by rw [hr]; simp)
    have hrest : ∀ x ∈ rest, goodAct x = true := fun x hx => hgood x (by rw [hr]; simp [hx])
    cases a with
    | data k scr =>
      simp [goodAct] at hg
      have hk : k - 1 + 1 = k := by omega
      simp only [SRW.read, hr, absR, ARd.read, List.map_cons, actOfR, hk]
      refine ⟨?_, ?_, ?_, ?_, ?_, ?_, hrest⟩
      · simp [List.take_take] <;> (congr 1; omega)
      · simp <;> omega
      · omega
      · simp <;> (congr 1; omega)
      · cases scr <;> simp <;> omega
      · rw [List.take_append_of_le_length (by simp <;> omega)]
        simp [List.take_take] <;> (congr 1; omega)
    | err k =>
      simp [goodAct] at hg
      simp only [SRW.read, hr, absR, ARd.read, List.map_cons, actOfR]
      exact ⟨trivial, hg.1, hg.2, by simp, hrest⟩
    | eof => simp [goodAct] at hg
    | panic => simp [goodAct] at hg

end FBV

namespace FBV

/-- the bounds clause of the deframer contract (what `deframe` needs in order not to panic) -/
def BoundsOK (f : Deframer) : Prop := ∀ d s e n, f d = .ok (some (s, e, n)) → s ≤ e ∧ e ≤ n ∧ n ≤ d.length

theorem readable_nil_iff (b : Buf) (h : b.WInv) : b.readable = [] ↔ b.wi = b.ri := by
  have hl := Buf.readable_length b h
  have h1 := h.1
  constructor
  · intro hq; rw [hq] at hl; simp at hl; omega
  · intro he; exact List.eq_nil_of_length_eq_zero (by omega)

/-- the part of an iteration after the deframer said "incomplete" (or the buffer was empty): compaction, the
    full check, one reader call, commit — concrete and abstract agree, and the recursive calls line up -/
theorem refine_tail (oc : Bool) (f : Deframer) (fuel : Nat) (b : Buf) (s : SRW) (log : List Call) (lg : List Nat)
    (h : b.WInv) (hgood : ∀ a ∈ s.racts, goodAct a = true)
    (ih : ∀ (b : Buf) (s : SRW) (log : List Call) (lg : List Nat), b.WInv → (∀ a ∈ s.racts, goodAct a = true) →
      absRes (readFrameC oc f fuel b s log).2.2.2 = (pollLoop f fuel b.abs (absR s lg)).2.2 ∧
      (readFrameC oc f fuel b s log).1.abs = (pollLoop f fuel b.abs (absR s lg)).1 ∧
      (∃ lg', (pollLoop f fuel b.abs (absR s lg)).2.1 = absR (readFrameC oc f fuel b s log).2.1 lg') ∧
      (readFrameC oc f fuel b s log).1.WInv)
    (C : Buf × SRW × List Call × RFRes) (A : AB × ARd × Res)
    (hC : C = (match shiftM oc b with
      | (b2, .panic) => (b2, s, log, .panic)
      | (b2, .ok _) =>
        match writableM b2 with
        | (_, .panic) => (b2, s, log, .panic)
        | (_, .ok w) =>
          if w.length = 0 then (b2, s, log, .err EK_InvalidData) else
          let (s', res, d', call) := s.read w
          let log' := log ++ [call]
          match res with
          | .error k => if k = 99 then (b2, s', log', .panic) else (b2, s', log', .err k)
          | .ok n =>
            let b3 : Buf := { b2 with mem := writeAt b2.mem b2.wi d' }
            if n = 0 then
              (b3, s', log', if b3.wi == b3.ri then .none else .err EK_UnexpectedEof)
            else
              match wrote oc n b3 with
              | (b4, .panic) => (b4, s', log', .panic)
              | (b4, .ok _) => readFrameC oc f fuel b4 s' log'))
    (hA : A = (if b.abs.shift.free = 0 then (b.abs.shift, absR s lg, .invalid)
      else fromAwait (pollLoop f fuel) b.abs.shift (absR s lg))) :
    absRes C.2.2.2 = A.2.2 ∧ C.1.abs = A.1 ∧ (∃ lg', A.2.1 = absR C.2.1 lg') ∧ C.1.WInv := by
  have hl := Buf.readable_length b h
  have hsW := shifted_WInv b h
  have hfree := abs_free_shifted b h
  have hwr : writableM b.shifted = (b.shifted, .ok (b.shifted.mem.drop b.shifted.wi)) := writableM_eq b.shifted hsW
  have hwl : (b.shifted.mem.drop b.shifted.wi).length = b.abs.shift.free := by simp [hfree]
  subst hC hA
  simp only [shiftM_eq oc b h, hwr, hwl]
  by_cases h0 : b.abs.shift.free = 0
  · simp only [h0, if_true]
    exact ⟨by simp [absRes, EK_InvalidData], abs_shifted b h, ⟨lg, rfl⟩, hsW⟩
  · simp only [h0, if_false, fromAwait]
    have hrc := read_corr s (b.shifted.mem.drop b.shifted.wi) lg hgood
    rw [hwl] at hrc
    rcases hsr : s.read (b.shifted.mem.drop b.shifted.wi) with ⟨s', res, d', call⟩
    rcases har : (absR s lg).read b.abs.shift.free with ⟨resp, r'⟩
    rw [hsr, har] at hrc
    simp only at hrc
    cases res with
    | error k =>
      cases resp with
      | err k' =>
        obtain ⟨hkk, hk2, hk99, hr', _⟩ := hrc
        subst hkk
        have hk0 : ¬ k = 0 := by intro hc; subst hc; exact absurd hk2 (by decide)
        have hk1 : ¬ k = 1 := by intro hc; subst hc; exact absurd hk2 (by decide)
        simp only [hk99, if_false]
        exact ⟨by simp [absRes, hk0, hk1], abs_shifted b h, ⟨_, hr'⟩, hsW⟩
      | data c => simp at hrc
      | pending => simp at hrc
    | ok n =>
      cases resp with
      | err k' => simp at hrc
      | pending => simp at hrc
      | data c =>
        obtain ⟨hc, hcl, hnw, hr', hdl, hdt, hg'⟩ := hrc
        have hml : b.shifted.mem.length - b.shifted.wi = b.abs.shift.free := hfree
        have hd'len : d'.length ≤ b.shifted.mem.length - b.shifted.wi := by rw [hdl, hml]; exact Nat.le_refl _
        have hb3 : ({ b.shifted with mem := writeAt b.shifted.mem b.shifted.wi d' } : Buf) = b.shifted.put d' := rfl
        have hW3 := put_WInv b.shifted d' hsW hd'len
        have hm3 := put_mem_length b.shifted d' hsW hd'len
        have hr3 := put_readable b.shifted d' hsW
        have habs3 : (b.shifted.put d').abs = b.abs.shift := by
          rw [← abs_shifted b h]
          simp only [Buf.abs, hm3, hr3]
          rfl
        simp only [hb3]
        by_cases hn0 : n = 0
        · subst hn0
          have hcnil : c = [] := List.eq_nil_of_length_eq_zero hcl
          simp only [if_true, hcnil]
          refine ⟨?_, habs3, ⟨_, hr'⟩, hW3⟩
          have hq : b.abs.shift.q = b.readable := rfl
          show absRes (if (b.shifted.wi == b.shifted.ri) = true then RFRes.none else RFRes.err EK_UnexpectedEof) =
            if b.abs.shift.q = [] then Res.eofNone else Res.ueof
          rw [hq, shifted_wi, shifted_ri]
          by_cases he : b.wi = b.ri
          · have : b.readable = [] := (readable_nil_iff b h).mpr he
            simp [he, this, absRes]
          · have : b.readable ≠ [] := fun hc' => he ((readable_nil_iff b h).mp hc')
            have h1 := h.1
            have hne : ¬ (b.wi - b.ri = 0) := by omega
            simp [hne, this, absRes, EK_UnexpectedEof]
        · have hcne : c ≠ [] := by intro hc'; rw [hc'] at hcl; simp at hcl; exact hn0 hcl.symm
          simp only [hn0, if_false, hcne]
          have hnle : n ≤ (b.shifted.put d').mem.length - (b.shifted.put d').wi := by
            rw [hm3]; show n ≤ b.shifted.mem.length - b.shifted.wi; rw [hml]; exact hnw
          rw [wrote_eq oc (b.shifted.put d') n hW3]
          simp only [hnle, if_true]
          have hW4 := commit_WInv (b.shifted.put d') n hW3 hnle
          have habs4 : ((b.shifted.put d').commit n).abs = b.abs.shift.append c := by
            have hq4 := commit_readable (b.shifted.put d') n hW3 hnle
            rw [hr3] at hq4
            have htd : (((b.shifted.put d').mem.take ((b.shifted.put d').wi + n)).drop (b.shifted.put d').wi) = c := by
              show ((writeAt b.shifted.mem b.shifted.wi d').take (b.shifted.wi + n)).drop b.shifted.wi = c
              rw [writeAt_take_drop b.shifted.mem b.shifted.wi n d' hsW.2.1 (by rw [hdl]; exact hnw)]
              exact hdt
            rw [htd] at hq4
            have hsr' := shifted_readable b h
            have hsz : ((b.shifted.put d').commit n).mem.length = b.mem.length := by
              show (b.shifted.put d').mem.length = b.mem.length
              rw [hm3]; exact shifted_mem_length b h
            have hri4 : ((b.shifted.put d').commit n).ri = 0 := shifted_ri b
            simp only [Buf.abs, AB.append, AB.shift, AB.mk.injEq]
            exact ⟨hsz, hri4, by rw [hq4, hsr']⟩
          have := ih ((b.shifted.put d').commit n) s' (log ++ [call]) (lg ++ [b.abs.shift.free]) hW4 hg'
          rw [habs4, ← hr'] at this
          exact this

/-- REFINEMENT: for every fuel, every well-formed buffer, every scripted reader made of positive chunks (scribbling or
    not) and pass-through errors, and every deframer honouring the bounds clause, the concrete loop and the abstract
    loop return corresponding results and end in corresponding states -/
theorem readFrameC_refines (oc : Bool) (f : Deframer) (hf : BoundsOK f) :
    ∀ (fuel : Nat) (b : Buf) (s : SRW) (log : List Call) (lg : List Nat), b.WInv → (∀ a ∈ s.racts, goodAct a = true) →
      absRes (readFrameC oc f fuel b s log).2.2.2 = (pollLoop f fuel b.abs (absR s lg)).2.2 ∧
      (readFrameC oc f fuel b s log).1.abs = (pollLoop f fuel b.abs (absR s lg)).1 ∧
      (∃ lg', (pollLoop f fuel b.abs (absR s lg)).2.1 = absR (readFrameC oc f fuel b s log).2.1 lg') ∧
      (readFrameC oc f fuel b s log).1.WInv := by
  intro fuel
  induction fuel with
  | zero =>
    intro b s log lg h _
    simp only [readFrameC, pollLoop]
    exact ⟨by simp [absRes], trivial, ⟨lg, rfl⟩, h⟩
  | succ fuel ih =>
    intro b s log lg h hgood
    have hl := Buf.readable_length b h
    have hq : b.abs.q = b.readable := rfl
    by_cases he : b.wi = b.ri
    · -- empty buffer: the deframer is not consulted
      have hqn : b.readable = [] := (readable_nil_iff b h).mpr he
      have hne : (b.wi != b.ri) = false := by simp [he]
      exact refine_tail oc f fuel b s log lg h hgood ih
        (readFrameC oc f (fuel + 1) b s log) (pollLoop f (fuel + 1) b.abs (absR s lg))
        (by simp only [readFrameC, hne, Bool.false_eq_true, if_false] <;> rfl)
        (by simp only [pollLoop, hq, hqn, if_true] <;> rfl)
    · have hqn : b.readable ≠ [] := fun hc => he ((readable_nil_iff b h).mp hc)
      have hne : (b.wi != b.ri) = true := by simp [he]
      have hb : ∀ s0 e n, f b.readable = .ok (some (s0, e, n)) → s0 ≤ e ∧ e ≤ n ∧ n ≤ b.readable.length :=
        fun s0 e n hx => hf _ _ _ _ hx
      have hdf := deframeM_eq oc f b h hb
      simp only [he, if_false] at hdf
      cases hfr : f b.readable with
      | error u =>
        rw [hfr] at hdf
        have hC : readFrameC oc f (fuel + 1) b s log = (b, s, log, .err EK_InvalidData) := by
          simp only [readFrameC, hne, if_true, hdf]
        have hA : pollLoop f (fuel + 1) b.abs (absR s lg) = (b.abs, absR s lg, .invalid) := by
          simp only [pollLoop, hq, hqn, if_false, hfr]
        rw [hC, hA]
        exact ⟨by simp [absRes, EK_InvalidData], rfl, ⟨lg, rfl⟩, h⟩
      | ok v =>
        cases v with
        | none =>
          rw [hfr] at hdf
          exact refine_tail oc f fuel b s log lg h hgood ih
            (readFrameC oc f (fuel + 1) b s log) (pollLoop f (fuel + 1) b.abs (absR s lg))
            (by simp only [readFrameC, hne, if_true, hdf] <;> rfl)
            (by simp only [pollLoop, hq, hqn, if_false, hfr] <;> rfl)
        | some t =>
          obtain ⟨s0, e, n⟩ := t
          rw [hfr] at hdf
          obtain ⟨hse, hen, hnl⟩ := hb s0 e n hfr
          have hn : n ≤ b.wi - b.ri := by omega
          have h1 := h.1
          have h2 := h.2.1
          have hsl : slice (b.consume n).mem (b.ri + s0) (b.ri + e) = .ok ((b.readable.take e).drop s0) := by
            rw [consume_mem, slice_ok _ _ _ (by omega) (by omega)]
            exact congrArg Outcome.ok (slice_of_window b.mem b.ri b.wi s0 e (by omega)).symm
          have hC : readFrameC oc f (fuel + 1) b s log = (b.consume n, s, log, .frame ((b.readable.take e).drop s0)) := by
            simp only [readFrameC, hne, if_true, hdf, hsl]
          have hA : pollLoop f (fuel + 1) b.abs (absR s lg) = (b.abs.consume n, absR s lg, .frame ((b.readable.take e).drop s0)) := by
            simp only [pollLoop, hq, hqn, if_false, hfr]
          rw [hC, hA]
          exact ⟨rfl, abs_consume b n h hn, ⟨lg, rfl⟩, consume_WInv b n h hn⟩

/-- hence everything proved about the abstract loop holds of the concrete one: e.g. with a contract-honouring deframer
    and an error-free chunk script the concrete `read_frame` model returns the chunking-free specification's answer -/
theorem readFrameC_spec (oc : Bool) {g : PDeframer} (hg : DeframerOK g) (b : Buf) (s : SRW) (log : List Call)
    (h : b.WInv) (hchunks : ∀ a ∈ s.racts, ∃ k scr, a = RAct.data k scr ∧ 0 < k) :
    absRes (readFrameC oc (liftDf g) (s.data.length + 1) b s log).2.2.2 = (specNext b.mem.length g (b.readable ++ s.data)).1 ∧
    (readFrameC oc (liftDf g) (s.data.length + 1) b s log).1.readable ++
      (readFrameC oc (liftDf g) (s.data.length + 1) b s log).2.1.data = (specNext b.mem.length g (b.readable ++ s.data)).2 := by
  have hgood : ∀ a ∈ s.racts, goodAct a = true := by
    intro a ha
    obtain ⟨k, scr, rfl, hk⟩ := hchunks a ha
    simp [goodAct, hk]
  have hf : BoundsOK (liftDf g) := by
    intro d s0 e n hx
    simp [liftDf] at hx
    have := hg.bounds d s0 e n hx
    exact ⟨this.1, this.2.1, this.2.2.2⟩
  obtain ⟨r1, r2, ⟨lg', r3⟩, _⟩ := readFrameC_refines oc (liftDf g) hf (s.data.length + 1) b s log [] h hgood
  have hinv : b.abs.Inv := by
    have hl := Buf.readable_length b h
    obtain ⟨h1, h2, _⟩ := h
    simp [AB.Inv, Buf.abs, hl]; omega
  have hall : (absR s []).acts.all (fun a => match a with | .chunk _ => true | _ => false) = true := by
    simp only [absR, List.all_eq_true, List.mem_map]
    rintro a ⟨x, hx, rfl⟩
    obtain ⟨k, scr, rfl, _⟩ := hchunks x hx
    rfl
  obtain ⟨h1, h2, ⟨k, hk⟩, h3⟩ := pollLoop_outcome hg (s.data.length + 1) b.abs (absR s []) hinv (by simp [absR])
  rcases h3 with ⟨a1, a2⟩ | ⟨a1, _, _⟩
  · refine ⟨by rw [r1]; exact a1, ?_⟩
    have hq : (readFrameC oc (liftDf g) (s.data.length + 1) b s log).1.readable =
        (pollLoop (liftDf g) (s.data.length + 1) b.abs (absR s [])).1.q := by rw [← r2]; rfl
    have hrem : (readFrameC oc (liftDf g) (s.data.length + 1) b s log).2.1.data =
        (pollLoop (liftDf g) (s.data.length + 1) b.abs (absR s [])).2.1.rem := by rw [r3]; rfl
    rw [hq, hrem]
    exact a2
  · exfalso
    simp only [List.all_eq_true] at hall
    rcases a1 with ⟨e, _, hm⟩ | ⟨_, _, hm⟩
    · have := hall _ hm; simp at this
    · have := hall _ hm; simp at this

end FBV

/- `step` for `try_parse`, as a case split usable by every property proof -/
import FBV.Lemmas.TryParse
import FBV.Lemmas.DfBounds
namespace FBV

theorem tryParse_panic_eq (oc : Bool) (ops : List RdOp) (sm : Bool) (b : Buf) :
    (tryParse oc ops sm b).2.isPanic = (runOps oc ops b).2.isPanic := by
  simp only [tryParse, bind_eq, M.bind, getB]
  generalize runOps oc ops b = r
  obtain ⟨b1, o⟩ := r
  cases o with
  | panic => rfl
  | ok u => cases sm <;> rfl

theorem tryParse_value (oc : Bool) (ops : List RdOp) (sm : Bool) (b b' : Buf) (r : Bool)
    (h : tryParse oc ops sm b = (b', .ok r)) : r = sm := by
  simp only [tryParse, bind_eq, M.bind, getB] at h
  generalize runOps oc ops b = x at h
  obtain ⟨b1, o⟩ := x
  cases o with
  | panic => simp at h
  | ok u => cases sm <;> simp at h <;> simp [h.2]

theorem scriptPanics_eq (oc : Bool) (ops : List RdOp) (sm : Bool) (b : Buf) (h : b.WInv) :
    (tryParse oc ops sm b).2.isPanic = scriptPanics b ops := by
  unfold scriptPanics
  rw [tryParse_panic_eq, tryParse_panic_eq, (runOps_spec oc ops b h).1]

theorem step_tryParse_cases (oc : Bool) (b : Buf) (ops : List RdOp) (sm : Bool) (h : b.WInv) :
    (scriptPanics b ops = true ∧ (step oc b (.tryParse ops sm)).2 = { cls := .panic } ∧
      SomeReads b (step oc b (.tryParse ops sm)).1) ∨
    (scriptPanics b ops = false ∧ (step oc b (.tryParse ops sm)).2 = { cls := if sm then .some else .none } ∧
      Reads b (step oc b (.tryParse ops sm)).1 (if sm then scriptConsumed (b.wi - b.ri) ops else 0) ∧
      (sm = false → (step oc b (.tryParse ops sm)).1 = b)) := by
  have hp := scriptPanics_eq oc ops sm b h
  have hs := (tryParse_spec oc ops sm b h).2
  simp only [step]
  unfold OkThen at hs
  generalize hx : tryParse oc ops sm b = x at hp hs
  obtain ⟨b', o⟩ := x
  cases o with
  | panic =>
    left
    exact ⟨by rw [← hp]; rfl, by simp [outOf], hs⟩
  | ok r =>
    right
    have := tryParse_value oc ops sm b b' r hx
    subst this
    refine ⟨by rw [← hp]; rfl, ?_, hs.1, hs.2⟩
    cases r <;> simp [outOf]

end FBV

/-
  Under the weak invariant every monadic, checked model function equals a closed
  pure expression, for BOTH settings of the overflow-check flag.  These equations
  are what the property theorems are proved from.
-/
import FBV.Model.Buf
import FBV.Lemmas.ListFacts
namespace FBV

/-- effect of consuming `n` unread bytes (with the rewind when that drains the buffer) -/
def Buf.consume (b : Buf) (n : Nat) : Buf :=
  if b.ri + n = b.wi then { b with ri := 0, wi := 0 } else { b with ri := b.ri + n }
def Buf.commit (b : Buf) (n : Nat) : Buf := { b with wi := b.wi + n }
def Buf.put (b : Buf) (d : List Byte) : Buf := { b with mem := writeAt b.mem b.wi d }
def Buf.shifted (b : Buf) : Buf :=
  if b.ri = 0 then b else { mem := writeAt b.mem 0 b.readable, ri := 0, wi := b.wi - b.ri }

@[simp] theorem M_ite_app {α : Type} (c : Prop) [Decidable c] (x y : M α) (b : Buf) :
    (if c then x else y) b = if c then x b else y b := by split <;> rfl

theorem Buf.readable_length (b : Buf) (h : b.WInv) : b.readable.length = b.wi - b.ri := by
  obtain ⟨h1, h2, _⟩ := h
  simp [Buf.readable]; omega

section
variable (oc : Bool)

theorem usizeSub_ok (a b : Nat) (h : b ≤ a) : usizeSub oc a b = .ok (a - b) := by simp [usizeSub, h]
theorem usizeAdd_ok (a b : Nat) (h : a + b < 2 ^ 64) : usizeAdd oc a b = .ok (a + b) := by simp [usizeAdd, h]
theorem slice_ok (s : List Byte) (a b : Nat) (h1 : a ≤ b) (h2 : b ≤ s.length) :
    slice s a b = .ok ((s.take b).drop a) := by
  have h1' : ¬ (b < a) := by omega
  have h2' : ¬ (s.length < b) := by omega
  simp [slice, h1', h2']

theorem lenM_eq (b : Buf) (h : b.WInv) : lenM oc b = (b, .ok (b.wi - b.ri)) := by
  simp [lenM, usizeSub_ok oc _ _ h.1]

theorem isEmptyM_eq (b : Buf) : isEmptyM b = (b, .ok (b.wi == b.ri)) := by simp [isEmptyM]

theorem readableM_eq (b : Buf) (h : b.WInv) : readableM b = (b, .ok b.readable) := by
  simp [readableM, slice_ok _ _ _ h.1 h.2.1, Buf.readable]

theorem writableM_eq (b : Buf) (h : b.WInv) : writableM b = (b, .ok (b.mem.drop b.wi)) := by
  simp [writableM, slice_ok _ _ _ h.2.1 (Nat.le_refl _)]

theorem clearM_eq (b : Buf) : clearM b = ({ b with ri := 0, wi := 0 }, .ok ()) := by simp [clearM]

theorem readBytes_eq (b : Buf) (n : Nat) (h : b.WInv) :
    readBytes oc n b = if n ≤ b.wi - b.ri then (b.consume n, .ok (b.readable.take n)) else (b, .panic) := by
  obtain ⟨h1, h2, h3⟩ := h
  have hs : usizeSub oc b.wi b.ri = .ok (b.wi - b.ri) := usizeSub_ok oc _ _ h1
  by_cases hn : n ≤ b.wi - b.ri
  · have ha : usizeAdd oc b.ri n = .ok (b.ri + n) := usizeAdd_ok oc _ _ (by omega)
    have hsl : slice b.mem b.ri (b.ri + n) = .ok (b.readable.take n) := by
      rw [slice_ok _ _ _ (by omega) (by omega), take_drop_take b.mem b.ri n b.wi (by omega)]; rfl
    have hn' : ¬ (b.wi - b.ri < n) := by omega
    by_cases hd : b.ri + n = b.wi
    · have hsl' := hsl; rw [hd] at hsl'
      simp [readBytes, lenM, hs, ha, hn, hn', hd, hsl', Buf.consume]
    · simp [readBytes, lenM, hs, ha, hn, hn', hd, hsl, Buf.consume]
  · have hn' : b.wi - b.ri < n := by omega
    simp [readBytes, lenM, hs, hn, hn']

theorem commit_zero (b : Buf) : b.commit 0 = b := by cases b; simp [Buf.commit]

theorem wrote_eq (b : Buf) (n : Nat) (h : b.WInv) :
    wrote oc n b = if n ≤ b.mem.length - b.wi then (b.commit n, .ok ()) else (b, .panic) := by
  obtain ⟨h1, h2, h3⟩ := h
  by_cases h0 : n = 0
  · subst h0; simp [wrote, commit_zero]
  · have hs : usizeSub oc b.mem.length b.wi = .ok (b.mem.length - b.wi) := usizeSub_ok oc _ _ h2
    by_cases hn : n ≤ b.mem.length - b.wi
    · have ha : usizeAdd oc b.wi n = .ok (b.wi + n) := usizeAdd_ok oc _ _ (by omega)
      have hn' : ¬ (b.mem.length - b.wi < n) := by omega
      simp [wrote, h0, hs, hn, hn', ha, Buf.commit]
    · have hn' : b.mem.length - b.wi < n := by omega
      simp [wrote, h0, hs, hn, hn']

theorem poke_eq (b : Buf) (d : List Byte) (h : b.WInv) :
    poke d b = if d.length ≤ b.mem.length - b.wi then (b.put d, .ok ()) else (b, .panic) := by
  have hw := writableM_eq b h
  by_cases hn : d.length ≤ b.mem.length - b.wi
  · have hn' : ¬ (b.mem.length - b.wi < d.length) := by omega
    simp [poke, hw, hn, hn', Buf.put]
  · have hn' : b.mem.length - b.wi < d.length := by omega
    simp [poke, hw, hn, hn']

theorem put_WInv (b : Buf) (d : List Byte) (h : b.WInv) (hd : d.length ≤ b.mem.length - b.wi) : (b.put d).WInv := by
  obtain ⟨h1, h2, h3⟩ := h
  have : (writeAt b.mem b.wi d).length = b.mem.length := writeAt_length _ _ _ (by omega)
  simp [Buf.put, Buf.WInv, this]; omega

theorem put_mem_length (b : Buf) (d : List Byte) (h : b.WInv) (hd : d.length ≤ b.mem.length - b.wi) :
    (b.put d).mem.length = b.mem.length := by
  have := h.2.1
  exact writeAt_length _ _ _ (by omega)

theorem writeBytes_eq (b : Buf) (d : List Byte) (h : b.WInv) :
    writeBytes oc d b =
      if d.length ≤ b.mem.length - b.wi then ((b.put d).commit d.length, .ok (some d.length)) else (b, .ok none) := by
  have hw := writableM_eq b h
  by_cases hn : d.length ≤ b.mem.length - b.wi
  · have hn' : ¬ (b.mem.length - b.wi < d.length) := by omega
    have hp := poke_eq b d h
    have hpi := put_WInv b d h hn
    have hwr := wrote_eq oc (b.put d) d.length hpi
    have hl := put_mem_length b d h hn
    have hn2 : d.length ≤ (b.put d).mem.length - (b.put d).wi := by rw [hl]; exact hn
    simp only [hn2, if_true] at hwr
    simp [writeBytes, hw, hn, hn', hp, hwr]
  · have hn' : b.mem.length - b.wi < d.length := by omega
    simp [writeBytes, hw, hn, hn']

theorem shiftM_eq (b : Buf) (h : b.WInv) : shiftM oc b = (b.shifted, .ok ()) := by
  obtain ⟨h1, h2, h3⟩ := h
  by_cases h0 : b.ri = 0
  · simp [shiftM, h0, Buf.shifted]
  · have hsl : slice b.mem b.ri b.wi = .ok b.readable := slice_ok _ _ _ h1 h2
    have hs : usizeSub oc b.wi b.ri = .ok (b.wi - b.ri) := usizeSub_ok oc _ _ h1
    simp [shiftM, h0, hsl, hs, Buf.shifted]

end

/-! ### effects on the invariant and on the unread bytes -/

theorem consume_WInv (b : Buf) (n : Nat) (h : b.WInv) (hn : n ≤ b.wi - b.ri) : (b.consume n).WInv := by
  obtain ⟨h1, h2, h3⟩ := h
  unfold Buf.consume; split <;> simp [Buf.WInv] <;> omega

theorem consume_Inv (b : Buf) (n : Nat) (h : b.WInv) (hn : n ≤ b.wi - b.ri) : (b.consume n).Inv := by
  refine ⟨consume_WInv b n h hn, ?_⟩
  unfold Buf.consume; split <;> simp <;> omega

theorem consume_mem (b : Buf) (n : Nat) : (b.consume n).mem = b.mem := by
  unfold Buf.consume; split <;> rfl

theorem consume_readable (b : Buf) (n : Nat) (h : b.WInv) (hn : n ≤ b.wi - b.ri) :
    (b.consume n).readable = b.readable.drop n := by
  obtain ⟨h1, h2, h3⟩ := h
  unfold Buf.consume; split
  · rename_i hd
    have : b.readable.length ≤ n := by rw [Buf.readable_length b ⟨h1, h2, h3⟩]; omega
    rw [List.drop_eq_nil_of_le this]; simp [Buf.readable]
  · simp [Buf.readable, List.drop_drop, Nat.add_comm]

theorem consume_len (b : Buf) (n : Nat) (hn : n ≤ b.wi - b.ri) :
    (b.consume n).wi - (b.consume n).ri = b.wi - b.ri - n := by
  unfold Buf.consume; split <;> simp <;> omega

theorem consume_free_ge (b : Buf) (n : Nat) (h : b.WInv) :
    b.mem.length - b.wi ≤ (b.consume n).mem.length - (b.consume n).wi := by
  unfold Buf.consume; split <;> simp <;> omega

theorem put_commit_WInv (b : Buf) (d : List Byte) (h : b.WInv) (hd : d.length ≤ b.mem.length - b.wi) :
    ((b.put d).commit d.length).WInv := by
  have hp := put_WInv b d h hd
  obtain ⟨h1, h2, h3⟩ := hp
  have hl := put_mem_length b d h hd
  simp only [Buf.WInv, Buf.commit] at *
  simp only [Buf.put] at *
  refine ⟨by omega, by omega, h3⟩

theorem put_readable (b : Buf) (d : List Byte) (h : b.WInv) : (b.put d).readable = b.readable := by
  simp [Buf.put, Buf.readable, writeAt_take _ _ _ h.2.1]

theorem put_commit_readable (b : Buf) (d : List Byte) (h : b.WInv) :
    ((b.put d).commit d.length).readable = b.readable ++ d := by
  obtain ⟨h1, h2, h3⟩ := h
  simp only [Buf.put, Buf.commit, Buf.readable]
  rw [writeAt_take_end _ _ _ h2, drop_take_append _ _ _ _ h1 h2]

theorem commit_readable (b : Buf) (n : Nat) (h : b.WInv) (hn : n ≤ b.mem.length - b.wi) :
    (b.commit n).readable = b.readable ++ (b.mem.take (b.wi + n)).drop b.wi := by
  obtain ⟨h1, h2, h3⟩ := h
  simp only [Buf.commit, Buf.readable]
  have e : b.mem.take (b.wi + n) = b.mem.take b.wi ++ (b.mem.take (b.wi + n)).drop b.wi := by
    have := List.take_append_drop b.wi (b.mem.take (b.wi + n))
    rw [List.take_take, Nat.min_eq_left (by omega)] at this
    exact this.symm
  conv => lhs; rw [e]
  rw [drop_take_append _ _ _ _ h1 h2]

theorem commit_WInv (b : Buf) (n : Nat) (h : b.WInv) (hn : n ≤ b.mem.length - b.wi) : (b.commit n).WInv := by
  obtain ⟨h1, h2, h3⟩ := h
  simp [Buf.WInv, Buf.commit]; omega

theorem shifted_WInv (b : Buf) (h : b.WInv) : b.shifted.WInv := by
  obtain ⟨h1, h2, h3⟩ := h
  unfold Buf.shifted; split
  · exact ⟨h1, h2, h3⟩
  · have hr := Buf.readable_length b ⟨h1, h2, h3⟩
    have : (writeAt b.mem 0 b.readable).length = b.mem.length := writeAt_length _ _ _ (by omega)
    simp [Buf.WInv, this]; omega

theorem shifted_readable (b : Buf) (h : b.WInv) : b.shifted.readable = b.readable := by
  obtain ⟨h1, h2, h3⟩ := h
  unfold Buf.shifted; split
  · rfl
  · have hr := Buf.readable_length b ⟨h1, h2, h3⟩
    have := writeAt_take_end b.mem 0 b.readable (Nat.zero_le _)
    simp only [Nat.zero_add, hr] at this
    show ((writeAt b.mem 0 b.readable).take (b.wi - b.ri)).drop 0 = b.readable
    rw [this]; simp

theorem shifted_ri (b : Buf) : b.shifted.ri = 0 := by
  unfold Buf.shifted; split <;> simp_all

theorem shifted_wi (b : Buf) : b.shifted.wi = b.wi - b.ri := by
  unfold Buf.shifted; split <;> simp_all

theorem shifted_mem_length (b : Buf) (h : b.WInv) : b.shifted.mem.length = b.mem.length := by
  obtain ⟨h1, h2, h3⟩ := h
  unfold Buf.shifted; split
  · rfl
  · have hr := Buf.readable_length b ⟨h1, h2, h3⟩
    exact writeAt_length _ _ _ (by omega)

end FBV

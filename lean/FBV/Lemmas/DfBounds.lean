/- every deframer the harness uses honours the bounds clause of the contract -/
import FBV.Props.C05
import FBV.Model.Step
import FBV.Lemmas.StepEq
namespace FBV

theorem dfLenPrefix_bounds (d : List Byte) (s e n : Nat) (h : dfLenPrefix d = some (s, e, n)) :
    s ≤ e ∧ e ≤ n ∧ 0 < n ∧ n ≤ d.length := by
  unfold dfLenPrefix at h
  cases d with
  | nil => cases h
  | cons x xs =>
    simp only at h
    split at h
    · cases h
    · simp at h; obtain ⟨rfl, rfl, rfl⟩ := h
      rename_i hl
      simp at hl ⊢; omega

theorem dfOf_bounds (f : DfId) (d : List Byte) (s e n : Nat) (h : dfOf f d = .ok (some (s, e, n))) :
    s ≤ e ∧ e ≤ n ∧ 0 < n ∧ n ≤ d.length := by
  cases f with
  | line => simp [dfOf] at h; exact C05.line_ok.bounds d s e n h
  | crlf => simp [dfOf] at h; exact C05.crlf_ok.bounds d s e n h
  | null => simp [dfOf] at h; exact C05.null_ok.bounds d s e n h
  | reject => simp [dfOf] at h
  | rejectX =>
    simp only [dfOf] at h
    split at h
    · cases h
    · simp at h; exact C05.line_ok.bounds d s e n h
  | lenPrefix => simp [dfOf] at h; exact dfLenPrefix_bounds d s e n h

/-- `deframe(f)` in closed form, for any deframer whose answer on the unread bytes is within bounds -/
theorem deframeM_eq (oc : Bool) (f : Deframer) (b : Buf) (h : b.WInv)
    (hb : ∀ s e n, f b.readable = .ok (some (s, e, n)) → s ≤ e ∧ e ≤ n ∧ n ≤ b.readable.length) :
    deframeM oc f b =
      if b.wi = b.ri then (b, .ok (.ok none))
      else match f b.readable with
        | .error u => (b, .ok (.error u))
        | .ok none => (b, .ok (.ok none))
        | .ok (some (s, e, n)) => (b.consume n, .ok (.ok (some (b.ri + s, b.ri + e, n)))) := by
  obtain ⟨h1, h2, h3⟩ := h
  have hl := Buf.readable_length b ⟨h1, h2, h3⟩
  by_cases he : b.wi = b.ri
  · simp [deframeM, isEmptyM_eq, he]
  · have he' : (b.wi == b.ri) = false := by simp [he]
    have hr := readableM_eq b ⟨h1, h2, h3⟩
    cases hf : f b.readable with
    | error u => simp [deframeM, isEmptyM_eq, he, hr, hf]
    | ok r =>
      cases r with
      | none => simp [deframeM, isEmptyM_eq, he, hr, hf]
      | some t =>
        obtain ⟨s, e, n⟩ := t
        obtain ⟨hse, hen, hnl⟩ := hb s e n hf
        rw [hl] at hnl
        have ha1 : usizeAdd oc b.ri s = .ok (b.ri + s) := usizeAdd_ok oc _ _ (by omega)
        have ha2 : usizeAdd oc b.ri e = .ok (b.ri + e) := usizeAdd_ok oc _ _ (by omega)
        simp [deframeM, isEmptyM_eq, he, hr, hf, ha1, ha2, readBytes_eq oc b n ⟨h1, h2, h3⟩, hnl]

theorem step_deframe (oc : Bool) (f : DfId) (b : Buf) (h : b.WInv) :
    step oc b (.deframe f) =
      if b.wi = b.ri then (b, { cls := .none })
      else match dfOf f b.readable with
        | .error _ => (b, { cls := .err EK_InvalidData })
        | .ok none => (b, { cls := .none })
        | .ok (some (s, e, n)) =>
          (b.consume n, { cls := .some, bytes := (b.readable.take e).drop s, nums := [b.ri + s, b.ri + e, n] }) := by
  have hb : ∀ s e n, dfOf f b.readable = .ok (some (s, e, n)) → s ≤ e ∧ e ≤ n ∧ n ≤ b.readable.length := by
    intro s e n hf; have := dfOf_bounds f _ s e n hf; exact ⟨this.1, this.2.1, this.2.2.2⟩
  have hl := Buf.readable_length b h
  simp only [step, deframeM_eq oc (dfOf f) b h hb]
  by_cases he : b.wi = b.ri
  · simp [he]
  · simp only [he, if_false]
    cases hf : dfOf f b.readable with
    | error u => simp
    | ok r =>
      cases r with
      | none => simp
      | some t =>
        obtain ⟨s, e, n⟩ := t
        obtain ⟨hse, hen, hnl⟩ := hb s e n hf
        obtain ⟨h1, h2, h3⟩ := h
        simp only [consume_mem]
        have hsl : slice b.mem (b.ri + s) (b.ri + e) = .ok ((b.readable.take e).drop s) := by
          rw [slice_ok _ _ _ (by omega) (by omega)]
          congr 1
          simp only [Buf.readable]
          rw [List.take_drop, List.take_take, List.drop_drop]
          congr 2
          · omega
        simp [hsl, outOf]

end FBV

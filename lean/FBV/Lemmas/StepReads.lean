/- every read-type call leaves the buffer as `b` or as `b.consume k` for some `k ≤ len` -/
import FBV.Lemmas.StepInv
namespace FBV

def isReadLike : Op → Bool
  | .readBytes _ | .tryReadBytes _ | .readByte | .tryReadByte | .readAll
  | .readAndCopy _ | .tryReadExact _ | .ioRead _ | .deframe _ | .tryParse _ _ => true
  | _ => false

theorem Reads.refl (b : Buf) : Reads b b 0 := Or.inl ⟨rfl, rfl⟩
theorem Reads.of_consume (b : Buf) (k : Nat) (hk : k ≤ b.wi - b.ri) : Reads b (b.consume k) k := Or.inr ⟨rfl, hk⟩

theorem step_reads (oc : Bool) (b : Buf) (op : Op) (h : b.WInv) (hr : isReadLike op = true) :
    ∃ k, Reads b (step oc b op).1 k := by
  have hl := Buf.readable_length b h
  cases op with
  | readBytes n =>
    rw [step_readBytes oc b n h]; split
    · rename_i hn; exact ⟨n, Reads.of_consume b n hn⟩
    · exact ⟨0, Reads.refl b⟩
  | tryReadBytes n =>
    rw [step_tryReadBytes oc b n h]; split
    · rename_i hn; exact ⟨n, Reads.of_consume b n hn⟩
    · exact ⟨0, Reads.refl b⟩
  | readByte =>
    rw [step_readByte oc b h]; split
    · rename_i hn; exact ⟨1, Reads.of_consume b 1 hn⟩
    · exact ⟨0, Reads.refl b⟩
  | tryReadByte =>
    rw [step_tryReadByte oc b h]; split
    · rename_i hn; exact ⟨1, Reads.of_consume b 1 hn⟩
    · exact ⟨0, Reads.refl b⟩
  | readAll => rw [step_readAll oc b h]; exact ⟨_, Reads.of_consume b _ (Nat.le_refl _)⟩
  | readAndCopy d =>
    rw [step_readAndCopy oc b d h]; split
    · exact ⟨0, Reads.refl b⟩
    · exact ⟨_, Reads.of_consume b _ (Nat.min_le_right _ _)⟩
  | ioRead d =>
    rw [step_ioRead oc b d h]; split
    · exact ⟨0, Reads.refl b⟩
    · exact ⟨_, Reads.of_consume b _ (Nat.min_le_right _ _)⟩
  | tryReadExact d =>
    rw [step_tryReadExact oc b d h]; split
    · rename_i hd
      by_cases h0 : d = 0
      · simp only [h0, if_true]; exact ⟨0, Reads.refl b⟩
      · simp only [h0, if_false]; exact ⟨d, Reads.of_consume b d hd⟩
    · exact ⟨0, Reads.refl b⟩
  | deframe f =>
    rw [step_deframe oc f b h]
    split
    · exact ⟨0, Reads.refl b⟩
    · cases hf : dfOf f b.readable with
      | error u => exact ⟨0, Reads.refl b⟩
      | ok r =>
        cases r with
        | none => exact ⟨0, Reads.refl b⟩
        | some t =>
          obtain ⟨s, e, n⟩ := t
          have hb := dfOf_bounds f _ s e n hf
          exact ⟨n, Reads.of_consume b n (by rw [← hl]; exact hb.2.2.2)⟩
  | tryParse ops sm =>
    rcases step_tryParse_cases oc b ops sm h with ⟨_, _, k, hr⟩ | ⟨_, _, hr, _⟩
    · exact ⟨k, hr⟩
    · exact ⟨_, hr⟩
  | _ => simp [isReadLike] at hr

/-- capacity facts about a read: free space never shrinks, unread count never grows,
    and a read that drains the buffer reclaims all of it -/
theorem Reads.capacity {b b' : Buf} {k : Nat} (h : b.WInv) (r : Reads b b' k) :
    b'.mem.length = b.mem.length ∧ b.mem.length - b.wi ≤ b'.mem.length - b'.wi ∧
    b'.wi - b'.ri ≤ b.wi - b.ri ∧ (0 < b.wi - b.ri → b'.wi - b'.ri = 0 → b'.wi = 0) := by
  rcases r with ⟨rfl, rfl⟩ | ⟨rfl, hk⟩
  · refine ⟨rfl, Nat.le_refl _, Nat.le_refl _, ?_⟩
    intro h1 h2; omega
  · obtain ⟨h1, h2, h3⟩ := h
    unfold Buf.consume
    split
    · simp
    · simp; omega

end FBV

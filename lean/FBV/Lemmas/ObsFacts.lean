/- what `obs` of a well-formed model state looks like -/
import FBV.Lemmas.StepTP
namespace FBV

theorem obs_consistent (b : Buf) (h : b.WInv) :
    decide (b.obs.ri ≤ b.obs.wi) = true ∧ (b.obs.wi - b.obs.ri == b.obs.rd.length) = true ∧
    (b.obs.empty == b.obs.rd.isEmpty) = true := by
  have hl := Buf.readable_length b h
  obtain ⟨h1, h2, h3⟩ := h
  refine ⟨by simp [Buf.obs, h1], by simp [Buf.obs, hl], ?_⟩
  simp only [Buf.obs]
  by_cases he : b.wi = b.ri
  · have : b.readable = [] := List.eq_nil_of_length_eq_zero (by omega)
    simp [he, this]
  · have : b.readable ≠ [] := by intro hc; rw [hc] at hl; simp at hl; omega
    have h2 : b.readable.isEmpty = false := by
      cases hr : b.readable with
      | nil => exact absurd hr this
      | cons _ _ => rfl
    simp [he, h2]

@[simp] theorem obs_rd (b : Buf) : b.obs.rd = b.readable := rfl
@[simp] theorem obs_ri (b : Buf) : b.obs.ri = b.ri := rfl
@[simp] theorem obs_wi (b : Buf) : b.obs.wi = b.wi := rfl
@[simp] theorem obs_mem (b : Buf) : b.obs.mem = b.mem := rfl

end FBV

/- the `read_frame` loop equals its chunking-free specification (abstract level) -/
import FBV.Spec.FrameSpec
namespace FBV

theorem g_nil {g : PDeframer} (hg : DeframerOK g) : g [] = none := by
  cases h : g [] with
  | none => rfl
  | some x =>
    obtain ⟨s, e, n⟩ := x
    have := hg.bounds _ _ _ _ h
    simp at this; omega

theorem g_prefix_none {g : PDeframer} (hg : DeframerOK g) (q rest : List Byte) (h : g q = none) (s e n : Nat)
    (ht : g (q ++ rest) = some (s, e, n)) : q.length < n := by
  apply Nat.lt_of_not_le
  intro hn
  have : g q = some (s, e, n) := hg.prefixDet (q ++ rest) q s e n ht (by simp [List.take_append_of_le_length hn])
  rw [h] at this; cases this

/-- what one reader call returns -/
theorem ard_read_parts (r : ARd) (d : Nat) :
    match r.read d with
    | (.data c, r') => c ++ r'.rem = r.rem ∧ c.length ≤ d ∧ (0 < d → (c = [] ↔ r.rem = [])) ∧ r'.acts = r.acts.tail
    | (.err e, r') => r'.rem = r.rem ∧ r.acts = .err e :: r'.acts
    | (.pending, r') => r'.rem = r.rem ∧ r.acts = .pending :: r'.acts := by
  unfold ARd.read
  cases hr : r.acts with
  | nil =>
    simp only
    refine ⟨by simp, by simp; omega, ?_, by simp⟩
    intro hd
    simp only [List.take_eq_nil_iff]
    constructor
    · rintro (h | h)
      · omega
      · exact h
    · intro h; exact Or.inr h
  | cons a as =>
    cases a with
    | chunk k =>
      simp only
      refine ⟨by simp, by simp; omega, ?_, by simp⟩
      intro hd
      simp only [List.take_eq_nil_iff]
      constructor
      · rintro (h | h)
        · omega
        · exact h
      · intro h; exact Or.inr h
    | err e => simp
    | pending => simp

/-- outcome of one call of the loop, for ANY reader script (chunks, errors, pendings):
    either the chunking-free specification's answer, or a reader error / pending that lost nothing -/
def LoopOutcome (g : PDeframer) (b : AB) (r : ARd) (out : AB × ARd × Res) : Prop :=
  out.1.Inv ∧ out.1.size = b.size ∧ (∃ k, out.2.1.acts = r.acts.drop k) ∧
  ((out.2.2 = (specNext b.size g (b.q ++ r.rem)).1 ∧ out.1.q ++ out.2.1.rem = (specNext b.size g (b.q ++ r.rem)).2) ∨
   (((∃ e, out.2.2 = .ioErr e ∧ Act.err e ∈ r.acts) ∨ (out.2.2 = .pending ∧ AtAwait g out.1 ∧ Act.pending ∈ r.acts)) ∧
      out.1.q ++ out.2.1.rem = b.q ++ r.rem ∧ out.2.1.acts.length < r.acts.length))

theorem pollLoop_outcome {g : PDeframer} (hg : DeframerOK g) :
    ∀ (fuel : Nat) (b : AB) (r : ARd), b.Inv → r.rem.length < fuel →
      LoopOutcome g b r (pollLoop (liftDf g) fuel b r) := by
  intro fuel
  induction fuel with
  | zero => intro b r _ h; omega
  | succ fuel ih =>
    intro b r hinv hfuel
    unfold AB.Inv at hinv
    cases hv : (if b.q = [] then (Except.ok none : Except Unit _) else liftDf g b.q) with
    | error u =>
      by_cases hq : b.q = [] <;> simp [hq, liftDf] at hv
    | ok v =>
      cases v with
      | some x =>
        obtain ⟨s, e, n⟩ := x
        have hq : b.q ≠ [] := by intro h; simp [h] at hv
        have hfq : g b.q = some (s, e, n) := by simpa [hq, liftDf] using hv
        obtain ⟨hse, hen, hn0, hnl⟩ := hg.bounds _ _ _ _ hfq
        have hft : g (b.q ++ r.rem) = some (s, e, n) :=
          hg.prefixDet b.q (b.q ++ r.rem) s e n hfq (by simp [List.take_append_of_le_length hnl])
        have hns : n ≤ b.size := by omega
        simp only [pollLoop, hv, LoopOutcome, specNext, hft, hns, if_true]
        refine ⟨?_, ?_, ⟨0, by simp⟩, Or.inl ⟨?_, ?_⟩⟩
        · unfold AB.consume AB.Inv
          split <;> simp <;> omega
        · unfold AB.consume; split <;> rfl
        · congr 1
          rw [List.take_append_of_le_length (by omega)]
        · unfold AB.consume
          split
          · rename_i h; simp [h]
          · simp [List.drop_append_of_le_length hnl]
      | none =>
        have hfq : g b.q = none := by
          by_cases hq : b.q = []
          · rw [hq]; exact g_nil hg
          · simpa [hq, liftDf] using hv
        simp only [pollLoop, hv]
        by_cases hfree : b.shift.free = 0
        · -- buffer full
          simp only [hfree, if_true, LoopOutcome]
          have hfull : b.q.length = b.size := by
            have : b.size - (0 + b.q.length) = 0 := hfree
            omega
          refine ⟨by simp [AB.Inv, AB.shift]; omega, rfl, ⟨0, by simp⟩, Or.inl ⟨?_, ?_⟩⟩
          · unfold specNext
            cases hft : g (b.q ++ r.rem) with
            | none =>
              have hsz : b.size ≤ b.q.length + r.rem.length := by omega
              simp [hsz]
            | some x =>
              obtain ⟨s, e, n⟩ := x
              have := g_prefix_none hg b.q r.rem hfq s e n hft
              have : ¬ n ≤ b.size := by omega
              simp [this]
          · unfold specNext
            cases hft : g (b.q ++ r.rem) with
            | none =>
              have hsz : b.size ≤ b.q.length + r.rem.length := by omega
              simp [hsz, AB.shift]
            | some x =>
              obtain ⟨s, e, n⟩ := x
              have := g_prefix_none hg b.q r.rem hfq s e n hft
              have : ¬ n ≤ b.size := by omega
              simp [this, AB.shift]
        · simp only [hfree, if_false, fromAwait]
          have hpos : 0 < b.shift.free := Nat.pos_of_ne_zero hfree
          have hparts := ard_read_parts r b.shift.free
          have hlt : ¬ b.size ≤ b.q.length := by
            have : 0 < b.size - (0 + b.q.length) := hpos
            omega
          have hinvs : b.shift.Inv := by simp [AB.Inv, AB.shift]; omega
          generalize hrd : r.read b.shift.free = rd at hparts
          obtain ⟨resp, r'⟩ := rd
          cases resp with
          | pending =>
            simp only at hparts
            simp only [LoopOutcome]
            have hat : AtAwait g b.shift := by
              refine ⟨rfl, ?_, hfree⟩
              by_cases hq : b.q = []
              · left; exact hq
              · right; exact hfq
            exact ⟨hinvs, rfl, ⟨1, by rw [hparts.2]; simp⟩,
              Or.inr ⟨Or.inr ⟨trivial, hat, by rw [hparts.2]; simp⟩, by simp [AB.shift, hparts.1], by rw [hparts.2]; simp⟩⟩
          | err e =>
            simp only at hparts
            simp only [LoopOutcome]
            exact ⟨hinvs, rfl, ⟨1, by rw [hparts.2]; simp⟩,
              Or.inr ⟨Or.inl ⟨e, rfl, by rw [hparts.2]; simp⟩, by simp [AB.shift, hparts.1], by rw [hparts.2]; simp⟩⟩
          | data c =>
            simp only at hparts
            obtain ⟨hsplit, hle, hnil, hacts⟩ := hparts
            by_cases hc : c = []
            · -- EOF
              have hrem : r.rem = [] := (hnil hpos).mp hc
              have hrem' : r'.rem = [] := by rw [hc, hrem] at hsplit; simpa using hsplit
              simp only [hc, if_true, LoopOutcome]
              refine ⟨hinvs, rfl, ⟨1, by rw [hacts]; simp⟩, Or.inl ⟨?_, ?_⟩⟩
              · simp only [specNext, hrem, List.append_nil, hfq, hlt, if_false, AB.shift]
                by_cases hq : b.q = [] <;> simp [hq]
              · rw [hrem']
                simp only [specNext, hrem, List.append_nil, hfq, hlt, if_false]
                by_cases hq : b.q = [] <;> simp [hq, AB.shift]
            · simp only [hc, if_false]
              have hlen : r'.rem.length < r.rem.length := by
                have : c.length > 0 := List.length_pos_iff.mpr hc
                have h2 := congrArg List.length hsplit
                simp at h2; omega
              have hinv' : (b.shift.append c).Inv := by
                simp [AB.Inv, AB.shift, AB.append, AB.free] at *; omega
              have := ih (b.shift.append c) r' hinv' (by omega)
              have ht : (b.shift.append c).q ++ r'.rem = b.q ++ r.rem := by
                show (b.q ++ c) ++ r'.rem = b.q ++ r.rem
                rw [List.append_assoc, hsplit]
              unfold LoopOutcome at this ⊢
              rw [ht] at this
              obtain ⟨h1, h2, ⟨k, hk⟩, h3⟩ := this
              have htail : ∀ a, a ∈ r'.acts → a ∈ r.acts := by
                intro a ha; rw [hacts] at ha; exact List.mem_of_mem_tail ha
              have hlenle : r'.acts.length ≤ r.acts.length := by rw [hacts]; simp
              refine ⟨h1, h2, ⟨k + 1, by rw [hk, hacts]; simp [List.drop_drop]⟩, ?_⟩
              rcases h3 with ⟨a1, a2⟩ | ⟨a1, a2, a3⟩
              · exact Or.inl ⟨a1, a2⟩
              · refine Or.inr ⟨?_, a2, by omega⟩
                rcases a1 with ⟨e, he, hm⟩ | ⟨hp, hat, hm⟩
                · exact Or.inl ⟨e, he, htail _ hm⟩
                · exact Or.inr ⟨hp, hat, htail _ hm⟩

end FBV

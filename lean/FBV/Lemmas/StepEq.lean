/-
  `step oc b op` in closed form for every call (under the weak invariant, both profiles).
-/
import FBV.Model.Step
import FBV.Lemmas.BufEq
namespace FBV

section
variable (oc : Bool)

def okN (n : Nat) : Out := { cls := .ok, nums := [n] }

theorem step_writeBytes (b : Buf) (d : List Byte) (h : b.WInv) :
    step oc b (.writeBytes d) =
      if d.length ≤ b.mem.length - b.wi then ((b.put d).commit d.length, { cls := .ok, nums := [d.length] })
      else (b, { cls := .refused }) := by
  simp only [step, writeBytes_eq oc b d h]; split <;> simp [outOf]

theorem step_writeStr (b : Buf) (d : List Byte) (h : b.WInv) :
    step oc b (.writeStr d) =
      if d.length ≤ b.mem.length - b.wi then ((b.put d).commit d.length, { cls := .ok })
      else (b, { cls := .refused }) := by
  simp only [step, writeBytes_eq oc b d h]; split <;> simp [outOf]

theorem step_ioWrite (b : Buf) (d : List Byte) (h : b.WInv) :
    step oc b (.ioWrite d) =
      if d.length ≤ b.mem.length - b.wi then ((b.put d).commit d.length, { cls := .ok, nums := [d.length] })
      else (b, { cls := .err EK_InvalidData }) := by
  simp only [step, writeBytes_eq oc b d h]; split <;> simp [outOf]

theorem step_readBytes (b : Buf) (n : Nat) (h : b.WInv) :
    step oc b (.readBytes n) =
      if n ≤ b.wi - b.ri then (b.consume n, { cls := .ok, bytes := b.readable.take n }) else (b, { cls := .panic }) := by
  simp only [step, readBytes_eq oc b n h]; split <;> simp [outOf]

theorem tryReadBytes_eq (b : Buf) (n : Nat) (h : b.WInv) :
    tryReadBytes oc n b =
      if n ≤ b.wi - b.ri then (b.consume n, .ok (some (b.readable.take n))) else (b, .ok none) := by
  by_cases hn : n ≤ b.wi - b.ri
  · have hn' : ¬ (b.wi - b.ri < n) := by omega
    simp [tryReadBytes, lenM_eq oc b h, hn, hn', readBytes_eq oc b n h]
  · have hn' : b.wi - b.ri < n := by omega
    simp [tryReadBytes, lenM_eq oc b h, hn, hn']

theorem step_tryReadBytes (b : Buf) (n : Nat) (h : b.WInv) :
    step oc b (.tryReadBytes n) =
      if n ≤ b.wi - b.ri then (b.consume n, { cls := .some, bytes := b.readable.take n }) else (b, { cls := .none }) := by
  simp only [step, tryReadBytes_eq oc b n h]; split <;> simp [outOf]

theorem take_one_of_pos (l : List Byte) (h : 0 < l.length) : ∃ x, l.take 1 = [x] := by
  cases l with
  | nil => simp at h
  | cons x xs => exact ⟨x, by simp⟩

theorem readByte_eq (b : Buf) (h : b.WInv) :
    readByte oc b =
      if 1 ≤ b.wi - b.ri then (b.consume 1, .ok (b.readable.headD 0)) else (b, .panic) := by
  by_cases hn : 1 ≤ b.wi - b.ri
  · have hl : 0 < b.readable.length := by rw [Buf.readable_length b h]; omega
    cases hr : b.readable with
    | nil => simp [hr] at hl
    | cons x xs => simp [readByte, readBytes_eq oc b 1 h, hn, hr]
  · simp [readByte, readBytes_eq oc b 1 h, hn]

theorem headD_take_one (l : List Byte) (h : 0 < l.length) : [l.head?.getD 0] = l.take 1 := by
  cases l with
  | nil => simp at h
  | cons x xs => simp

theorem step_readByte (b : Buf) (h : b.WInv) :
    step oc b .readByte =
      if 1 ≤ b.wi - b.ri then (b.consume 1, { cls := .ok, bytes := b.readable.take 1 }) else (b, { cls := .panic }) := by
  simp only [step, readByte_eq oc b h]
  by_cases hn : 1 ≤ b.wi - b.ri
  · have hl : 0 < b.readable.length := by rw [Buf.readable_length b h]; omega
    simp [hn, outOf, ← headD_take_one _ hl]
  · simp [hn, outOf]

theorem step_tryReadByte (b : Buf) (h : b.WInv) :
    step oc b .tryReadByte =
      if 1 ≤ b.wi - b.ri then (b.consume 1, { cls := .some, bytes := b.readable.take 1 }) else (b, { cls := .none }) := by
  have h1 := h.1
  by_cases hn : 1 ≤ b.wi - b.ri
  · have hl : 0 < b.readable.length := by rw [Buf.readable_length b h]; omega
    have hne : (b.wi == b.ri) = false := by simp; omega
    simp [step, tryReadByte, isEmptyM_eq, hne, readByte_eq oc b h, hn, outOf, ← headD_take_one _ hl]
  · have he : (b.wi == b.ri) = true := by simp; omega
    simp [step, tryReadByte, isEmptyM_eq, he, hn, outOf]

theorem step_readAll (b : Buf) (h : b.WInv) :
    step oc b .readAll = (b.consume (b.wi - b.ri), { cls := .ok, bytes := b.readable }) := by
  have hl := Buf.readable_length b h
  simp [step, readAll, lenM_eq oc b h, readBytes_eq oc b _ h, outOf, ← hl]

theorem readAndCopy_eq (b : Buf) (dest : List Byte) (h : b.WInv) :
    readAndCopy oc dest b =
      if min dest.length (b.wi - b.ri) = 0 then (b, .ok (0, dest))
      else (b.consume (min dest.length (b.wi - b.ri)),
            .ok (min dest.length (b.wi - b.ri),
                 b.readable.take (min dest.length (b.wi - b.ri)) ++ dest.drop (min dest.length (b.wi - b.ri)))) := by
  have hl := Buf.readable_length b h
  by_cases hk : min dest.length (b.wi - b.ri) = 0
  · have hk' : dest = [] ∨ b.readable = [] := by
      rcases Nat.min_eq_zero_iff.mp hk with h0 | h0
      · left; exact List.eq_nil_of_length_eq_zero h0
      · right; exact List.eq_nil_of_length_eq_zero (by omega)
    simp [readAndCopy, readableM_eq b h, hl, hk, hk']
  · have hk' : ¬ (dest = [] ∨ b.readable = []) := by
      intro hc
      apply hk
      rcases hc with h0 | h0
      · simp [h0]
      · have : b.wi - b.ri = 0 := by rw [← hl, h0]; rfl
        simp [this]
    have hsl : slice b.readable 0 (min dest.length (b.wi - b.ri)) = .ok (b.readable.take (min dest.length (b.wi - b.ri))) := by
      rw [slice_ok _ _ _ (Nat.zero_le _) (by rw [hl]; exact Nat.min_le_right _ _)]; simp
    have hle : min dest.length (b.wi - b.ri) ≤ b.wi - b.ri := Nat.min_le_right _ _
    have hlen : (b.readable.take (min dest.length (b.wi - b.ri))).length = min dest.length (b.wi - b.ri) := by
      simp [hl]
    simp [readAndCopy, readableM_eq b h, hl, hk, hk', hsl, readBytes_eq oc b _ h, hle, writeAt, hlen]

theorem step_readAndCopy (b : Buf) (d : Nat) (h : b.WInv) :
    step oc b (.readAndCopy d) =
      if min d (b.wi - b.ri) = 0 then (b, { cls := .ok, bytes := List.replicate d DEST_FILL, nums := [0] })
      else (b.consume (min d (b.wi - b.ri)),
            { cls := .ok, nums := [min d (b.wi - b.ri)],
              bytes := b.readable.take (min d (b.wi - b.ri)) ++ List.replicate (d - min d (b.wi - b.ri)) DEST_FILL }) := by
  simp only [step, readAndCopy_eq oc b _ h, List.length_replicate]
  split <;> simp [outOf]

theorem step_ioRead (b : Buf) (d : Nat) (h : b.WInv) :
    step oc b (.ioRead d) =
      if min d (b.wi - b.ri) = 0 then (b, { cls := .ok, bytes := List.replicate d DEST_FILL, nums := [0] })
      else (b.consume (min d (b.wi - b.ri)),
            { cls := .ok, nums := [min d (b.wi - b.ri)],
              bytes := b.readable.take (min d (b.wi - b.ri)) ++ List.replicate (d - min d (b.wi - b.ri)) DEST_FILL }) := by
  simp only [step, readAndCopy_eq oc b _ h, List.length_replicate]
  split <;> simp [outOf]

theorem step_tryReadExact (b : Buf) (d : Nat) (h : b.WInv) :
    step oc b (.tryReadExact d) =
      if d ≤ b.wi - b.ri then
        (if d = 0 then b else b.consume d, { cls := .some, bytes := b.readable.take d })
      else (b, { cls := .none, bytes := List.replicate d DEST_FILL }) := by
  by_cases hd : d ≤ b.wi - b.ri
  · have hd' : ¬ (b.wi - b.ri < d) := by omega
    have hm : min d (b.wi - b.ri) = d := Nat.min_eq_left hd
    by_cases h0 : d = 0
    · subst h0; simp [step, tryReadExact, lenM_eq oc b h, readAndCopy_eq oc b _ h, outOf]
    · simp [step, tryReadExact, lenM_eq oc b h, readAndCopy_eq oc b _ h, outOf, hd, hd', hm, h0]
  · have hd' : b.wi - b.ri < d := by omega
    simp [step, tryReadExact, lenM_eq oc b h, outOf, hd, hd']

theorem step_shift (b : Buf) (h : b.WInv) : step oc b .shift = (b.shifted, { cls := .ok }) := by
  simp [step, shiftM_eq oc b h, outOf]

theorem step_clear (b : Buf) : step oc b .clear = ({ b with ri := 0, wi := 0 }, { cls := .ok }) := by
  simp [step, clearM_eq, outOf]

theorem step_pokeWrote (b : Buf) (d : List Byte) (n : Nat) (h : b.WInv) :
    step oc b (.pokeWrote d n) =
      if n ≤ b.mem.length - b.wi then ((b.put (d.take (min d.length (b.mem.length - b.wi)))).commit n, { cls := .ok })
      else (b.put (d.take (min d.length (b.mem.length - b.wi))), { cls := .panic }) := by
  have hk : (d.take (min d.length (b.mem.length - b.wi))).length ≤ b.mem.length - b.wi := by
    simp; omega
  have hp := put_WInv b _ h hk
  have hl := put_mem_length b _ h hk
  have hw := wrote_eq oc _ n hp
  rw [hl] at hw
  simp only [step, poke_eq b _ h, hk, if_true]
  have : (b.put (d.take (min d.length (b.mem.length - b.wi)))).wi = b.wi := rfl
  rw [this] at hw
  simp only [hw]
  split <;> simp [outOf]

/-- the destination contents a scripted reader leaves behind -/
def cofDest (b : Buf) (bytes : List Byte) (scr : Bool) : List Byte :=
  bytes.take (min bytes.length (b.mem.length - b.wi)) ++
    (if scr then List.replicate (b.mem.length - b.wi) (0xEE : Byte) else b.mem.drop b.wi).drop (min bytes.length (b.mem.length - b.wi))

theorem cofDest_length (b : Buf) (bytes : List Byte) (scr : Bool) (h : b.WInv) :
    (cofDest b bytes scr).length = b.mem.length - b.wi := by
  have := h.2.1
  unfold cofDest; cases scr <;> simp <;> omega

theorem step_copyOnce (b : Buf) (resp : RdResp) (h : b.WInv) :
    step oc b (.copyOnce resp) =
      if b.mem.length - b.wi = 0 then (b, { cls := .err EK_InvalidData })
      else match resp with
        | .panic => (b, { cls := .panic })
        | .err k => (b, { cls := .err k, log := [b.mem.length - b.wi] })
        | .data bytes scr =>
          (((b.put (cofDest b bytes scr)).commit (min bytes.length (b.mem.length - b.wi))),
            { cls := .ok, nums := [min bytes.length (b.mem.length - b.wi)], log := [b.mem.length - b.wi] }) := by
  have hw := writableM_eq b h
  have h2 := h.2.1
  by_cases h0 : b.mem.length - b.wi = 0
  · have h0' : b.mem.length ≤ b.wi := by omega
    simp [step, copyOnceFrom, hw, h0, h0', outOf]
  · have h0' : ¬ b.mem.length ≤ b.wi := by omega
    cases resp with
    | panic => simp [step, copyOnceFrom, hw, h0, h0', outOf]
    | err k => simp [step, copyOnceFrom, hw, h0, h0', outOf]
    | data bytes scr =>
      have hcl := cofDest_length b bytes scr h
      have hp := put_WInv b (cofDest b bytes scr) h (by omega)
      have hl := put_mem_length b (cofDest b bytes scr) h (by omega)
      have hwr := wrote_eq oc (b.put (cofDest b bytes scr)) (min bytes.length (b.mem.length - b.wi)) hp
      rw [hl] at hwr
      have : (b.put (cofDest b bytes scr)).wi = b.wi := rfl
      rw [this] at hwr
      have hle : min bytes.length (b.mem.length - b.wi) ≤ b.mem.length - b.wi := Nat.min_le_right _ _
      simp only [hle, if_true] at hwr
      have hput : ({ mem := writeAt b.mem b.wi (cofDest b bytes scr), ri := b.ri, wi := b.wi } : Buf) = b.put (cofDest b bytes scr) := rfl
      simp [step, copyOnceFrom, hw, h0, h0', outOf]
      simp only [Buf.put, cofDest] at hwr ⊢
      rw [hwr]; simp

end
end FBV

/-
  Read scripts (`try_parse` closures): what any sequence of the buffer's read calls,
  including nested `try_parse`, does to the buffer — by structural induction over the
  nested script type (three theorems proved together).
-/
import FBV.Lemmas.StepEq
import FBV.Spec.SatT1
namespace FBV

/-- `b'` is `b` after consuming `k` unread bytes through read calls -/
def Reads (b b' : Buf) (k : Nat) : Prop := (b' = b ∧ k = 0) ∨ (b' = b.consume k ∧ k ≤ b.wi - b.ri)

theorem consume_consume (b : Buf) (k1 k2 : Nat) (h : b.WInv) (h1 : k1 ≤ b.wi - b.ri) (h2 : k2 ≤ b.wi - b.ri - k1) :
    (b.consume k1).consume k2 = b.consume (k1 + k2) := by
  obtain ⟨ha, hb, hc⟩ := h
  unfold Buf.consume
  by_cases hd : b.ri + k1 = b.wi
  · have : k2 = 0 := by omega
    subst this
    simp [hd]
  · by_cases hd2 : b.ri + (k1 + k2) = b.wi
    · have : b.ri + k1 + k2 = b.wi := by omega
      simp [hd, hd2, this]
    · have : ¬ (b.ri + k1 + k2 = b.wi) := by omega
      simp [hd, hd2, this, Nat.add_assoc]

theorem Reads.trans {b b1 b2 : Buf} {k1 k2 : Nat} (h : b.WInv) (r1 : Reads b b1 k1) (r2 : Reads b1 b2 k2) :
    Reads b b2 (k1 + k2) := by
  rcases r1 with ⟨rfl, rfl⟩ | ⟨rfl, hk1⟩
  · simpa using r2
  · rcases r2 with ⟨rfl, rfl⟩ | ⟨rfl, hk2⟩
    · right; exact ⟨by simp, by simpa using hk1⟩
    · right
      rw [consume_len b k1 hk1] at hk2
      exact ⟨consume_consume b k1 k2 h hk1 hk2, by omega⟩

theorem Reads.WInv {b b' : Buf} {k : Nat} (h : b.WInv) (r : Reads b b' k) : b'.WInv := by
  rcases r with ⟨rfl, _⟩ | ⟨rfl, hk⟩
  · exact h
  · exact consume_WInv b k h hk

theorem Reads.len {b b' : Buf} {k : Nat} (r : Reads b b' k) : b'.wi - b'.ri = b.wi - b.ri - k := by
  rcases r with ⟨rfl, rfl⟩ | ⟨rfl, hk⟩
  · simp
  · exact consume_len b k hk

theorem Reads.le {b b' : Buf} {k : Nat} (r : Reads b b' k) : k ≤ b.wi - b.ri := by
  rcases r with ⟨rfl, rfl⟩ | ⟨rfl, hk⟩
  · simp
  · exact hk

theorem Reads.mem {b b' : Buf} {k : Nat} (r : Reads b b' k) : b'.mem = b.mem := by
  rcases r with ⟨rfl, _⟩ | ⟨rfl, _⟩
  · rfl
  · exact consume_mem b k

theorem Reads.readable {b b' : Buf} {k : Nat} (h : b.WInv) (r : Reads b b' k) : b'.readable = b.readable.drop k := by
  rcases r with ⟨rfl, rfl⟩ | ⟨rfl, hk⟩
  · simp
  · exact consume_readable b k h hk

/-- where a panicking script leaves the buffer: some prefix of the unread bytes was consumed by the reads before it -/
def SomeReads (b b' : Buf) : Prop := ∃ k, Reads b b' k

theorem SomeReads.trans {b b1 b2 : Buf} {k : Nat} (h : b.WInv) (r1 : Reads b b1 k) (r2 : SomeReads b1 b2) : SomeReads b b2 := by
  obtain ⟨k2, hk2⟩ := r2
  exact ⟨k + k2, Reads.trans h r1 hk2⟩

/-- a run in `M` that ends normally leaves a state satisfying `R`; one that panics leaves one satisfying `Rp` -/
def OkThen {α : Type} (x : Buf × Outcome α) (R : Buf → Prop) (Rp : Buf → Prop) : Prop :=
  match x.2 with
  | .ok _ => R x.1
  | .panic => Rp x.1

theorem OkThen_bind {α β : Type} (x : M α) (f : α → M β) (b : Buf) (R Rp S Sp : Buf → Prop)
    (hx : OkThen (x b) R Rp) (hf : ∀ a b', R b' → OkThen (f a b') S Sp) (hp : ∀ b', Rp b' → Sp b') :
    OkThen (M.bind x f b) S Sp := by
  unfold OkThen at hx ⊢
  simp only [M.bind]
  generalize x b = r at hx
  obtain ⟨b', o⟩ := r
  cases o with
  | ok a => exact hf a b' hx
  | panic => exact hp b' hx

section
variable (oc : Bool)

/-- each basic read call: independent of the overflow-check flag, and `Reads` by the scripted amount -/
theorem runOp_basic (op : RdOp) (b : Buf) (h : b.WInv) (hb : ∀ ops sm, op ≠ .tryParse ops sm) :
    runOp oc op b = runOp true op b ∧
    OkThen (runOp oc op b) (fun b' => Reads b b' (scriptConsumed (b.wi - b.ri) [op])) (SomeReads b) := by
  have hl := Buf.readable_length b h
  have h00 : SomeReads b b := ⟨0, Or.inl ⟨rfl, rfl⟩⟩
  cases op with
  | tryParse ops sm => exact absurd rfl (hb ops sm)
  | readByte =>
    simp only [runOp, bind_eq, M.bind, readByte_eq _ b h, scriptConsumed]
    by_cases hn : 1 ≤ b.wi - b.ri
    · simp [hn, OkThen, Reads]
    · simpa [hn, OkThen] using h00
  | tryReadByte =>
    have e : ∀ oc, tryReadByte oc b = if 1 ≤ b.wi - b.ri then (b.consume 1, .ok (some (b.readable.headD 0))) else (b, .ok none) := by
      intro oc
      by_cases hn : 1 ≤ b.wi - b.ri
      · have hne : (b.wi == b.ri) = false := by simp; omega
        simp [tryReadByte, isEmptyM_eq, hne, readByte_eq oc b h, hn]
      · have he : (b.wi == b.ri) = true := by have := h.1; simp; omega
        simp [tryReadByte, isEmptyM_eq, he, hn]
    simp only [runOp, bind_eq, M.bind, e, scriptConsumed]
    by_cases hn : 1 ≤ b.wi - b.ri
    · have : 0 < b.wi - b.ri := by omega
      simp [hn, this, OkThen, Reads]
    · have : ¬ 0 < b.wi - b.ri := by omega
      simp [hn, this, OkThen, Reads]
  | readBytes n =>
    simp only [runOp, bind_eq, M.bind, readBytes_eq _ b n h, scriptConsumed]
    by_cases hn : n ≤ b.wi - b.ri
    · simp [hn, OkThen, Reads]
    · simpa [hn, OkThen] using h00
  | tryReadBytes n =>
    simp only [runOp, bind_eq, M.bind, tryReadBytes_eq _ b n h, scriptConsumed]
    by_cases hn : n ≤ b.wi - b.ri
    · simp [hn, OkThen, Reads]
    · simp [hn, OkThen, Reads]
  | readAndCopy d =>
    simp only [runOp, bind_eq, M.bind, readAndCopy_eq _ b _ h, scriptConsumed, List.length_replicate]
    by_cases hk : min d (b.wi - b.ri) = 0
    · simp [hk, OkThen, Reads]
    · have := Nat.min_le_right d (b.wi - b.ri)
      simp [hk, OkThen, Reads, this]
  | tryReadExact d =>
    have e : ∀ oc, tryReadExact oc (List.replicate d 0) b =
        if d ≤ b.wi - b.ri then ((if d = 0 then b else b.consume d), .ok (some (b.readable.take d ++ (List.replicate d (0:Byte)).drop d)))
        else (b, .ok none) := by
      intro oc
      by_cases hd : d ≤ b.wi - b.ri
      · have hd' : ¬ (b.wi - b.ri < d) := by omega
        have hm : min d (b.wi - b.ri) = d := Nat.min_eq_left hd
        by_cases h0 : d = 0
        · subst h0; simp [tryReadExact, lenM_eq oc b h, readAndCopy_eq oc b _ h]
        · simp [tryReadExact, lenM_eq oc b h, readAndCopy_eq oc b _ h, hd, hd', hm, h0]
      · have hd' : b.wi - b.ri < d := by omega
        simp [tryReadExact, lenM_eq oc b h, hd, hd']
    simp only [runOp, bind_eq, M.bind, e, scriptConsumed]
    by_cases hd : d ≤ b.wi - b.ri
    · by_cases h0 : d = 0
      · simp [hd, h0, OkThen, Reads]
      · simp [hd, h0, OkThen, Reads]
    · simp [hd, OkThen, Reads]
  | readAll =>
    have e : ∀ oc, readAll oc b = (b.consume (b.wi - b.ri), .ok b.readable) := by
      intro oc; simp [readAll, lenM_eq oc b h, readBytes_eq oc b _ h, ← hl]
    simp only [runOp, bind_eq, M.bind, e, scriptConsumed]
    simp [OkThen, Reads]

theorem scriptConsumed_single_tp (len : Nat) (ops : List RdOp) (sm : Bool) :
    scriptConsumed len [.tryParse ops sm] = if sm then scriptConsumed len ops else 0 := by
  simp [scriptConsumed]

theorem scriptConsumed_cons (len : Nat) (op : RdOp) (rest : List RdOp) :
    scriptConsumed len (op :: rest) =
      scriptConsumed len [op] + scriptConsumed (len - scriptConsumed len [op]) rest := by
  cases op <;> simp [scriptConsumed]

mutual
theorem runOp_spec : ∀ (op : RdOp) (b : Buf), b.WInv →
    runOp oc op b = runOp true op b ∧
    OkThen (runOp oc op b) (fun b' => Reads b b' (scriptConsumed (b.wi - b.ri) [op])) (SomeReads b)
  | .readByte, b, h => runOp_basic oc _ b h (by intros; simp)
  | .tryReadByte, b, h => runOp_basic oc _ b h (by intros; simp)
  | .readBytes _, b, h => runOp_basic oc _ b h (by intros; simp)
  | .tryReadBytes _, b, h => runOp_basic oc _ b h (by intros; simp)
  | .readAndCopy _, b, h => runOp_basic oc _ b h (by intros; simp)
  | .tryReadExact _, b, h => runOp_basic oc _ b h (by intros; simp)
  | .readAll, b, h => runOp_basic oc _ b h (by intros; simp)
  | .tryParse ops sm, b, h => by
    have ih := tryParse_spec ops sm b h
    refine ⟨?_, ?_⟩
    · simp only [runOp, bind_eq, M.bind, ih.1]
    · rw [scriptConsumed_single_tp]
      simp only [runOp, bind_eq]
      exact OkThen_bind _ _ b _ _ _ _ ih.2 (fun a b' hr => by simpa [OkThen] using hr.1) (fun _ hp => hp)
theorem runOps_spec : ∀ (ops : List RdOp) (b : Buf), b.WInv →
    runOps oc ops b = runOps true ops b ∧
    OkThen (runOps oc ops b) (fun b' => Reads b b' (scriptConsumed (b.wi - b.ri) ops)) (SomeReads b)
  | [], b, h => by simp [runOps, OkThen, Reads, scriptConsumed]
  | op :: rest, b, h => by
    have ih1 := runOp_spec op b h
    refine ⟨?_, ?_⟩
    · simp only [runOps, bind_eq, M.bind, ih1.1]
      have h2 := ih1.2
      rw [ih1.1] at h2
      unfold OkThen at h2
      generalize runOp true op b = r at h2
      obtain ⟨b1, o⟩ := r
      cases o with
      | panic => rfl
      | ok u => exact (runOps_spec rest b1 (Reads.WInv h h2)).1
    · rw [scriptConsumed_cons]
      simp only [runOps, bind_eq]
      refine OkThen_bind _ _ b _ _ _ _ ih1.2 ?_ (fun _ hp => hp)
      intro _ b1 hr
      have ih2 := (runOps_spec rest b1 (Reads.WInv h hr)).2
      rw [Reads.len hr] at ih2
      unfold OkThen at ih2 ⊢
      generalize runOps oc rest b1 = r at ih2
      obtain ⟨b2, o⟩ := r
      cases o with
      | panic => exact SomeReads.trans h hr ih2
      | ok u => exact Reads.trans h hr ih2
theorem tryParse_spec : ∀ (ops : List RdOp) (sm : Bool) (b : Buf), b.WInv →
    tryParse oc ops sm b = tryParse true ops sm b ∧
    OkThen (tryParse oc ops sm b)
      (fun b' => Reads b b' (if sm then scriptConsumed (b.wi - b.ri) ops else 0) ∧ (sm = false → b' = b)) (SomeReads b)
  | ops, sm, b, h => by
    have ih := runOps_spec ops b h
    refine ⟨?_, ?_⟩
    · simp only [tryParse, bind_eq, M.bind, getB, ih.1]
    · simp only [tryParse, bind_eq, M.bind, getB]
      have h2 := ih.2
      unfold OkThen at h2 ⊢
      generalize runOps oc ops b = r at h2
      obtain ⟨b1, o⟩ := r
      cases o with
      | panic => exact h2
      | ok u =>
        cases sm with
        | true => simpa using h2
        | false =>
          have hm := Reads.mem h2
          simp only [Bool.false_eq_true, if_false, M_ite_app, setB]
          have e : ({ mem := b1.mem, ri := b.ri, wi := b.wi } : Buf) = b := by
            cases b; cases b1; simp_all
          refine ⟨Or.inl ⟨?_, rfl⟩, fun _ => ?_⟩
          · simpa using e
          · simpa using e
end

end
end FBV

/- every call preserves the weak invariant (so it holds in every reachable state) -/
import FBV.Lemmas.ObsFacts
namespace FBV

theorem step_WInv (oc : Bool) (b : Buf) (op : Op) (h : b.WInv) : (step oc b op).1.WInv := by
  have hl := Buf.readable_length b h
  cases op with
  | writeBytes d =>
    rw [step_writeBytes oc b d h]; split
    · rename_i hd; exact put_commit_WInv b d h hd
    · exact h
  | writeStr d =>
    rw [step_writeStr oc b d h]; split
    · rename_i hd; exact put_commit_WInv b d h hd
    · exact h
  | ioWrite d =>
    rw [step_ioWrite oc b d h]; split
    · rename_i hd; exact put_commit_WInv b d h hd
    · exact h
  | ioFlush => exact h
  | pokeWrote d n =>
    rw [step_pokeWrote oc b d n h]
    have hk : (d.take (min d.length (b.mem.length - b.wi))).length ≤ b.mem.length - b.wi := by simp; omega
    have hp := put_WInv b _ h hk
    have hml := put_mem_length b _ h hk
    split
    · rename_i hn; exact commit_WInv _ n hp (by rw [hml]; exact hn)
    · exact hp
  | copyOnce resp =>
    rw [step_copyOnce oc b resp h]
    split
    · exact h
    · cases resp with
      | panic => exact h
      | err k => exact h
      | data bytes scr =>
        have hcl := cofDest_length b bytes scr h
        have hp := put_WInv b (cofDest b bytes scr) h (by omega)
        have hml := put_mem_length b (cofDest b bytes scr) h (by omega)
        exact commit_WInv _ _ hp (by rw [hml]; exact Nat.min_le_right _ _)
  | readBytes n =>
    rw [step_readBytes oc b n h]; split
    · rename_i hn; exact consume_WInv b n h hn
    · exact h
  | tryReadBytes n =>
    rw [step_tryReadBytes oc b n h]; split
    · rename_i hn; exact consume_WInv b n h hn
    · exact h
  | readByte =>
    rw [step_readByte oc b h]; split
    · rename_i hn; exact consume_WInv b 1 h hn
    · exact h
  | tryReadByte =>
    rw [step_tryReadByte oc b h]; split
    · rename_i hn; exact consume_WInv b 1 h hn
    · exact h
  | readAll => rw [step_readAll oc b h]; exact consume_WInv b _ h (Nat.le_refl _)
  | readAndCopy d =>
    rw [step_readAndCopy oc b d h]; split
    · exact h
    · exact consume_WInv b _ h (Nat.min_le_right _ _)
  | ioRead d =>
    rw [step_ioRead oc b d h]; split
    · exact h
    · exact consume_WInv b _ h (Nat.min_le_right _ _)
  | tryReadExact d =>
    rw [step_tryReadExact oc b d h]; split
    · rename_i hd
      by_cases h0 : d = 0
      · simp [h0]; exact h
      · simp only [h0, if_false]; exact consume_WInv b d h hd
    · exact h
  | shift => rw [step_shift oc b h]; exact shifted_WInv b h
  | clear => rw [step_clear oc b]; exact ⟨Nat.le_refl _, Nat.zero_le _, h.2.2⟩
  | deframe f =>
    rw [step_deframe oc f b h]
    split
    · exact h
    · cases hf : dfOf f b.readable with
      | error u => exact h
      | ok r =>
        cases r with
        | none => exact h
        | some t =>
          obtain ⟨s, e, n⟩ := t
          have hb := dfOf_bounds f _ s e n hf
          exact consume_WInv b n h (by rw [← hl]; exact hb.2.2.2)
  | tryParse ops sm =>
    rcases step_tryParse_cases oc b ops sm h with ⟨_, _, k, hr⟩ | ⟨_, _, hr, _⟩
    · exact Reads.WInv h hr
    · exact Reads.WInv h hr

theorem new_WInv (n : Nat) (h : n < 2 ^ 63) : (Buf.new n).WInv := by simp [Buf.new, Buf.WInv, h]
theorem empty_WInv (m : List Byte) (h : m.length < 2 ^ 63) : (Buf.empty m).WInv := by simp [Buf.empty, Buf.WInv, h]
theorem filled_WInv (m : List Byte) (h : m.length < 2 ^ 63) : (Buf.filled m).WInv := by simp [Buf.filled, Buf.WInv, h]

/-- a finite history of public calls -/
def runOpsFrom (oc : Bool) : Buf → List Op → Buf
  | b, [] => b
  | b, op :: rest => runOpsFrom oc (step oc b op).1 rest

theorem reachable_WInv (oc : Bool) (b : Buf) (ops : List Op) (h : b.WInv) : (runOpsFrom oc b ops).WInv := by
  induction ops generalizing b with
  | nil => exact h
  | cons op rest ih => exact ih _ (step_WInv oc b op h)

end FBV

/-
  C04 — panic contract: only the documented panics, in every profile, without side effects.
  `step_sat` is stated for BOTH values of the overflow-check flag `oc` and for every count
  argument (a `Nat`, so in particular every value up to usize::MAX): `read_byte`/`read_bytes(n)`
  panic iff `n > len()`, `wrote(n)` iff `n > writable().len()`, nothing else panics (collaborators
  that honour their contracts), and a panicking call leaves indices and unread bytes unchanged.
  `Legacy` below keeps the pre-repair `read_bytes`/`wrote` as the formal record of the defect
  that was found on the unchanged tree (and fixed in /repo by a `fix:` commit).
-/
import FBV.Lemmas.StepReads
namespace FBV.C04
open FBV

theorem unchanged_self (b : Buf) : (sameIdx b b.obs && b.obs.rd == b.readable) = true := by simp [sameIdx]

theorem step_sat (oc : Bool) (b : Buf) (op : Op) (h : b.WInv) :
    Sat_C04 b op (step oc b op).2 (step oc b op).1.obs = true := by
  have hl := Buf.readable_length b h
  cases op with
  | writeBytes d => rw [step_writeBytes oc b d h]; split <;> simp [Sat_C04]
  | writeStr d => rw [step_writeStr oc b d h]; split <;> simp [Sat_C04]
  | ioWrite d => rw [step_ioWrite oc b d h]; split <;> simp [Sat_C04]
  | ioFlush => simp [step, Sat_C04]
  | pokeWrote d n =>
    rw [step_pokeWrote oc b d n h]
    split
    · rename_i hn
      have : ¬ b.free < n := by simp [Buf.free]; omega
      simp [Sat_C04, this]
    · rename_i hn
      have : b.free < n := by simp [Buf.free]; omega
      have hp := put_readable b (d.take (min d.length (b.mem.length - b.wi))) h
      simp only [Sat_C04, this, if_true, sameIdx, obs_ri, obs_wi, obs_rd, hp]
      simp [Buf.put]
  | copyOnce resp =>
    rw [step_copyOnce oc b resp h]
    split
    · rename_i h0
      have : ¬ 0 < b.free := by simp [Buf.free]; omega
      cases resp <;> simp [Sat_C04, this]
    · rename_i h0
      have hpos : 0 < b.free := by simp [Buf.free]; omega
      cases resp with
      | panic => simp [Sat_C04, hpos, Obs.len, Buf.len, Buf.obs, h.1, h.2.1]
      | err k => simp [Sat_C04]
      | data bytes scr => simp [Sat_C04]
  | readBytes n =>
    rw [step_readBytes oc b n h]
    split
    · rename_i hn
      have : ¬ b.len < n := by simp [Buf.len]; omega
      simp [Sat_C04, this]
    · rename_i hn
      have : b.len < n := by simp [Buf.len]; omega
      simp [Sat_C04, this, sameIdx]
  | tryReadBytes n => rw [step_tryReadBytes oc b n h]; split <;> simp [Sat_C04]
  | readByte =>
    rw [step_readByte oc b h]
    split
    · rename_i hn
      have : ¬ b.len < 1 := by simp [Buf.len]; omega
      simp [Sat_C04, this]
    · rename_i hn
      have : b.len < 1 := by simp [Buf.len]; omega
      simp [Sat_C04, this, sameIdx]
  | tryReadByte => rw [step_tryReadByte oc b h]; split <;> simp [Sat_C04]
  | readAll => rw [step_readAll oc b h]; simp [Sat_C04]
  | readAndCopy d => rw [step_readAndCopy oc b d h]; split <;> simp [Sat_C04]
  | ioRead d => rw [step_ioRead oc b d h]; split <;> simp [Sat_C04]
  | tryReadExact d => rw [step_tryReadExact oc b d h]; split <;> simp [Sat_C04]
  | shift => rw [step_shift oc b h]; simp [Sat_C04]
  | clear => rw [step_clear oc b]; simp [Sat_C04]
  | deframe f =>
    rw [step_deframe oc f b h]
    split
    · simp [Sat_C04]
    · cases hf : dfOf f b.readable with
      | error u => simp [Sat_C04]
      | ok r =>
        cases r with
        | none => simp [Sat_C04]
        | some t => obtain ⟨s, e, n⟩ := t; simp [Sat_C04]
  | tryParse ops sm =>
    rcases step_tryParse_cases oc b ops sm h with ⟨hp, _, _⟩ | ⟨hp, ho, _⟩
    · simp [Sat_C04, hp]
    · rw [ho]; cases sm <;> simp [Sat_C04, hp]

/-- the same, spelled out for the three documented panics: for every `n` (no bound), both profiles -/
theorem read_bytes_contract (oc : Bool) (b : Buf) (n : Nat) (h : b.WInv) :
    ((step oc b (.readBytes n)).2.cls = .panic ↔ b.len < n) ∧
    (b.len < n → (step oc b (.readBytes n)).1 = b) := by
  rw [step_readBytes oc b n h]
  by_cases hn : n ≤ b.wi - b.ri
  · have : ¬ b.len < n := by simp [Buf.len]; omega
    simp [hn, this]
  · have : b.len < n := by simp [Buf.len]; omega
    simp [hn, this]

theorem wrote_contract (oc : Bool) (b : Buf) (n : Nat) (h : b.WInv) :
    ((step oc b (.pokeWrote [] n)).2.cls = .panic ↔ b.free < n) ∧
    (b.free < n → (step oc b (.pokeWrote [] n)).1 = b) := by
  rw [step_pokeWrote oc b [] n h]
  have hp : b.put [] = b := by cases b; simp [Buf.put, writeAt_nil]
  by_cases hn : n ≤ b.mem.length - b.wi
  · have : ¬ b.free < n := by simp [Buf.free]; omega
    simp [hn, this]
  · have : b.free < n := by simp [Buf.free]; omega
    simp [hn, this, hp]

/-! ### the defect found on the unchanged tree, as theorems about the pre-repair functions -/
namespace Legacy

/-- `read_bytes` as it was: adds first, compares afterwards -/
def readBytesLegacy (oc : Bool) (n : Nat) : M (List Byte) := do
  let b ← getB
  let nri ← liftO (usizeAdd oc b.ri n)
  if ¬ (nri ≤ b.wi) then panicM else
  let old := b.ri
  setB { b with ri := nri }
  let b ← getB
  (if b.ri = b.wi then setB { b with ri := 0, wi := 0 } else pure ())
  let b ← getB
  liftO (slice b.mem old nri)

/-- `wrote` as it was -/
def wroteLegacy (oc : Bool) (n : Nat) : M Unit := do
  if n = 0 then pure () else
  let b ← getB
  let nwi ← liftO (usizeAdd oc b.wi n)
  if ¬ (nwi ≤ b.mem.length) then panicM else
  setB { b with wi := nwi }

def abc8 : Buf := { mem := [97, 98, 99, 0, 0, 0, 0, 0], ri := 0, wi := 3 }

/-- release profile: `wrote(usize::MAX)` silently succeeds and un-commits a byte -/
theorem legacy_wrote_silently_succeeds :
    wroteLegacy false (2 ^ 64 - 1) abc8 = ({ abc8 with wi := 2 }, .ok ()) := by decide

/-- release profile: `read_bytes(usize::MAX)` after one read un-consumes the byte before panicking -/
theorem legacy_read_bytes_unconsumes :
    (readBytesLegacy false (2 ^ 64 - 1) { abc8 with ri := 1 }).1 = { abc8 with ri := 0 } ∧
    (readBytesLegacy false (2 ^ 64 - 1) { abc8 with ri := 1 }).2.isPanic = true := by
  refine ⟨by decide, by decide⟩

/-- with overflow checks on, the legacy code panicked cleanly: the dev-profile half of the contract (`C04_partial`) -/
theorem legacy_wrote_dev_panics : (wroteLegacy true (2 ^ 64 - 1) abc8) = (abc8, .panic) := by decide

end Legacy

/-! ### non-vacuity -/
example : ({ mem := [97, 98, 99, 0], ri := 1, wi := 3 } : Buf).WInv := by decide
example : (step false { mem := [97, 98, 99, 0], ri := 1, wi := 3 } (.readBytes (2 ^ 64 - 1))).2.cls = .panic := by decide
example : (step false { mem := [97, 98, 99, 0], ri := 1, wi := 3 } (.pokeWrote [] (2 ^ 64 - 1))).1 =
    { mem := [97, 98, 99, 0], ri := 1, wi := 3 } := by decide

end FBV.C04

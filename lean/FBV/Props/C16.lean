/-
  C16 — async chain and take behave like the blocking ones under every Pending pattern.
  For ARBITRARY `AsyncRead` implementations (any state, any placement of Pending, errors, short fills)
  and every ReadBuf (any pre-filled prefix, any remaining capacity incl. none).
-/
import FBV.Model.Async
import FBV.Model.Adapters
namespace FBV.C16
open FBV

variable {σ₁ σ₂ σ : Type}

def Rel (c : AChain σ₁ σ₂) (tc : TokChain σ₁ σ₂) : Prop :=
  c.second = tc.second ∧
  match c.first with
  | some s1 => tc.doneFirst = false ∧ tc.first = s1
  | none => tc.doneFirst = true

/-- poll for poll what tokio's `chain()` returns — for every ReadBuf, also one without remaining capacity — provided the
    first stream honours `poll_read`'s contract (it only appends) -/
theorem chain_bisim (r1 : AReader σ₁) (r2 : AReader σ₂) (h1 : AReaderOK r1) (c : AChain σ₁ σ₂) (tc : TokChain σ₁ σ₂)
    (rb : ReadBuf) (hrb : rb.filled ≤ rb.buf.length) (h : Rel c tc) :
    (AChain.pollRead r1 r2 c rb).2 = (TokChain.pollRead r1 r2 tc rb).2 ∧
    Rel (AChain.pollRead r1 r2 c rb).1 (TokChain.pollRead r1 r2 tc rb).1 := by
  obtain ⟨h2, hf⟩ := h
  cases hfirst : c.first with
  | none =>
    simp only [hfirst] at hf
    simp [AChain.pollRead, TokChain.pollRead, hfirst, hf, h2, Rel]
  | some s1 =>
    simp only [hfirst] at hf
    obtain ⟨hd, hs⟩ := hf
    obtain ⟨hlen, hge, hle, _, _⟩ := h1 s1 rb hrb
    simp only [AChain.pollRead, TokChain.pollRead, hfirst, hd, hs, Bool.not_false, if_true]
    rcases hr : r1 s1 rb with ⟨s1', res, rb'⟩
    rw [hr] at hlen hge hle
    simp only at hlen hge hle
    cases res with
    | pending => simp [Rel, h2, hd]
    | ready e =>
      cases e with
      | error k => simp [Rel, h2, hd]
      | ok u =>
        -- "no bytes were added and there was room" is the same test in both
        have hiff : (rb'.filled - rb.filled > 0 ∨ rb.remaining = 0) ↔ ¬ (rb'.remaining = rb.remaining ∧ rb.remaining ≠ 0) := by
          simp only [ReadBuf.remaining, hlen]
          constructor
          · rintro (hp | hz) ⟨he, hn⟩
            · omega
            · exact hn hz
          · intro hn
            by_cases hz : rb.buf.length - rb.filled = 0
            · right; exact hz
            · left
              have : ¬ (rb.buf.length - rb'.filled = rb.buf.length - rb.filled) := fun he => hn ⟨he, hz⟩
              omega
        by_cases hc : rb'.filled - rb.filled > 0 ∨ rb.remaining = 0
        · have hn := hiff.mp hc
          simp [hc, hn, Rel, h2, hd]
        · have hn : rb'.remaining = rb.remaining ∧ rb.remaining ≠ 0 := by
            apply Classical.byContradiction; intro hx; exact hc (hiff.mpr hx)
          obtain ⟨hc1, hc2⟩ := not_or.mp hc
          have hc1' : ¬ (0 < rb'.filled - rb.filled) := hc1
          simp [hc1', hc2, hn.1, Rel, h2]

/-- Pending only if a stream polled during this call returned Pending; and then the chain has not switched
    and `second`... is untouched when it was `first` that pended -/
theorem chain_pending_only_from_inner (r1 : AReader σ₁) (r2 : AReader σ₂) (c : AChain σ₁ σ₂) (rb : ReadBuf)
    (hp : (AChain.pollRead r1 r2 c rb).2.1 = .pending) :
    (∃ s1, c.first = some s1 ∧ (r1 s1 rb).2.1 = .pending ∧ (AChain.pollRead r1 r2 c rb).1.second = c.second ∧
        (AChain.pollRead r1 r2 c rb).1.first = some (r1 s1 rb).1) ∨
    (∃ rb0, (r2 c.second rb0).2.1 = .pending) := by
  cases hf : c.first with
  | none =>
    right
    simp only [AChain.pollRead, hf] at hp
    exact ⟨rb, hp⟩
  | some s1 =>
    simp only [AChain.pollRead, hf] at hp ⊢
    rcases hr : r1 s1 rb with ⟨s1', res, rb'⟩
    rw [hr] at hp
    cases res with
    | pending => left; exact ⟨s1, rfl, by simp [hr], by simp, by simp [hr]⟩
    | ready e =>
      cases e with
      | error k => simp at hp
      | ok u =>
        simp only at hp
        by_cases hc : rb'.filled - rb.filled > 0 ∨ rb.remaining = 0
        · simp [hc] at hp
        · simp only [hc, if_false] at hp
          right; exact ⟨rb', hp⟩

/-- the chain writes only into the unfilled part and never un-fills: for contract-honouring streams the already filled
    bytes are intact after any poll -/
theorem chain_keeps_filled (r1 : AReader σ₁) (r2 : AReader σ₂) (h1 : AReaderOK r1) (h2 : AReaderOK r2)
    (c : AChain σ₁ σ₂) (rb : ReadBuf) (hrb : rb.filled ≤ rb.buf.length) :
    (AChain.pollRead r1 r2 c rb).2.2.buf.take rb.filled = rb.buf.take rb.filled ∧
    rb.filled ≤ (AChain.pollRead r1 r2 c rb).2.2.filled := by
  cases hf : c.first with
  | none =>
    obtain ⟨_, hge, _, hk, _⟩ := h2 c.second rb hrb
    simp only [AChain.pollRead, hf]
    exact ⟨hk, hge⟩
  | some s1 =>
    obtain ⟨hlen, hge, hle, hk, _⟩ := h1 s1 rb hrb
    simp only [AChain.pollRead, hf]
    rcases hr : r1 s1 rb with ⟨s1', res, rb'⟩
    rw [hr] at hlen hge hle hk
    simp only at hlen hge hle hk
    cases res with
    | pending => exact ⟨hk, hge⟩
    | ready e =>
      cases e with
      | error k => exact ⟨hk, hge⟩
      | ok u =>
        simp only
        by_cases hc : rb'.filled - rb.filled > 0 ∨ rb.remaining = 0
        · simp only [hc, if_true]; exact ⟨hk, hge⟩
        · simp only [hc, if_false]
          obtain ⟨_, hge2, _, hk2, _⟩ := h2 c.second rb' (by rw [hlen]; exact hle)
          refine ⟨?_, Nat.le_trans hge hge2⟩
          have := congrArg (List.take rb.filled) hk2
          simp only [List.take_take, Nat.min_eq_left hge] at this
          rw [this, hk]

/-! ### take -/

/-- the inner stream is never shown more than the remaining allowance of space -/
theorem take_exposes_at_most_remaining (t : ATake σ) (rb : ReadBuf) :
    (rb.sub (min t.remaining rb.remaining)).remaining ≤ t.remaining ∧
    (rb.sub (min t.remaining rb.remaining)).filled = 0 := by
  simp only [ReadBuf.sub, ReadBuf.remaining, List.length_take, List.length_drop]
  exact ⟨by omega, trivial⟩

/-- allowance used up: Ready(Ok) without polling the inner stream -/
theorem take_at_zero (oc : Bool) (r : AReader σ) (t : ATake σ) (rb : ReadBuf) (h : t.remaining = 0) :
    ATake.pollRead oc r t rb = (t, .ok (.ready (.ok ()), rb)) := by
  simp [ATake.pollRead, h]

/-- Pending / Err debit nothing and add nothing; Pending only if the inner stream was Pending -/
theorem take_pending_loses_nothing (oc : Bool) (r : AReader σ) (t : ATake σ) (rb : ReadBuf) (res : PollRes) (rb' : ReadBuf) (t' : ATake σ)
    (h : ATake.pollRead oc r t rb = (t', .ok (res, rb'))) (hne : res ≠ .ready (.ok ())) :
    t'.remaining = t.remaining ∧ rb'.filled = rb.filled ∧
    (res = .pending → (r t.inner (rb.sub (min t.remaining rb.remaining))).2.1 = .pending) := by
  by_cases h0 : t.remaining = 0
  · simp [ATake.pollRead, h0] at h
    obtain ⟨_, rfl, _⟩ := h
    exact absurd rfl hne
  · simp only [ATake.pollRead, h0, if_false] at h
    rcases hr : r t.inner (rb.sub (min t.remaining rb.remaining)) with ⟨s', ires, sub'⟩
    rw [hr] at h
    cases ires with
    | pending =>
      simp at h
      obtain ⟨rfl, rfl, rfl⟩ := h
      exact ⟨rfl, by simp [ReadBuf.merge], fun _ => rfl⟩
    | ready e =>
      cases e with
      | error k =>
        simp at h
        obtain ⟨rfl, rfl, rfl⟩ := h
        exact ⟨rfl, by simp [ReadBuf.merge], fun hc => by cases hc⟩
      | ok u =>
        simp only at h
        cases hs : usizeSub oc t.remaining sub'.filled with
        | panic => simp [hs] at h
        | ok rem' =>
          simp [hs] at h
          obtain ⟨_, rfl, _⟩ := h
          exact absurd rfl hne

/-- poll for poll what tokio's `take()` returns, for inner streams honouring the contract -/
theorem take_eq_tokio (oc : Bool) (r : AReader σ) (hr : AReaderOK r) (t : ATake σ) (rb : ReadBuf) :
    ATake.pollRead oc r t rb = TokTake.pollRead r t rb := by
  by_cases h0 : t.remaining = 0
  · simp [ATake.pollRead, TokTake.pollRead, h0]
  · simp only [ATake.pollRead, TokTake.pollRead, h0, if_false, Nat.min_comm rb.remaining t.remaining]
    have hsub : (rb.sub (min t.remaining rb.remaining)).filled ≤ (rb.sub (min t.remaining rb.remaining)).buf.length := by
      simp [ReadBuf.sub]
    obtain ⟨hlen, _, hle, _, _⟩ := hr t.inner (rb.sub (min t.remaining rb.remaining)) hsub
    rcases hi : r t.inner (rb.sub (min t.remaining rb.remaining)) with ⟨s', res, sub'⟩
    rw [hi] at hlen hle
    simp only at hlen hle
    cases res with
    | pending => rfl
    | ready e =>
      cases e with
      | error k => rfl
      | ok u =>
        have hk : (rb.sub (min t.remaining rb.remaining)).buf.length ≤ t.remaining := by
          simp only [ReadBuf.sub, List.length_take, List.length_drop, ReadBuf.remaining]; omega
        have hf : sub'.filled ≤ t.remaining := by omega
        simp [usizeSub, hf]

/-! ### the defect found on the unchanged tree: the pre-repair chain switched whenever a poll added nothing -/
namespace Legacy
def pollReadLegacy (r1 : AReader σ₁) (r2 : AReader σ₂) (c : AChain σ₁ σ₂) (rb : ReadBuf) : AChain σ₁ σ₂ × PollRes × ReadBuf :=
  match c.first with
  | some s1 =>
    match r1 s1 rb with
    | (s1', .pending, rb') => ({ c with first := some s1' }, .pending, rb')
    | (s1', .ready (.error e), rb') => ({ c with first := some s1' }, .ready (.error e), rb')
    | (s1', .ready (.ok _), rb') =>
      if rb'.filled - rb.filled > 0 then ({ c with first := some s1' }, .ready (.ok ()), rb')
      else
        let (s2', res2, rb'') := r2 c.second rb'
        ({ first := none, dropped := some s1', second := s2' }, res2, rb'')
  | none =>
    let (s2', res2, rb') := r2 c.second rb
    ({ c with second := s2' }, res2, rb')

def streamA : AReader (List Byte) := fun s rb =>
  let n := min rb.remaining s.length
  (s.drop n, .ready (.ok ()), { buf := rb.buf.take rb.filled ++ s.take n ++ rb.buf.drop (rb.filled + n), filled := rb.filled + n })

/-- `chain("AB","cd")`: a poll with no capacity, then one with room for 4 — legacy fills "cd", the repaired chain "AB" -/
theorem legacy_skips_first :
    (pollReadLegacy streamA streamA
      (pollReadLegacy streamA streamA { first := some [65, 66], second := [99, 100] } { buf := [], filled := 0 }).1
      { buf := [46, 46, 46, 46], filled := 0 }).2.2 = { buf := [99, 100, 46, 46], filled := 2 } ∧
    (AChain.pollRead streamA streamA
      (AChain.pollRead streamA streamA { first := some [65, 66], second := [99, 100] } { buf := [], filled := 0 }).1
      { buf := [46, 46, 46, 46], filled := 0 }).2.2 = { buf := [65, 66, 46, 46], filled := 2 } := by
  constructor <;> decide
end Legacy

end FBV.C16

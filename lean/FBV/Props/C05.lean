/-
  C05 — the provided deframers locate exactly the first terminated frame.
  Property theorems only; the index-level lemmas are in FBV/Lemmas/DeframeLemmas.lean.
  The models are total functions whose every index is in range by construction and
  which have no error result: "neither panic nor return an error" is the type.
-/
import FBV.Lemmas.DeframeLemmas
import FBV.Spec.DeframerOK
namespace FBV.C05
open FBV

theorem getElem?_of_take_eq {d d' : List Byte} {n : Nat} (hp : d'.take n = d.take n) (i : Nat) (hi : i < n) :
    d'[i]? = d[i]? := by
  have h1 : (d'.take n)[i]? = d'[i]? := by simp [List.getElem?_take, hi]
  have h2 : (d.take n)[i]? = d[i]? := by simp [List.getElem?_take, hi]
  rw [← h1, ← h2, hp]

theorem mem_iff_getElem? (d : List Byte) (x : Byte) : x ∈ d ↔ ∃ i : Nat, d[i]? = some x := by
  rw [List.mem_iff_getElem?]

/-! ### deframe_line -/

/-- `None` iff the data contains no LF -/
theorem line_none_iff (d : List Byte) : deframeLine d = none ↔ LF ∉ d := by
  unfold deframeLine
  rw [lineFrom_none, mem_iff_getElem?]
  constructor
  · rintro h ⟨i, hi⟩; exact h i (Nat.zero_le _) hi
  · intro h i _ hi; exact h ⟨i, hi⟩

/-- a reported frame: the block `d[..n]` ends with the FIRST LF, lies inside `d`, and the payload
    `d[0..e]` is everything before that LF minus exactly one CR directly before it -/
theorem line_some (d : List Byte) (s e n : Nat) (h : deframeLine d = some (s, e, n)) :
    s = 0 ∧ 0 < n ∧ n ≤ d.length ∧ d[n-1]? = some LF ∧ (∀ i, i < n - 1 → d[i]? ≠ some LF) ∧
    e = (if 0 < n - 1 ∧ d[n-2]? = some CR then n - 2 else n - 1) := by
  unfold deframeLine at h
  obtain ⟨k, _, hk, hmin, hr⟩ := (lineFrom_some d 0 _).mp h
  simp at hr; obtain ⟨rfl, rfl, rfl⟩ := hr
  have hlt : k < d.length := by
    apply Nat.lt_of_not_le; intro hge; simp [List.getElem?_eq_none hge] at hk
  refine ⟨rfl, by omega, by omega, by simpa using hk, fun i hi => hmin i (Nat.zero_le _) (by omega), ?_⟩
  simp only [endOf, Nat.add_sub_cancel]
  have : k + 1 - 2 = k - 1 := by omega
  rw [this]

/-- the answer depends only on the reported block -/
theorem line_prefixDet (d d' : List Byte) (s e n : Nat)
    (h : deframeLine d = some (s, e, n)) (hp : d'.take n = d.take n) : deframeLine d' = some (s, e, n) := by
  unfold deframeLine at *
  rw [lineFrom_some] at h ⊢
  obtain ⟨k, hk, hkl, hmin, hr⟩ := h
  simp at hr; obtain ⟨rfl, rfl, rfl⟩ := hr
  have hget : ∀ i, i < k + 1 → d'[i]? = d[i]? := getElem?_of_take_eq hp
  refine ⟨k, hk, by rw [hget k (by omega)]; exact hkl, ?_, ?_⟩
  · intro i hi hik; rw [hget i (by omega)]; exact hmin i hi hik
  · simp only [endOf]
    by_cases hk0 : 0 < k
    · rw [hget (k-1) (by omega)]
    · simp [hk0]

/-- no shorter prefix of the block is reported complete -/
theorem line_minimal (d : List Byte) (s e n m : Nat) (h : deframeLine d = some (s, e, n)) (hm : m < n) :
    deframeLine (d.take m) = none := by
  obtain ⟨_, _, _, _, hmin, _⟩ := line_some d s e n h
  unfold deframeLine
  rw [lineFrom_none]
  intro i _ hi
  by_cases him : i < m
  · rw [List.getElem?_take_of_lt him] at hi
    exact hmin i (by omega) hi
  · rw [List.getElem?_eq_none (by simp; omega)] at hi; cases hi

theorem line_ok : DeframerOK deframeLine where
  bounds := by
    intro d s e n h
    obtain ⟨rfl, h1, h2, _, _, he⟩ := line_some d s e n h
    refine ⟨Nat.zero_le _, ?_, h1, h2⟩
    rw [he]; split <;> omega
  prefixDet := line_prefixDet

/-! ### deframe_null -/

theorem null_none_iff (d : List Byte) : deframeNull d = none ↔ NUL ∉ d := by
  unfold deframeNull
  rw [nullFrom_none, mem_iff_getElem?]
  constructor
  · rintro h ⟨i, hi⟩; exact h i (Nat.zero_le _) hi
  · intro h i _ hi; exact h ⟨i, hi⟩

theorem null_some (d : List Byte) (s e n : Nat) (h : deframeNull d = some (s, e, n)) :
    s = 0 ∧ 0 < n ∧ n ≤ d.length ∧ d[n-1]? = some NUL ∧ (∀ i, i < n - 1 → d[i]? ≠ some NUL) ∧ e = n - 1 := by
  unfold deframeNull at h
  obtain ⟨k, _, hk, hmin, hr⟩ := (nullFrom_some d 0 _).mp h
  have hlt : k < d.length := by
    apply Nat.lt_of_not_le; intro hge; simp [List.getElem?_eq_none hge] at hk
  simp at hr; obtain ⟨hs, he, hn⟩ := hr
  subst hs; subst hn; subst he
  exact ⟨rfl, by omega, by omega, by simpa using hk, fun i hi => hmin i (Nat.zero_le _) (by omega), by omega⟩

theorem null_prefixDet (d d' : List Byte) (s e n : Nat)
    (h : deframeNull d = some (s, e, n)) (hp : d'.take n = d.take n) : deframeNull d' = some (s, e, n) := by
  unfold deframeNull at *
  rw [nullFrom_some] at h ⊢
  obtain ⟨k, hk, hkl, hmin, hr⟩ := h
  simp at hr; obtain ⟨hs, he, hn⟩ := hr
  subst hs; subst hn; subst he
  have hget : ∀ i, i < e + 1 → d'[i]? = d[i]? := getElem?_of_take_eq hp
  exact ⟨e, hk, by rw [hget e (by omega)]; exact hkl,
    fun i hi hik => by rw [hget i (by omega)]; exact hmin i hi hik, rfl⟩

theorem null_minimal (d : List Byte) (s e n m : Nat) (h : deframeNull d = some (s, e, n)) (hm : m < n) :
    deframeNull (d.take m) = none := by
  obtain ⟨_, _, _, _, hmin, _⟩ := null_some d s e n h
  unfold deframeNull
  rw [nullFrom_none]
  intro i _ hi
  by_cases him : i < m
  · rw [List.getElem?_take_of_lt him] at hi
    exact hmin i (by omega) hi
  · rw [List.getElem?_eq_none (by simp; omega)] at hi; cases hi

theorem null_ok : DeframerOK deframeNull where
  bounds := by
    intro d s e n h
    obtain ⟨rfl, h1, h2, _, _, rfl⟩ := null_some d s e n h
    exact ⟨Nat.zero_le _, by omega, h1, h2⟩
  prefixDet := null_prefixDet

/-! ### deframe_crlf -/

theorem crlf_none_iff (d : List Byte) : deframeCrlf d = none ↔ ∀ i, ¬ crlfAt d i := by
  unfold deframeCrlf
  split
  · rw [crlfFrom_none]
    constructor
    · intro h i hat
      have : 0 < i := hat.1
      exact h i (by omega) hat
    · intro h i _; exact h i
  · rename_i hl
    simp only [true_iff]
    rintro i ⟨h0, _, h2⟩
    have hi : i < d.length := by
      apply Nat.lt_of_not_le; intro hge; simp [List.getElem?_eq_none hge] at h2
    omega

/-- the block ends with the FIRST adjacent CR LF pair; the payload is everything before that pair -/
theorem crlf_some (d : List Byte) (s e n : Nat) (h : deframeCrlf d = some (s, e, n)) :
    s = 0 ∧ 1 < n ∧ n ≤ d.length ∧ d[n-2]? = some CR ∧ d[n-1]? = some LF ∧
    (∀ i, i < n - 1 → ¬ crlfAt d i) ∧ e = n - 2 := by
  unfold deframeCrlf at h
  split at h
  · obtain ⟨k, hk1, ⟨hk0, hcr, hlf⟩, hmin, hr⟩ := (crlfFrom_some d 1 _).mp h
    simp at hr; obtain ⟨rfl, rfl, rfl⟩ := hr
    have hlt : k < d.length := by
      apply Nat.lt_of_not_le; intro hge; simp [List.getElem?_eq_none hge] at hlf
    have e1 : k + 1 - 2 = k - 1 := by omega
    refine ⟨rfl, by omega, by omega, by rw [e1]; exact hcr, by simpa using hlf, ?_, by omega⟩
    intro i hi hat
    exact hmin i (by have := hat.1; omega) (by omega) hat
  · cases h

theorem crlf_prefixDet (d d' : List Byte) (s e n : Nat)
    (h : deframeCrlf d = some (s, e, n)) (hp : d'.take n = d.take n) : deframeCrlf d' = some (s, e, n) := by
  obtain ⟨rfl, hn1, hnl, _, _, _, rfl⟩ := crlf_some d s e n h
  have hget : ∀ i, i < n → d'[i]? = d[i]? := getElem?_of_take_eq hp
  have hl' : n ≤ d'.length := by
    have := congrArg List.length hp
    simp at this; omega
  unfold deframeCrlf at *
  have h1 : 1 < d.length := by omega
  have h1' : 1 < d'.length := by omega
  simp only [h1, h1', if_true] at h ⊢
  rw [crlfFrom_some] at h ⊢
  obtain ⟨k, hk, ⟨hk0, hcr, hlf⟩, hmin, hr⟩ := h
  simp at hr
  have hkn : n = k + 1 := hr.2
  subst hkn
  refine ⟨k, hk, ⟨hk0, by rw [hget (k-1) (by omega)]; exact hcr, by rw [hget k (by omega)]; exact hlf⟩, ?_, ?_⟩
  · rintro i hi hik ⟨hi0, h1, h2⟩
    rw [hget (i-1) (by omega)] at h1
    rw [hget i (by omega)] at h2
    exact hmin i hi hik ⟨hi0, h1, h2⟩
  · simp

theorem crlf_minimal (d : List Byte) (s e n m : Nat) (h : deframeCrlf d = some (s, e, n)) (hm : m < n) :
    deframeCrlf (d.take m) = none := by
  obtain ⟨_, _, _, _, _, hmin, _⟩ := crlf_some d s e n h
  rw [crlf_none_iff]
  rintro i ⟨hi0, h1, h2⟩
  by_cases him : i < m
  · rw [List.getElem?_take_of_lt him] at h2
    rw [List.getElem?_take_of_lt (by omega)] at h1
    exact hmin i (by omega) ⟨hi0, h1, h2⟩
  · rw [List.getElem?_eq_none (by simp; omega)] at h2; cases h2

theorem crlf_ok : DeframerOK deframeCrlf where
  bounds := by
    intro d s e n h
    obtain ⟨rfl, h1, h2, _, _, _, rfl⟩ := crlf_some d s e n h
    exact ⟨Nat.zero_le _, by omega, by omega, h2⟩
  prefixDet := crlf_prefixDet

/-! ### consequences of the contract, for any deframer that honours it -/

/-- appending bytes after a complete frame never changes the answer -/
theorem append_stable {f : PDeframer} (hf : DeframerOK f) (d x : List Byte) (s e n : Nat)
    (h : f d = some (s, e, n)) : f (d ++ x) = some (s, e, n) := by
  have hb := hf.bounds d s e n h
  exact hf.prefixDet d (d ++ x) s e n h (by rw [List.take_append_of_le_length hb.2.2.2])

/-! ### non-vacuity: concrete inputs -/
example : deframeLine [97, 98, 13, 10, 99] = some (0, 2, 4) := by simp [deframeLine, lineFrom, LF, CR]
example : deframeLine [97, 13, 13, 10] = some (0, 2, 4) := by simp [deframeLine, lineFrom, LF, CR]
example : deframeLine [10] = some (0, 0, 1) := by simp [deframeLine, lineFrom, LF]
example : deframeCrlf [97, 10, 13, 10, 99] = some (0, 2, 4) := by simp [deframeCrlf, crlfFrom, LF, CR]
example : deframeCrlf [13, 13, 10] = some (0, 1, 3) := by simp [deframeCrlf, crlfFrom, LF, CR]
example : deframeNull [97, 13, 10, 0, 0] = some (0, 3, 4) := by simp [deframeNull, nullFrom, NUL]
example : deframeLine [97, 13] = none := by simp [deframeLine, lineFrom, LF]
example : deframeCrlf [97, 10] = none := by simp [deframeCrlf, crlfFrom, LF, CR]

end FBV.C05

/-
  C07 — header line + counted payload pipeline partitions the connection stream exactly.
  `serve_spec`: for every connection stream, every chunking by the transport, every schedule of (positive)
  destination sizes used to drain the payload, every `lenOf` (payloads may contain delimiter bytes; lengths 0 and
  lengths larger than the buffer included; EOF inside a payload included), every SIZE and every deframer honouring the
  contract: headers and payloads are exactly the consecutive segments `parseConn` names — over-read bytes come first,
  bytes after the payload stay for the next read_frame.
  PARTIAL in one respect, named here: zero-length destinations in the drain schedule are covered by the
  correspondence run and by C08's bisimulation, not by this theorem (`drain` uses sizes k+1).
  The async variant follows from C14/C16 (same loop, same adapters poll for poll) and is tied separately.
-/
import FBV.Model.Pipeline
import FBV.Props.C02
namespace FBV.C07
open FBV

/-- once the chain has switched, the buffer is empty -/
def PChain.Ok (c : PChain) : Prop := c.b.Inv ∧ (c.done = true → c.b.q = []) ∧ c.r.acts.all C02.isChunk = true

theorem readData_parts (r : ARd) (d : Nat) (h : r.acts.all C02.isChunk = true) :
    (r.readData d).1 ++ (r.readData d).2.rem = r.rem ∧ (r.readData d).1.length ≤ d ∧
    (0 < d → ((r.readData d).1 = [] ↔ r.rem = [])) ∧ (r.readData d).2.acts.all C02.isChunk = true := by
  have hp := ard_read_parts r d
  unfold ARd.readData
  rcases hr : r.read d with ⟨resp, r'⟩
  rw [hr] at hp
  cases resp with
  | data c =>
    simp only at hp ⊢
    obtain ⟨h1, h2, h3, h4⟩ := hp
    refine ⟨h1, h2, h3, ?_⟩
    rw [h4]
    simp only [List.all_eq_true] at h ⊢
    intro a ha; exact h a (List.mem_of_mem_tail ha)
  | err e =>
    exfalso
    simp only at hp
    simp only [List.all_eq_true] at h
    have := h (.err e) (by rw [hp.2]; simp)
    simp [C02.isChunk] at this
  | pending =>
    exfalso
    simp only at hp
    simp only [List.all_eq_true] at h
    have := h .pending (by rw [hp.2]; simp)
    simp [C02.isChunk] at this

theorem consume_q (b : AB) (n : Nat) (hn : n ≤ b.q.length) : (b.consume n).q = b.q.drop n := by
  unfold AB.consume; split
  · rename_i h; simp [h]
  · rfl

theorem consume_inv (b : AB) (n : Nat) (hn : n ≤ b.q.length) (h : b.Inv) : (b.consume n).Inv := by
  unfold AB.consume AB.Inv at *; split <;> simp <;> omega

theorem consume_size (b : AB) (n : Nat) : (b.consume n).size = b.size := by
  unfold AB.consume; split <;> rfl

theorem ab_read_spec (b : AB) (d : Nat) (h : b.Inv) :
    (AB.read b d).1 ++ (AB.read b d).2.q = b.q ∧ (AB.read b d).1.length ≤ d ∧ (AB.read b d).2.Inv ∧
    (AB.read b d).2.size = b.size ∧ ((AB.read b d).1 = [] → 0 < d → b.q = []) := by
  by_cases hn : min d b.q.length = 0
  · have e : AB.read b d = ([], b) := by simp [AB.read, hn]
    rw [e]
    refine ⟨by simp, by simp, h, rfl, ?_⟩
    intro _ hd
    have : b.q.length = 0 := by omega
    exact List.eq_nil_of_length_eq_zero this
  · have e : AB.read b d = (b.q.take (min d b.q.length), b.consume (min d b.q.length)) := by
      simp only [AB.read, hn, if_false]
    rw [e]
    have hle : min d b.q.length ≤ b.q.length := Nat.min_le_right _ _
    refine ⟨?_, ?_, consume_inv b _ hle h, consume_size b _, ?_⟩
    · show List.take _ b.q ++ (b.consume _).q = b.q
      rw [consume_q b _ hle]; exact List.take_append_drop _ _
    · show (List.take _ b.q).length ≤ d
      simp; omega
    · intro hx _
      have hx' : List.take (min d b.q.length) b.q = [] := hx
      rw [List.take_eq_nil_iff] at hx'
      cases hx' with
      | inl h0 => exact absurd h0 hn
      | inr h0 => exact h0

theorem chain_read_done (c : PChain) (d : Nat) (hd : c.done = true) :
    c.read d = ((c.r.readData d).1, { c with r := (c.r.readData d).2 }) := by
  simp [PChain.read, hd]

theorem chain_read_switch (c : PChain) (d : Nat) (hd : c.done = false) (hx : (AB.read c.b d).1 = []) (h0 : d ≠ 0) :
    c.read d = ((c.r.readData d).1, { done := true, b := (AB.read c.b d).2, r := (c.r.readData d).2 }) := by
  simp [PChain.read, hd, hx, h0]

theorem chain_read_first (c : PChain) (d : Nat) (hd : c.done = false) (hx : ¬ ((AB.read c.b d).1 = [] ∧ d ≠ 0)) :
    c.read d = ((AB.read c.b d).1, { c with b := (AB.read c.b d).2 }) := by
  simp only [PChain.read, hd, Bool.false_eq_true, if_false, hx]

/-- one chain read: the bytes returned are the next pending bytes (buffer bytes before any stream byte) -/
theorem chain_read_spec (c : PChain) (d : Nat) (h : PChain.Ok c) :
    (c.read d).1 ++ (c.read d).2.pending = c.pending ∧ (c.read d).1.length ≤ d ∧ PChain.Ok (c.read d).2 ∧
    (c.read d).2.b.size = c.b.size ∧ ((c.read d).1 = [] → 0 < d → c.pending = []) := by
  obtain ⟨hinv, hdone, hacts⟩ := h
  have hr := readData_parts c.r d hacts
  cases hd : c.done with
  | true =>
    have hq := hdone hd
    rw [chain_read_done c d hd]
    simp only [PChain.pending, hq, List.nil_append]
    refine ⟨hr.1, hr.2.1, ⟨hinv, fun _ => hq, hr.2.2.2⟩, trivial, ?_⟩
    intro hx hpos
    exact (hr.2.2.1 hpos).mp hx
  | false =>
    have hb := ab_read_spec c.b d hinv
    by_cases hx : (AB.read c.b d).1 = [] ∧ d ≠ 0
    · rw [chain_read_switch c d hd hx.1 hx.2]
      have hq : c.b.q = [] := hb.2.2.2.2 hx.1 (Nat.pos_of_ne_zero hx.2)
      have hq' : (AB.read c.b d).2.q = [] := by
        have := hb.1; rw [hx.1, hq] at this; simpa using this
      simp only [PChain.pending, hq, hq', List.nil_append]
      refine ⟨hr.1, hr.2.1, ⟨hb.2.2.1, fun _ => hq', hr.2.2.2⟩, hb.2.2.2.1, ?_⟩
      intro hy hpos
      exact (hr.2.2.1 hpos).mp hy
    · rw [chain_read_first c d hd hx]
      simp only [PChain.pending]
      refine ⟨?_, hb.2.1, ⟨hb.2.2.1, fun h => by simp [hd] at h, hacts⟩, hb.2.2.2.1, ?_⟩
      · rw [← List.append_assoc, hb.1]
      · intro hy hpos
        exact absurd ⟨hy, Nat.ne_of_gt hpos⟩ hx

/-- draining the take adapter yields exactly the first `remaining` pending bytes and leaves the rest pending -/
theorem drain_spec :
    ∀ (fuel : Nat) (t : PTake) (ds : List Nat), PChain.Ok t.c → min t.remaining t.c.pending.length < fuel →
      (drain fuel t ds).1 = t.c.pending.take t.remaining ∧
      (drain fuel t ds).2.c.pending = t.c.pending.drop t.remaining ∧
      PChain.Ok (drain fuel t ds).2.c ∧ (drain fuel t ds).2.c.b.size = t.c.b.size := by
  intro fuel
  induction fuel with
  | zero => intro t ds _ h; omega
  | succ fuel ih =>
    intro t ds hok hfuel
    simp only [drain, PTake.read]
    by_cases hrem : t.remaining = 0
    · simp [hrem, hok]
    · simp only [hrem, if_false]
      have hk : 0 < min t.remaining (ds.head?.getD 0 + 1) := by omega
      have hc := chain_read_spec t.c (min t.remaining (ds.head?.getD 0 + 1)) hok
      generalize t.c.read (min t.remaining (ds.head?.getD 0 + 1)) = out at hc ⊢
      obtain ⟨x, c'⟩ := out
      simp only at hc ⊢
      obtain ⟨hsplit, hle, hok', hsz, hnil⟩ := hc
      by_cases hx : x = []
      · have hp : t.c.pending = [] := hnil hx hk
        have hp' : c'.pending = [] := by rw [hx, hp] at hsplit; simpa using hsplit
        simp only [hx, if_true, hp, hp']
        exact ⟨by simp, by simp, hok', hsz⟩
      · simp only [hx, if_false]
        have hlen : 0 < x.length := List.length_pos_iff.mpr hx
        have hl : x.length + c'.pending.length = t.c.pending.length := by
          have := congrArg List.length hsplit; simpa using this
        have := ih { remaining := t.remaining - x.length, c := c' } ds.tail hok'
                  (by show min (t.remaining - x.length) c'.pending.length < fuel
                      omega)
        obtain ⟨h1, h2, h3, h4⟩ := this
        simp only at h1 h2 h3 h4
        have hxr : x.length ≤ t.remaining := by omega
        refine ⟨?_, ?_, h3, by rw [h4]; exact hsz⟩
        · rw [h1, ← hsplit, List.take_append, List.take_of_length_le hxr]
        · rw [h2, ← hsplit, List.drop_append, List.drop_eq_nil_of_le hxr]; simp

/-- C07: the request loop returns exactly the consecutive segments of the connection stream -/
theorem serve_spec {g : PDeframer} (hg : DeframerOK g) (lenOf : List Byte → Nat) :
    ∀ (fuel : Nat) (b : AB) (r : ARd) (ds : List Nat), b.Inv → r.acts.all C02.isChunk = true →
      serve g lenOf fuel b r ds = parseConn b.size g lenOf fuel (b.q ++ r.rem) := by
  intro fuel
  induction fuel with
  | zero => intro b r ds _ _; rfl
  | succ fuel ih =>
    intro b r ds hb hr
    obtain ⟨h1, h2, h3, h4, h5⟩ := C02.read_frame_spec hg b r hb hr (r.rem.length + 1) (Nat.lt_succ_self _)
    simp only [serve, parseConn]
    rcases hout : pollLoop (liftDf g) (r.rem.length + 1) b r with ⟨b', r', res⟩
    rw [hout] at h1 h2 h3 h4 h5
    simp only at h1 h2 h3 h4 h5
    rcases hs : specNext b.size g (b.q ++ r.rem) with ⟨sres, st⟩
    rw [hs] at h1 h2
    simp only at h1 h2
    subst h1
    cases res with
    | frame h =>
      simp only
      have hok : PChain.Ok { done := false, b := b', r := r' } := ⟨h3, (by intro hc; cases hc), h5⟩
      have hd := drain_spec (min (lenOf h) (b'.q.length + r'.rem.length) + 1)
        { remaining := lenOf h, c := { done := false, b := b', r := r' } } ds hok
        (by simp [PChain.pending])
      obtain ⟨d1, d2, d3, d4⟩ := hd
      rcases hdr : drain (min (lenOf h) (b'.q.length + r'.rem.length) + 1)
        { remaining := lenOf h, c := { done := false, b := b', r := r' } } ds with ⟨p, t'⟩
      rw [hdr] at d1 d2 d3 d4
      simp only [PChain.pending] at d1 d2 d4
      simp only at d1 d2 d3 d4
      have ihh := ih t'.c.b t'.c.r ds d3.1 d3.2.2
      rw [ihh, d4, h4]
      have e1 : t'.c.b.q ++ t'.c.r.rem = st.drop (lenOf h) := by rw [← h2]; exact d2
      have e2 : p = st.take (lenOf h) := by rw [← h2]; exact d1
      rw [e1, e2]
    | _ => rfl

/-! non-vacuity -/
example : ([Act.chunk 2, .chunk 0, .chunk 5] : List Act).all C02.isChunk = true := by decide

end FBV.C07

/-
  C01 — FixedBuf is a lossless FIFO byte stream.
  `step_sat` : for EVERY state satisfying the weak invariant, EVERY public call with EVERY
  argument, and both overflow-check settings, the call changes the unread byte sequence exactly
  by what it hands out / accepts (`Sat_C01`, the same executable predicate the driver evaluates
  on the implementation's transitions).  `fifo_history` lifts it to every finite call history.
-/
import FBV.Lemmas.ObsFacts
import FBV.Lemmas.StepInv
namespace FBV.C01
open FBV

/-- assembling `Sat_C01` from the invariant of the post-state and the effect relation -/
theorem sat_of (b : Buf) (op : Op) (out : Out) (b' : Buf) (h' : b'.WInv)
    (hrel : (match effOf b op out b'.obs with
      | .delivered d => b.readable == d ++ b'.readable
      | .accepted w => b'.readable == b.readable ++ w
      | .consumed n => decide (n ≤ b.readable.length) && b'.readable == b.readable.drop n
      | .cleared => b'.readable == []
      | .neutral => b'.readable == b.readable
      | .suffix => decide (b'.readable.length ≤ b.readable.length) &&
          b'.readable == b.readable.drop (b.readable.length - b'.readable.length)) = true) :
    Sat_C01 b op out b'.obs = true := by
  obtain ⟨c1, c2, c3⟩ := obs_consistent b' h'
  simp only [obs_rd] at c2 c3
  simp only [Sat_C01, obs_rd, c1, c2, c3, Bool.true_and]
  exact hrel

theorem reads_suffix (b b' : Buf) (k : Nat) (h : b.WInv) (r : Reads b b' k) :
    (decide (b'.readable.length ≤ b.readable.length) &&
      b'.readable == b.readable.drop (b.readable.length - b'.readable.length)) = true := by
  have hr := Reads.readable h r
  have hk := Reads.le r
  have hl := Buf.readable_length b h
  have hl' : b'.readable.length = b.readable.length - k := by rw [hr]; simp
  have : b.readable.length - b'.readable.length = k := by omega
  simp [hr]; omega

theorem rel_delivered (b : Buf) (n : Nat) (h : b.WInv) (hn : n ≤ b.wi - b.ri) :
    (b.readable == b.readable.take n ++ (b.consume n).readable) = true := by
  rw [consume_readable b n h hn, List.take_append_drop]; simp

/-- C01, one call: every reachable (indeed every weakly well-formed) state × every call × both profiles -/
theorem step_sat (oc : Bool) (b : Buf) (op : Op) (h : b.WInv) :
    Sat_C01 b op (step oc b op).2 (step oc b op).1.obs = true := by
  have hl := Buf.readable_length b h
  cases op with
  | writeBytes d =>
    rw [step_writeBytes oc b d h]
    split
    · rename_i hd
      exact sat_of _ _ _ _ (put_commit_WInv b d h hd) (by simp [effOf, put_commit_readable b d h])
    · exact sat_of _ _ _ _ h (by simp [effOf])
  | writeStr d =>
    rw [step_writeStr oc b d h]
    split
    · rename_i hd
      exact sat_of _ _ _ _ (put_commit_WInv b d h hd) (by simp [effOf, put_commit_readable b d h])
    · exact sat_of _ _ _ _ h (by simp [effOf])
  | ioWrite d =>
    rw [step_ioWrite oc b d h]
    split
    · rename_i hd
      exact sat_of _ _ _ _ (put_commit_WInv b d h hd) (by simp [effOf, put_commit_readable b d h])
    · exact sat_of _ _ _ _ h (by simp [effOf])
  | ioFlush => exact sat_of _ _ _ _ h (by simp [step, effOf])
  | pokeWrote d n =>
    rw [step_pokeWrote oc b d n h]
    have hk : (d.take (min d.length (b.mem.length - b.wi))).length ≤ b.mem.length - b.wi := by simp; omega
    have hp := put_WInv b _ h hk
    have hml := put_mem_length b _ h hk
    split
    · rename_i hn
      refine sat_of _ _ _ _ (commit_WInv _ n hp (by rw [hml]; exact hn)) ?_
      simp only [effOf]
      rw [commit_readable _ n hp (by rw [hml]; exact hn), put_readable b _ h]
      simp [Buf.commit, Buf.put]
    · exact sat_of _ _ _ _ hp (by simp [effOf, put_readable b _ h])
  | copyOnce resp =>
    rw [step_copyOnce oc b resp h]
    split
    · exact sat_of _ _ _ _ h (by simp [effOf])
    · rename_i h0
      cases resp with
      | panic => exact sat_of _ _ _ _ h (by simp [effOf])
      | err k => exact sat_of _ _ _ _ h (by simp [effOf])
      | data bytes scr =>
        have hcl := cofDest_length b bytes scr h
        have hp := put_WInv b (cofDest b bytes scr) h (by omega)
        have hml := put_mem_length b (cofDest b bytes scr) h (by omega)
        have hle : min bytes.length (b.mem.length - b.wi) ≤ b.mem.length - b.wi := Nat.min_le_right _ _
        refine sat_of _ _ _ _ (commit_WInv _ _ hp (by rw [hml]; exact hle)) ?_
        simp only [effOf]
        rw [commit_readable _ _ hp (by rw [hml]; exact hle), put_readable b _ h]
        simp only [Buf.put, List.headD_cons]
        rw [writeAt_take_drop b.mem b.wi _ (cofDest b bytes scr) h.2.1 (by rw [hcl]; exact hle)]
        have : (cofDest b bytes scr).take (min bytes.length (b.mem.length - b.wi)) =
            bytes.take (min bytes.length (b.mem.length - b.wi)) := by
          unfold cofDest
          rw [List.take_append_of_le_length (by simp)]
          simp [List.take_take]
        simp [this]
  | readBytes n =>
    rw [step_readBytes oc b n h]
    split
    · rename_i hn
      exact sat_of _ _ _ _ (consume_WInv b n h hn) (by simpa [effOf] using rel_delivered b n h hn)
    · exact sat_of _ _ _ _ h (by simp [effOf])
  | tryReadBytes n =>
    rw [step_tryReadBytes oc b n h]
    split
    · rename_i hn
      exact sat_of _ _ _ _ (consume_WInv b n h hn) (by simpa [effOf] using rel_delivered b n h hn)
    · exact sat_of _ _ _ _ h (by simp [effOf])
  | readByte =>
    rw [step_readByte oc b h]
    split
    · rename_i hn
      exact sat_of _ _ _ _ (consume_WInv b 1 h hn) (by simpa [effOf] using rel_delivered b 1 h hn)
    · exact sat_of _ _ _ _ h (by simp [effOf])
  | tryReadByte =>
    rw [step_tryReadByte oc b h]
    split
    · rename_i hn
      exact sat_of _ _ _ _ (consume_WInv b 1 h hn) (by simpa [effOf] using rel_delivered b 1 h hn)
    · exact sat_of _ _ _ _ h (by simp [effOf])
  | readAll =>
    rw [step_readAll oc b h]
    refine sat_of _ _ _ _ (consume_WInv b _ h (Nat.le_refl _)) ?_
    simp only [effOf]
    rw [consume_readable b _ h (Nat.le_refl _), List.drop_eq_nil_of_le (by omega)]; simp
  | readAndCopy d =>
    rw [step_readAndCopy oc b d h]
    split
    · exact sat_of _ _ _ _ h (by simp [effOf])
    · have hle := Nat.min_le_right d (b.wi - b.ri)
      refine sat_of _ _ _ _ (consume_WInv b _ h hle) ?_
      simp only [effOf, List.headD_cons]
      rw [consume_readable b _ h hle, List.take_append_of_le_length (by simp [hl])]
      simp [List.take_take]
  | ioRead d =>
    rw [step_ioRead oc b d h]
    split
    · exact sat_of _ _ _ _ h (by simp [effOf])
    · have hle := Nat.min_le_right d (b.wi - b.ri)
      refine sat_of _ _ _ _ (consume_WInv b _ h hle) ?_
      simp only [effOf, List.headD_cons]
      rw [consume_readable b _ h hle, List.take_append_of_le_length (by simp [hl])]
      simp [List.take_take]
  | tryReadExact d =>
    rw [step_tryReadExact oc b d h]
    split
    · rename_i hd
      by_cases h0 : d = 0
      · subst h0; exact sat_of _ _ _ _ h (by simp [effOf])
      · simp only [h0, if_false]
        exact sat_of _ _ _ _ (consume_WInv b d h hd) (by simpa [effOf] using rel_delivered b d h hd)
    · exact sat_of _ _ _ _ h (by simp [effOf])
  | shift =>
    rw [step_shift oc b h]
    exact sat_of _ _ _ _ (shifted_WInv b h) (by simp [effOf, shifted_readable b h])
  | clear =>
    rw [step_clear oc b]
    refine sat_of _ _ _ _ ⟨Nat.le_refl _, Nat.zero_le _, h.2.2⟩ ?_
    simp [effOf, Buf.readable]
  | deframe f =>
    rw [step_deframe oc f b h]
    split
    · exact sat_of _ _ _ _ h (by simp [effOf])
    · cases hf : dfOf f b.readable with
      | error u => exact sat_of _ _ _ _ h (by simp [effOf])
      | ok r =>
        cases r with
        | none => exact sat_of _ _ _ _ h (by simp [effOf])
        | some t =>
          obtain ⟨s, e, n⟩ := t
          have hb := dfOf_bounds f _ s e n hf
          have hn : n ≤ b.wi - b.ri := by rw [← hl]; exact hb.2.2.2
          exact sat_of _ _ _ _ (consume_WInv b n h hn) (by simp [effOf, consume_readable b n h hn, hb.2.2.2])
  | tryParse ops sm =>
    rcases step_tryParse_cases oc b ops sm h with ⟨_, ho, k, hr⟩ | ⟨_, ho, hr, _⟩
    · rw [ho]
      refine sat_of _ _ _ _ (Reads.WInv h hr) ?_
      simp only [effOf]
      exact reads_suffix b _ k h hr
    · rw [ho]
      refine sat_of _ _ _ _ (Reads.WInv h hr) ?_
      cases sm with
      | true => simp only [effOf, if_true]; exact reads_suffix b _ _ h hr
      | false =>
        simp only [Bool.false_eq_true, if_false] at hr ⊢
        have := Reads.readable h hr
        simp [effOf, this]

/-! ### every finite history -/

/-- bytes a call took out of the stream (handed to the caller, or discarded by `clear`) and bytes it accepted,
    read off the call's own result -/
def taken (b : Buf) (op : Op) (out : Out) (post : Obs) : List Byte :=
  match effOf b op out post with
  | .delivered d => d
  | .consumed n => b.readable.take n
  | .cleared => b.readable
  | .suffix => b.readable.take (b.readable.length - post.rd.length)
  | _ => []

def given (b : Buf) (op : Op) (out : Out) (post : Obs) : List Byte :=
  match effOf b op out post with
  | .accepted w => w
  | _ => []

/-- only `clear` discards: bytes that left the stream without being handed to the caller -/
def discarded (b : Buf) (op : Op) : List Byte :=
  match op with
  | .clear => b.readable
  | _ => []

/-- one observed call conserves the stream -/
theorem sat_conserves (b : Buf) (op : Op) (out : Out) (post : Obs) (h : Sat_C01 b op out post = true) :
    taken b op out post ++ post.rd = b.readable ++ given b op out post := by
  simp only [Sat_C01, Bool.and_eq_true] at h
  obtain ⟨_, hrel⟩ := h
  unfold taken given
  cases he : effOf b op out post with
  | delivered d => simp only [he] at hrel ⊢; simp at hrel; simp [hrel]
  | accepted w => simp only [he] at hrel ⊢; simp at hrel; simp [hrel]
  | consumed n => simp only [he] at hrel ⊢; simp at hrel; simp [hrel.2]
  | cleared => simp only [he] at hrel ⊢; simp at hrel; simp [hrel]
  | neutral => simp only [he] at hrel ⊢; simp at hrel; simp [hrel]
  | suffix =>
    simp only [he] at hrel ⊢; simp at hrel
    obtain ⟨_, he2⟩ := hrel
    generalize b.readable.length - post.rd.length = k at he2 ⊢
    rw [List.append_nil, he2]; exact List.take_append_drop k _

/-- the ghost log of a history run on the model: everything taken out, everything accepted -/
def history (oc : Bool) : Buf → List Op → List Byte × List Byte × Buf
  | b, [] => ([], [], b)
  | b, op :: rest =>
    let (b', out) := step oc b op
    let (t, g, bf) := history oc b' rest
    (taken b op out b'.obs ++ t, given b op out b'.obs ++ g, bf)

/-- C01 for every finite history of public calls from any well-formed state (in particular from every
    constructor), every argument, both profiles: what was taken out so far followed by what is still
    unread is exactly the initial contents followed by what was accepted, in order. -/
theorem fifo_history (oc : Bool) (b : Buf) (ops : List Op) (h : b.WInv) :
    (history oc b ops).1 ++ (history oc b ops).2.2.readable = b.readable ++ (history oc b ops).2.1 := by
  induction ops generalizing b with
  | nil => simp [history]
  | cons op rest ih =>
    have hs := sat_conserves b op _ _ (step_sat oc b op h)
    have ih' := ih (step oc b op).1 (step_WInv oc b op h)
    simp only [history]
    simp only [obs_rd] at hs
    rw [List.append_assoc, ih', ← List.append_assoc, hs, List.append_assoc]

/-- bytes leave the stream unread only through `clear`: a call other than `clear` takes out nothing but
    what it hands to the caller (its returned bytes / the deframed block / what the closure read) -/
theorem only_clear_discards (b : Buf) (op : Op) : discarded b op ≠ [] → op = .clear := by
  cases op <;> simp [discarded]

/-! ### non-vacuity -/
example : (Buf.filled [1, 2, 3, 4]).WInv := by decide
example : ({ mem := [1, 2, 3, 4], ri := 1, wi := 3 } : Buf).WInv := by decide

end FBV.C01

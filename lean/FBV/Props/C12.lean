/-
  C12 — readers are called only when needed and exactly what they report is committed.
  Abstract-level statements about the reader's call log for `read_frame` (any deframer, also a
  rejecting one; any script), and the concrete one-step statement for `copy_once_from`.
-/
import FBV.Lemmas.LoopLemmas
import FBV.Lemmas.StepReads
import FBV.Spec.CallTrace
namespace FBV.C12
open FBV

/-- a complete frame is already buffered: the reader is not touched at all -/
theorem no_call_when_frame_buffered (f : Deframer) (fuel : Nat) (b : AB) (r : ARd) (s e n : Nat)
    (hq : b.q ≠ []) (h : f b.q = .ok (some (s, e, n))) :
    pollLoop f (fuel + 1) b r = (b.consume n, r, .frame ((b.q.take e).drop s)) := by
  simp [pollLoop, hq, h]

/-- the deframer rejects the buffered data: InvalidData, the reader is not touched, nothing is consumed -/
theorem no_call_when_rejected (f : Deframer) (fuel : Nat) (b : AB) (r : ARd) (u : Unit)
    (hq : b.q ≠ []) (h : f b.q = .error u) : pollLoop f (fuel + 1) b r = (b, r, .invalid) := by
  simp [pollLoop, hq, h]

/-- buffer completely full of incomplete data: InvalidData, the reader is not touched -/
theorem no_call_when_full (f : Deframer) (fuel : Nat) (b : AB) (r : ARd)
    (hn : (if b.q = [] then (Except.ok none : Except Unit _) else f b.q) = .ok none) (hfull : b.shift.free = 0) :
    pollLoop f (fuel + 1) b r = (b.shift, r, .invalid) := by
  simp [pollLoop, hn, hfull]

/-- every destination offered to the reader during a call is non-empty and no larger than the buffer -/
theorem offers_ok (f : Deframer) :
    ∀ (fuel : Nat) (b : AB) (r : ARd),
      ∃ ds, (pollLoop f fuel b r).2.1.log = r.log ++ ds ∧ ∀ d ∈ ds, 0 < d ∧ d ≤ b.size := by
  intro fuel
  induction fuel with
  | zero => intro b r; exact ⟨[], by simp [pollLoop], by simp⟩
  | succ fuel ih =>
    intro b r
    simp only [pollLoop]
    cases hv : (if b.q = [] then (Except.ok none : Except Unit _) else f b.q) with
    | error u => exact ⟨[], by simp, by simp⟩
    | ok v =>
      cases v with
      | some x => obtain ⟨s, e, n⟩ := x; exact ⟨[], by simp, by simp⟩
      | none =>
        simp only
        by_cases hfree : b.shift.free = 0
        · simp only [hfree, if_true]; exact ⟨[], by simp, by simp⟩
        · simp only [hfree, if_false, fromAwait]
          have hpos : 0 < b.shift.free := Nat.pos_of_ne_zero hfree
          have hle : b.shift.free ≤ b.size := by simp [AB.free, AB.shift]
          have hlog : ∀ resp r', r.read b.shift.free = (resp, r') → r'.log = r.log ++ [b.shift.free] := by
            intro resp r' h
            unfold ARd.read at h
            cases hr : r.acts with
            | nil => simp [hr] at h; rw [← h.2]
            | cons a as => cases a <;> simp [hr] at h <;> rw [← h.2]
          rcases hrd : r.read b.shift.free with ⟨resp, r'⟩
          have hl := hlog resp r' hrd
          cases resp with
          | pending => exact ⟨[b.shift.free], by simp [hl], by simp; omega⟩
          | err e => exact ⟨[b.shift.free], by simp [hl], by simp; omega⟩
          | data c =>
            simp only
            by_cases hc : c = []
            · simp only [hc, if_true]; exact ⟨[b.shift.free], by simp [hl], by simp; omega⟩
            · simp only [hc, if_false]
              obtain ⟨ds, h1, h2⟩ := ih (b.shift.append c) r'
              refine ⟨b.shift.free :: ds, by rw [h1, hl]; simp, ?_⟩
              intro d hd
              simp only [List.mem_cons] at hd
              rcases hd with rfl | hd
              · exact ⟨hpos, hle⟩
              · exact h2 d hd

/-- `copy_once_from`: exactly one reader call with the whole free space when there is room, none (InvalidData) when
    the buffer is completely full; exactly the reported count is committed; a reader error or panic changes nothing -/
theorem copy_once_from_spec (oc : Bool) (b : Buf) (resp : RdResp) (h : b.WInv) :
    (b.mem.length - b.wi = 0 → step oc b (.copyOnce resp) = (b, { cls := .err EK_InvalidData })) ∧
    (b.mem.length - b.wi ≠ 0 →
      match resp with
      | .data bytes scr =>
        (step oc b (.copyOnce resp)).2 = { cls := .ok, nums := [min bytes.length (b.mem.length - b.wi)], log := [b.mem.length - b.wi] } ∧
        (step oc b (.copyOnce resp)).1.readable = b.readable ++ bytes.take (min bytes.length (b.mem.length - b.wi))
      | .err k => step oc b (.copyOnce resp) = (b, { cls := .err k, log := [b.mem.length - b.wi] })
      | .panic => step oc b (.copyOnce resp) = (b, { cls := .panic })) := by
  rw [step_copyOnce oc b resp h]
  refine ⟨fun h0 => by simp [h0], fun h0 => ?_⟩
  simp only [h0, if_false]
  cases resp with
  | panic => rfl
  | err k => rfl
  | data bytes scr =>
    refine ⟨rfl, ?_⟩
    have hcl := cofDest_length b bytes scr h
    have hp := put_WInv b (cofDest b bytes scr) h (by omega)
    have hml := put_mem_length b (cofDest b bytes scr) h (by omega)
    have hle : min bytes.length (b.mem.length - b.wi) ≤ b.mem.length - b.wi := Nat.min_le_right _ _
    simp only
    rw [commit_readable _ _ hp (by rw [hml]; exact hle), put_readable b _ h]
    simp only [Buf.put]
    rw [writeAt_take_drop b.mem b.wi _ (cofDest b bytes scr) h.2.1 (by rw [hcl]; exact hle)]
    congr 1
    unfold cofDest
    rw [List.take_append_of_le_length (by simp)]
    simp [List.take_take]

/-! ### the full call discipline of one `read_frame` call (any deframer, any script) -/

theorem traceAwait_head (k : AB → ARd → List RdCall) (b1 : AB) (r : ARd) :
    ∃ y rest, traceAwait k b1 r = y :: rest ∧ y.q = b1.q ∧ y.d = b1.free := by
  unfold traceAwait
  rcases hrd : r.read b1.free with ⟨resp, r'⟩
  cases resp with
  | pending => exact ⟨_, _, rfl, rfl, rfl⟩
  | err e => exact ⟨_, _, rfl, rfl, rfl⟩
  | data c => exact ⟨_, _, rfl, rfl, rfl⟩

theorem pollTrace_head (f : Deframer) (fuel : Nat) (b : AB) (r : ARd) (y : RdCall) (rest : List RdCall)
    (h : pollTrace f fuel b r = y :: rest) : y.q = b.q := by
  cases fuel with
  | zero => simp [pollTrace] at h
  | succ fuel =>
    simp only [pollTrace] at h
    cases hv : (if b.q = [] then (Except.ok none : Except Unit _) else f b.q) with
    | error u => simp [hv] at h
    | ok v =>
      cases v with
      | some x => simp [hv] at h
      | none =>
        simp only [hv] at h
        by_cases hfree : b.shift.free = 0
        · simp [hfree] at h
        · simp only [hfree, if_false] at h
          obtain ⟨y', rest', h1, h2, _⟩ := traceAwait_head (pollTrace f fuel) b.shift r
          rw [h1] at h
          cases h
          simpa [AB.shift] using h2

/-- the reader's log of one call is exactly the destination lengths of the trace -/
theorem trace_log (f : Deframer) :
    ∀ (fuel : Nat) (b : AB) (r : ARd),
      (pollLoop f fuel b r).2.1.log = r.log ++ (pollTrace f fuel b r).map (·.d) := by
  intro fuel
  induction fuel with
  | zero => intro b r; simp [pollLoop, pollTrace]
  | succ fuel ih =>
    intro b r
    simp only [pollLoop, pollTrace]
    cases hv : (if b.q = [] then (Except.ok none : Except Unit _) else f b.q) with
    | error u => simp
    | ok v =>
      cases v with
      | some x => obtain ⟨s, e, n⟩ := x; simp
      | none =>
        simp only
        by_cases hfree : b.shift.free = 0
        · simp [hfree]
        · simp only [hfree, if_false, fromAwait, traceAwait]
          have hlog : ∀ resp r', r.read b.shift.free = (resp, r') → r'.log = r.log ++ [b.shift.free] := by
            intro resp r' h
            unfold ARd.read at h
            cases hr : r.acts with
            | nil => simp [hr] at h; rw [← h.2]
            | cons a as => cases a <;> simp [hr] at h <;> rw [← h.2]
          rcases hrd : r.read b.shift.free with ⟨resp, r'⟩
          have hl := hlog resp r' hrd
          cases resp with
          | pending => simp [hl]
          | err e => simp [hl]
          | data c =>
            simp only
            by_cases hc : c = []
            · simp [hc, hl]
            · simp only [hc, if_false]
              rw [ih, hl]; simp

/-- **C12, every clause about `read_frame`'s use of the reader**: in one call (blocking, or one poll of a
    fresh async future), for ANY deframer — also a rejecting one — and ANY reader script, every reader call is made
    only while the buffered bytes hold neither a complete frame nor rejected data, with a non-empty destination
    that fits the free space; no call follows an empty read, an error or `Pending`; and each later call sees
    exactly the earlier bytes plus what the reader reported -/
theorem call_discipline (f : Deframer) :
    ∀ (fuel : Nat) (b : AB) (r : ARd), b.Inv → Disciplined f b.size (pollTrace f fuel b r) := by
  intro fuel
  induction fuel with
  | zero => intro b r _; simp [pollTrace, Disciplined]
  | succ fuel ih =>
    intro b r hinv
    unfold AB.Inv at hinv
    simp only [pollTrace]
    cases hv : (if b.q = [] then (Except.ok none : Except Unit _) else f b.q) with
    | error u => simp [Disciplined]
    | ok v =>
      cases v with
      | some x => simp [Disciplined]
      | none =>
        simp only
        by_cases hfree : b.shift.free = 0
        · simp [hfree, Disciplined]
        · simp only [hfree, if_false, traceAwait]
          have hpos : 0 < b.shift.free := Nat.pos_of_ne_zero hfree
          have hfr : b.shift.free = b.size - b.q.length := by simp [AB.free, AB.shift]
          have hfit : b.q.length + b.shift.free ≤ b.size := by rw [hfr]; omega
          have hparts := ard_read_parts r b.shift.free
          rcases hrd : r.read b.shift.free with ⟨resp, r'⟩
          rw [hrd] at hparts
          cases resp with
          | pending => exact ⟨hv, hpos, hfit, rfl, trivial⟩
          | err e => exact ⟨hv, hpos, hfit, rfl, trivial⟩
          | data c =>
            simp only at hparts
            obtain ⟨_, hcl, _, _⟩ := hparts
            simp only
            by_cases hc : c = []
            · simp only [hc, if_true]
              exact ⟨hv, hpos, hfit, ⟨by simp, trivial⟩, trivial⟩
            · simp only [hc, if_false]
              have hinv' : (b.shift.append c).Inv := by
                simp only [AB.Inv, AB.append, AB.shift, List.length_append]; omega
              have hrec := ih (b.shift.append c) r' hinv'
              have hsz : (b.shift.append c).size = b.size := rfl
              rw [hsz] at hrec
              simp only [Disciplined]
              refine ⟨hv, hpos, hfit, ⟨hcl, ?_⟩, hrec⟩
              cases htr : pollTrace f fuel (b.shift.append c) r' with
              | nil => trivial
              | cons y rest =>
                have := pollTrace_head f fuel _ _ _ _ htr
                exact ⟨hc, by simpa [AB.append, AB.shift] using this⟩

/-- non-vacuity: a call that needs three reader calls (short chunk, short chunk, then the terminator arrives) -/
example : (pollTrace (fun q => if q.length < 4 then .ok none else .ok (some (0, 3, 4))) 10 ⟨8, 2, [0x61]⟩
    ⟨[0x62, 0x63, 0x0a, 0x64], [.chunk 0, .chunk 0], []⟩).length = 3 := by
  decide

end FBV.C12

/-
  C12 — readers are called only when needed and exactly what they report is committed.
  Abstract-level statements about the reader's call log for `read_frame` (any deframer, also a
  rejecting one; any script), and the concrete one-step statement for `copy_once_from`.
-/
import FBV.Lemmas.LoopLemmas
import FBV.Lemmas.StepReads
namespace FBV.C12
open FBV

/-- a complete frame is already buffered: the reader is not touched at all -/
theorem no_call_when_frame_buffered (f : Deframer) (fuel : Nat) (b : AB) (r : ARd) (s e n : Nat)
    (hq : b.q ≠ []) (h : f b.q = .ok (some (s, e, n))) :
    pollLoop f (fuel + 1) b r = (b.consume n, r, .frame ((b.q.take e).drop s)) := by
  simp [pollLoop, hq, h]

/-- the deframer rejects the buffered data: InvalidData, the reader is not touched, nothing is consumed -/
theorem no_call_when_rejected (f : Deframer) (fuel : Nat) (b : AB) (r : ARd) (u : Unit)
    (hq : b.q ≠ []) (h : f b.q = .error u) : pollLoop f (fuel + 1) b r = (b, r, .invalid) := by
  simp [pollLoop, hq, h]

/-- buffer completely full of incomplete data: InvalidData, the reader is not touched -/
theorem no_call_when_full (f : Deframer) (fuel : Nat) (b : AB) (r : ARd)
    (hn : (if b.q = [] then (Except.ok none : Except Unit _) else f b.q) = .ok none) (hfull : b.shift.free = 0) :
    pollLoop f (fuel + 1) b r = (b.shift, r, .invalid) := by
  simp [pollLoop, hn, hfull]

/-- every destination offered to the reader during a call is non-empty and no larger than the buffer -/
theorem offers_ok (f : Deframer) :
    ∀ (fuel : Nat) (b : AB) (r : ARd),
      ∃ ds, (pollLoop f fuel b r).2.1.log = r.log ++ ds ∧ ∀ d ∈ ds, 0 < d ∧ d ≤ b.size := by
  intro fuel
  induction fuel with
  | zero => intro b r; exact ⟨[], by simp [pollLoop], by simp⟩
  | succ fuel ih =>
    intro b r
    simp only [pollLoop]
    cases hv : (if b.q = [] then (Except.ok none : Except Unit _) else f b.q) with
    | error u => exact ⟨[], by simp, by simp⟩
    | ok v =>
      cases v with
      | some x => obtain ⟨s, e, n⟩ := x; exact ⟨[], by simp, by simp⟩
      | none =>
        simp only
        by_cases hfree : b.shift.free = 0
        · simp only [hfree, if_true]; exact ⟨[], by simp, by simp⟩
        · simp only [hfree, if_false, fromAwait]
          have hpos : 0 < b.shift.free := Nat.pos_of_ne_zero hfree
          have hle : b.shift.free ≤ b.size := by simp [AB.free, AB.shift]
          have hlog : ∀ resp r', r.read b.shift.free = (resp, r') → r'.log = r.log ++ [b.shift.free] := by
            intro resp r' h
            unfold ARd.read at h
            cases hr : r.acts with
            | nil => simp [hr] at h; rw [← h.2]
            | cons a as => cases a <;> simp [hr] at h <;> rw [← h.2]
          rcases hrd : r.read b.shift.free with ⟨resp, r'⟩
          have hl := hlog resp r' hrd
          cases resp with
          | pending => exact ⟨[b.shift.free], by simp [hl], by simp; omega⟩
          | err e => exact ⟨[b.shift.free], by simp [hl], by simp; omega⟩
          | data c =>
            simp only
            by_cases hc : c = []
            · simp only [hc, if_true]; exact ⟨[b.shift.free], by simp [hl], by simp; omega⟩
            · simp only [hc, if_false]
              obtain ⟨ds, h1, h2⟩ := ih (b.shift.append c) r'
              refine ⟨b.shift.free :: ds, by rw [h1, hl]; simp, ?_⟩
              intro d hd
              simp only [List.mem_cons] at hd
              rcases hd with rfl | hd
              · exact ⟨hpos, hle⟩
              · exact h2 d hd

/-- `copy_once_from`: exactly one reader call with the whole free space when there is room, none (InvalidData) when
    the buffer is completely full; exactly the reported count is committed; a reader error or panic changes nothing -/
theorem copy_once_from_spec (oc : Bool) (b : Buf) (resp : RdResp) (h : b.WInv) :
    (b.mem.length - b.wi = 0 → step oc b (.copyOnce resp) = (b, { cls := .err EK_InvalidData })) ∧
    (b.mem.length - b.wi ≠ 0 →
      match resp with
      | .data bytes scr =>
        (step oc b (.copyOnce resp)).2 = { cls := .ok, nums := [min bytes.length (b.mem.length - b.wi)], log := [b.mem.length - b.wi] } ∧
        (step oc b (.copyOnce resp)).1.readable = b.readable ++ bytes.take (min bytes.length (b.mem.length - b.wi))
      | .err k => step oc b (.copyOnce resp) = (b, { cls := .err k, log := [b.mem.length - b.wi] })
      | .panic => step oc b (.copyOnce resp) = (b, { cls := .panic })) := by
  rw [step_copyOnce oc b resp h]
  refine ⟨fun h0 => by simp [h0], fun h0 => ?_⟩
  simp only [h0, if_false]
  cases resp with
  | panic => rfl
  | err k => rfl
  | data bytes scr =>
    refine ⟨rfl, ?_⟩
    have hcl := cofDest_length b bytes scr h
    have hp := put_WInv b (cofDest b bytes scr) h (by omega)
    have hml := put_mem_length b (cofDest b bytes scr) h (by omega)
    have hle : min bytes.length (b.mem.length - b.wi) ≤ b.mem.length - b.wi := Nat.min_le_right _ _
    simp only
    rw [commit_readable _ _ hp (by rw [hml]; exact hle), put_readable b _ h]
    simp only [Buf.put]
    rw [writeAt_take_drop b.mem b.wi _ (cofDest b bytes scr) h.2.1 (by rw [hcl]; exact hle)]
    congr 1
    unfold cofDest
    rw [List.take_append_of_le_length (by simp)]
    simp [List.take_take]

end FBV.C12

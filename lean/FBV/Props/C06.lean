/-
  C06 — read_frame loses nothing when the reader fails, and can always be resumed.
  All statements are for ARBITRARY scripts mixing data chunks of any sizes with reader errors of any
  kinds at any positions (`pollLoop_outcome` is proved for every script).
-/
import FBV.Props.C02
namespace FBV.C06
open FBV

def noPending (l : List Act) : Bool := l.all fun a => match a with | .pending => false | _ => true

theorem noPending_drop {l : List Act} (h : noPending l = true) (k : Nat) : noPending (l.drop k) = true := by
  simp only [noPending, List.all_eq_true] at h ⊢
  intro a ha; exact h a (List.mem_of_mem_drop ha)

/-- a reader error is returned with the kind the reader gave, nothing is consumed, and every byte received so far
    (also earlier in the same call) is still in the buffer: `unread ++ undelivered` is unchanged -/
theorem reader_error_loses_nothing {g : PDeframer} (hg : DeframerOK g) (b : AB) (r : ARd) (hb : b.Inv) (e : ErrKind)
    (fuel : Nat) (hf : r.rem.length < fuel) (he : (pollLoop (liftDf g) fuel b r).2.2 = .ioErr e) :
    Act.err e ∈ r.acts ∧
    (pollLoop (liftDf g) fuel b r).1.q ++ (pollLoop (liftDf g) fuel b r).2.1.rem = b.q ++ r.rem ∧
    (pollLoop (liftDf g) fuel b r).1.Inv ∧ (pollLoop (liftDf g) fuel b r).1.size = b.size := by
  obtain ⟨h1, h2, _, h3⟩ := pollLoop_outcome hg fuel b r hb hf
  rcases h3 with ⟨a1, _⟩ | ⟨a1, a2, _⟩
  · -- the specification never answers `ioErr`
    exfalso
    rw [he] at a1
    unfold specNext at a1
    split at a1 <;> (try split at a1) <;> (try split at a1) <;> simp at a1
  · rcases a1 with ⟨e', he', hm⟩ | ⟨hp, _, _⟩
    · rw [he] at he'; cases he'; exact ⟨hm, a2, h1, h2⟩
    · rw [he] at hp; cases hp

/-- a caller that simply calls again after every reader error -/
def callUntilOk (g : PDeframer) : Nat → AB → ARd → AB × ARd × Res
  | 0, b, r => (b, r, .fuelOut)
  | n + 1, b, r =>
    match pollLoop (liftDf g) (r.rem.length + 1) b r with
    | (b', r', .ioErr _) => callUntilOk g n b' r'
    | out => out

/-- error erasure: for ANY placement of ANY number of reader errors, re-calling yields exactly what the
    error-free specification yields (which mentions neither errors nor chunking), and the stream stays partitioned -/
theorem error_erasure {g : PDeframer} (hg : DeframerOK g) :
    ∀ (n : Nat) (b : AB) (r : ARd), b.Inv → noPending r.acts = true → r.acts.length < n →
      (callUntilOk g n b r).2.2 = (specNext b.size g (b.q ++ r.rem)).1 ∧
      (callUntilOk g n b r).1.q ++ (callUntilOk g n b r).2.1.rem = (specNext b.size g (b.q ++ r.rem)).2 ∧
      (callUntilOk g n b r).1.Inv ∧ (callUntilOk g n b r).1.size = b.size := by
  intro n
  induction n with
  | zero => intro b r _ _ h; omega
  | succ n ih =>
    intro b r hb hnp hn
    obtain ⟨h1, h2, ⟨k, hk⟩, h3⟩ := pollLoop_outcome hg (r.rem.length + 1) b r hb (Nat.lt_succ_self _)
    simp only [callUntilOk]
    rcases hout : pollLoop (liftDf g) (r.rem.length + 1) b r with ⟨b', r', res⟩
    rw [hout] at h1 h2 hk h3
    simp only at h1 h2 hk h3
    rcases h3 with ⟨a1, a2⟩ | ⟨a1, a2, a3⟩
    · -- the specification's answer: not an io error, so the loop stops here
      have hne : ∀ e, res ≠ .ioErr e := by
        intro e hc
        rw [hc] at a1
        unfold specNext at a1
        split at a1 <;> (try split at a1) <;> (try split at a1) <;> simp at a1
      cases res with
      | ioErr e => exact absurd rfl (hne e)
      | _ => exact ⟨a1, a2, h1, h2⟩
    · rcases a1 with ⟨e, he, _⟩ | ⟨hp, _, hm⟩
      · subst he
        simp only
        have := ih b' r' h1 (by rw [hk]; exact noPending_drop hnp k) (by omega)
        rw [a2, h2] at this
        obtain ⟨t1, t2, t3, t4⟩ := this
        exact ⟨t1, t2, t3, by rw [t4]⟩
      · exfalso
        simp only [noPending, List.all_eq_true] at hnp
        have := hnp _ hm
        simp at this

/-- the errors read_frame raises itself (buffer full, truncated stream) and end-of-stream leave what is pending
    untouched, so a retry sees the same pending stream and repeats the same answer -/
theorem own_errors_stable (size : Nat) (g : PDeframer) (t : List Byte)
    (h : ∀ p, (specNext size g t).1 ≠ .frame p) : (specNext size g t).2 = t := by
  unfold specNext at h ⊢
  cases hg : g t with
  | none => simp only [hg]; split <;> (try split) <;> rfl
  | some x =>
    obtain ⟨s, e, n⟩ := x
    simp only [hg] at h ⊢
    by_cases hn : n ≤ size
    · simp [hn] at h
    · simp [hn]

/-! non-vacuity: a script with two errors of different kinds around data -/
example : noPending [.chunk 0, .err 3, .chunk 1, .err 5] = true := by decide

end FBV.C06

/-
  C16, second half — "deliver the same bytes and errors as ReadWriteChain and ReadWriteTake for any placement of
  Pending by the wrapped streams".

  A blocking `Reader` plus a schedule of Pending answers is an async stream (`liftA`): a poll answered `true` in the
  schedule returns Pending without touching the reader; any other poll performs the blocking read on the unfilled
  part of the ReadBuf.  A caller awaiting `read(buf)` polls again with the same ReadBuf until the result is Ready
  (`driveChain` / `driveTake`).  The theorems say: for EVERY pair of contract-honouring blocking readers, EVERY
  Pending schedule and EVERY ReadBuf, the awaited async read returns exactly what ONE call of the blocking adapter
  returns on the unfilled part — same bytes, same count, same error — and leaves the adapter in the corresponding
  state; in particular a Pending in the middle of the chain's switch-over (first reported EOF, second pends) loses
  and repeats nothing.
-/
import FBV.Props.C16
namespace FBV.C16
open FBV

variable {σ₁ σ₂ σ : Type}

/-- a blocking reader's state plus the schedule of Pending answers (`true` = this poll pends) -/
structure PS (σ : Type) where
  st : σ
  pend : List Bool

/-- the async stream made of a blocking reader and a Pending schedule -/
def liftA (r : Reader σ) : AReader (PS σ) := fun s rb =>
  match s.pend with
  | true :: rest => ({ s with pend := rest }, .pending, rb)
  | pend =>
    match r s.st (rb.buf.drop rb.filled) with
    | (st', .ok n, d') =>
      ({ st := st', pend := pend.tail }, .ready (.ok ()), { buf := rb.buf.take rb.filled ++ d', filled := rb.filled + n })
    | (st', .error e, d') =>
      ({ st := st', pend := pend.tail }, .ready (.error e), { buf := rb.buf.take rb.filled ++ d', filled := rb.filled })

def pends (l : List Bool) : Nat := l.count true

/-- `read(buf).await` on the async chain: poll with the same ReadBuf until Ready -/
def driveChain (r1 : Reader σ₁) (r2 : Reader σ₂) :
    Nat → AChain (PS σ₁) (PS σ₂) → ReadBuf → AChain (PS σ₁) (PS σ₂) × PollRes × ReadBuf
  | 0, c, rb => (c, .pending, rb)
  | fuel + 1, c, rb =>
    match AChain.pollRead (liftA r1) (liftA r2) c rb with
    | (c', .pending, rb') => driveChain r1 r2 fuel c' rb'
    | out => out

/-- the async chain's state corresponds to the blocking chain's -/
def RelB (ac : AChain (PS σ₁) (PS σ₂)) (c : Chain σ₁ σ₂) : Prop :=
  ac.second.st = c.second ∧ ac.first.map (·.st) = c.first

def chainPends (ac : AChain (PS σ₁) (PS σ₂)) : Nat :=
  (match ac.first with | some s => pends s.pend | none => 0) + pends ac.second.pend

/-- what the awaited async read must look like, given the blocking result `(res, d')` on the unfilled part -/
def Matches (rb : ReadBuf) (res : RdRes) (d' : List Byte) (out : PollRes × ReadBuf) : Prop :=
  out.2.buf = rb.buf.take rb.filled ++ d' ∧
  match res with
  | .ok n => out.1 = .ready (.ok ()) ∧ out.2.filled = rb.filled + n
  | .error e => out.1 = .ready (.error e) ∧ out.2.filled = rb.filled

theorem pends_cons_true (l : List Bool) : pends (true :: l) = pends l + 1 := by simp [pends]
theorem pends_tail_le (l : List Bool) : pends l.tail ≤ pends l := by
  cases l with
  | nil => simp
  | cons a l => cases a <;> simp [pends]

/-- polling a lifted reader whose schedule does not start with `true` is the blocking read -/
theorem liftA_ready (r : Reader σ) (s : PS σ) (rb : ReadBuf) (h : ∀ rest, s.pend ≠ true :: rest) :
    liftA r s rb =
      match r s.st (rb.buf.drop rb.filled) with
      | (st', .ok n, d') =>
        ({ st := st', pend := s.pend.tail }, .ready (.ok ()), { buf := rb.buf.take rb.filled ++ d', filled := rb.filled + n })
      | (st', .error e, d') =>
        ({ st := st', pend := s.pend.tail }, .ready (.error e), { buf := rb.buf.take rb.filled ++ d', filled := rb.filled }) := by
  unfold liftA
  cases hp : s.pend with
  | nil => rfl
  | cons a rest =>
    cases a with
    | true => exact absurd hp (h rest)
    | false => rfl

theorem liftA_pending (r : Reader σ) (s : PS σ) (rb : ReadBuf) (rest : List Bool) (h : s.pend = true :: rest) :
    liftA r s rb = ({ s with pend := rest }, .pending, rb) := by
  unfold liftA; simp [h]

/-- once the chain has let go of `first`, the awaited read is the blocking read of `second` -/
theorem drive_second (r1 : Reader σ₁) (r2 : Reader σ₂) :
    ∀ (fuel : Nat) (ac : AChain (PS σ₁) (PS σ₂)) (rb : ReadBuf), ac.first = none → pends ac.second.pend < fuel →
      let out := driveChain r1 r2 fuel ac rb
      let bl := r2 ac.second.st (rb.buf.drop rb.filled)
      out.1.first = none ∧ out.1.second.st = bl.1 ∧ Matches rb bl.2.1 bl.2.2 out.2 := by
  intro fuel
  induction fuel with
  | zero => intro ac rb _ h; omega
  | succ fuel ih =>
    intro ac rb hf hp
    simp only [driveChain, AChain.pollRead, hf]
    cases hpend : ac.second.pend with
    | cons a rest =>
      cases a with
      | true =>
        rw [liftA_pending r2 ac.second rb rest hpend]
        simp only
        have := ih { ac with second := { ac.second with pend := rest } } rb hf (by
          simp only; rw [hpend, pends_cons_true] at hp; omega)
        simpa [hf] using this
      | false =>
        rw [liftA_ready r2 ac.second rb (by intro rest' h; rw [hpend] at h; cases h)]
        rcases hr : r2 ac.second.st (rb.buf.drop rb.filled) with ⟨st', res, d'⟩
        cases res with
        | ok n => simp [Matches]
        | error e => simp [Matches]
    | nil =>
      rw [liftA_ready r2 ac.second rb (by intro rest' h; rw [hpend] at h; cases h)]
      rcases hr : r2 ac.second.st (rb.buf.drop rb.filled) with ⟨st', res, d'⟩
      cases res with
      | ok n => simp [Matches]
      | error e => simp [Matches]

/-- the poll in which the chain switches over is the first poll of the awaited read on the switched chain -/
theorem drive_switch (r1 : Reader σ₁) (r2 : Reader σ₂) (fuel : Nat) (ac : AChain (PS σ₁) (PS σ₂)) (s1' : PS σ₁) (rb' : ReadBuf) :
    (match liftA r2 ac.second rb' with
     | (s2', res2, rb'') =>
       match (({ first := none, dropped := some s1', second := s2' } : AChain (PS σ₁) (PS σ₂)), res2, rb'') with
       | (c', .pending, rb3) => driveChain r1 r2 fuel c' rb3
       | out => out) =
    driveChain r1 r2 (fuel + 1) { first := none, dropped := some s1', second := ac.second } rb' := by
  simp only [driveChain, AChain.pollRead]

/-- the case in which `first` answers (no Pending scheduled for this poll) -/
theorem chain_ready_case (r1 : Reader σ₁) (r2 : Reader σ₂) (fuel : Nat) (ac : AChain (PS σ₁) (PS σ₂)) (c : Chain σ₁ σ₂)
    (rb : ReadBuf) (s1 : PS σ₁) (hrb : rb.filled ≤ rb.buf.length) (hsec : ac.second.st = c.second)
    (hf : ac.first = some s1) (hcf : c.first = some s1.st) (hnp : ∀ rest, s1.pend ≠ true :: rest)
    (hp : chainPends ac < fuel + 1) :
    RelB (driveChain r1 r2 (fuel + 1) ac rb).1 (Chain.read r1 r2 c (rb.buf.drop rb.filled)).1 ∧
    Matches rb (Chain.read r1 r2 c (rb.buf.drop rb.filled)).2.1 (Chain.read r1 r2 c (rb.buf.drop rb.filled)).2.2
      (driveChain r1 r2 (fuel + 1) ac rb).2 := by
  have hlen : (rb.buf.take rb.filled).length = rb.filled := by simp; omega
  have hdl : (rb.buf.drop rb.filled).length = rb.remaining := by simp [ReadBuf.remaining]
  simp only [driveChain, AChain.pollRead, hf, Chain.read, hcf, liftA_ready r1 s1 rb hnp]
  rcases hr : r1 s1.st (rb.buf.drop rb.filled) with ⟨st', res, d'⟩
  cases res with
  | error e => simp [RelB, Matches, hsec]
  | ok n =>
    simp only
    by_cases hn : n = 0
    · subst hn
      by_cases hd0 : (rb.buf.drop rb.filled).length = 0
      · -- empty destination: `Ok(0)` is not end-of-stream
        have hrem : rb.remaining = 0 := by rw [← hdl]; exact hd0
        simp [hd0, hrem, RelB, Matches, hsec]
      · have hrem : ¬ rb.remaining = 0 := by rw [← hdl]; exact hd0
        simp only [Nat.add_zero, Nat.sub_self, Nat.lt_irrefl, gt_iff_lt, hrem, or_self, if_false, ne_eq, hd0,
          not_false_eq_true, if_true]
        -- switch-over: `second` is polled in the same poll, possibly pending
        have hsw := drive_switch r1 r2 fuel ac { st := st', pend := s1.pend.tail }
          { buf := rb.buf.take rb.filled ++ d', filled := rb.filled }
        have hds := drive_second r1 r2 (fuel + 1)
          { first := none, dropped := some { st := st', pend := s1.pend.tail }, second := ac.second }
          { buf := rb.buf.take rb.filled ++ d', filled := rb.filled } rfl
          (by simp only [chainPends, hf] at hp; simp only; omega)
        simp only at hds
        rw [← hsw] at hds
        have hdrop : (rb.buf.take rb.filled ++ d').drop rb.filled = d' := by
          rw [List.drop_append_of_le_length (by omega)]; simp [hlen]
        have htake : (rb.buf.take rb.filled ++ d').take rb.filled = rb.buf.take rb.filled := by
          rw [List.take_append_of_le_length (by omega)]; simp [List.take_take]
        rw [hdrop, hsec] at hds
        rcases hr2 : r2 c.second d' with ⟨st2, res2, d2⟩
        rw [hr2] at hds
        obtain ⟨h1, h2, h3⟩ := hds
        refine ⟨⟨h2, by rw [h1]; rfl⟩, ?_⟩
        simp only [Matches, htake] at h3 ⊢
        exact h3
    · have hpos : 0 < n := Nat.pos_of_ne_zero hn
      have : rb.filled + n - rb.filled > 0 := by omega
      simp only [this, true_or, if_true]
      cases n with
      | zero => omega
      | succ m => simp [RelB, Matches, hsec]

/-- **awaited async chain read = one blocking chain read**, for every pair of blocking readers, every Pending
    schedule on either stream, every ReadBuf -/
theorem chain_await_eq_blocking (r1 : Reader σ₁) (r2 : Reader σ₂) :
    ∀ (fuel : Nat) (ac : AChain (PS σ₁) (PS σ₂)) (c : Chain σ₁ σ₂) (rb : ReadBuf),
      rb.filled ≤ rb.buf.length → RelB ac c → chainPends ac < fuel →
      RelB (driveChain r1 r2 fuel ac rb).1 (Chain.read r1 r2 c (rb.buf.drop rb.filled)).1 ∧
      Matches rb (Chain.read r1 r2 c (rb.buf.drop rb.filled)).2.1 (Chain.read r1 r2 c (rb.buf.drop rb.filled)).2.2
        (driveChain r1 r2 fuel ac rb).2 := by
  intro fuel
  induction fuel with
  | zero => intro ac c rb _ _ h; omega
  | succ fuel ih =>
    intro ac c rb hrb hrel hp
    obtain ⟨hsec, hfirst⟩ := hrel
    cases hf : ac.first with
    | none =>
      have hcf : c.first = none := by rw [← hfirst, hf]; rfl
      have hd := drive_second r1 r2 (fuel + 1) ac rb hf (by simp only [chainPends, hf] at hp; omega)
      simp only [Chain.read, hcf, ← hsec]
      obtain ⟨h1, h2, h3⟩ := hd
      refine ⟨⟨h2, ?_⟩, h3⟩
      rw [h1]; rfl
    | some s1 =>
      have hcf : c.first = some s1.st := by rw [← hfirst, hf]; rfl
      cases hpend : s1.pend with
      | cons a rest =>
        cases a with
        | true =>
          -- first pends: nothing happens, poll again
          simp only [driveChain, AChain.pollRead, hf, liftA_pending r1 s1 rb rest hpend]
          apply ih { ac with first := some { s1 with pend := rest } } c rb hrb
          · exact ⟨hsec, by simpa using hcf.symm⟩
          · simp only [chainPends, hf, hpend, pends_cons_true] at hp ⊢; omega
        | false =>
          exact chain_ready_case r1 r2 fuel ac c rb s1 hrb hsec hf hcf (by intro rest' h; rw [hpend] at h; cases h) hp
      | nil =>
        exact chain_ready_case r1 r2 fuel ac c rb s1 hrb hsec hf hcf (by intro rest' h; rw [hpend] at h; cases h) hp

/-! ### take -/

/-- `read(buf).await` on the async take -/
def driveTake (oc : Bool) (r : Reader σ) : Nat → ATake (PS σ) → ReadBuf → ATake (PS σ) × Outcome (PollRes × ReadBuf)
  | 0, t, rb => (t, .ok (.pending, rb))
  | fuel + 1, t, rb =>
    match ATake.pollRead oc (liftA r) t rb with
    | (t', .ok (.pending, rb')) => driveTake oc r fuel t' rb'
    | out => out

theorem merge_sub_self (rb : ReadBuf) (k : Nat) :
    rb.merge k { rb.sub k with filled := 0 } = rb := by
  simp only [ReadBuf.merge, ReadBuf.sub, Nat.add_zero]
  have : (rb.buf.drop rb.filled).take k ++ rb.buf.drop (rb.filled + k) = rb.buf.drop rb.filled := by
    rw [← List.drop_drop]; exact List.take_append_drop k _
  rw [List.append_assoc, this, List.take_append_drop]

theorem take_ready_case (oc : Bool) (r : Reader σ) (fuel : Nat) (t : ATake (PS σ)) (tb : Take σ) (rb : ReadBuf)
    (hst : t.inner.st = tb.inner) (hrem : t.remaining = tb.remaining) (h0 : ¬ t.remaining = 0) (h0' : ¬ tb.remaining = 0)
    (hnp : ∀ rest, t.inner.pend ≠ true :: rest) :
    match Take.read oc r tb (rb.buf.drop rb.filled) with
    | (tb', .ok (res, d')) =>
      ∃ t' out, driveTake oc r (fuel + 1) t rb = (t', .ok out) ∧ t'.inner.st = tb'.inner ∧ t'.remaining = tb'.remaining ∧
        Matches rb res d' out
    | (tb', .panic) => ∃ t', driveTake oc r (fuel + 1) t rb = (t', .panic) ∧ t'.inner.st = tb'.inner := by
  have hdl : (rb.buf.drop rb.filled).length = rb.remaining := by simp [ReadBuf.remaining]
  have hsubdrop : ((rb.sub (min t.remaining rb.remaining)).buf.drop (rb.sub (min t.remaining rb.remaining)).filled) =
      (rb.buf.drop rb.filled).take (min tb.remaining (rb.buf.drop rb.filled).length) := by
    simp [ReadBuf.sub, hrem, hdl]
  simp only [Take.read, h0', if_false, driveTake, ATake.pollRead, h0, liftA_ready r t.inner _ hnp, hsubdrop, hst]
  rcases hr : r tb.inner ((rb.buf.drop rb.filled).take (min tb.remaining (rb.buf.drop rb.filled).length)) with ⟨st', res, d'⟩
  have hk : min t.remaining rb.remaining = min tb.remaining (rb.buf.drop rb.filled).length := by rw [hrem, hdl]
  have hdd : (rb.buf.drop rb.filled).drop (min tb.remaining (rb.buf.drop rb.filled).length) =
      rb.buf.drop (rb.filled + min tb.remaining (rb.buf.drop rb.filled).length) := by rw [List.drop_drop]
  cases res with
  | error e =>
    refine ⟨_, _, rfl, rfl, hrem, ?_⟩
    simp [Matches, ReadBuf.merge, ReadBuf.sub, hk, hdd]
  | ok n =>
    simp only [ReadBuf.sub, List.take_zero, List.nil_append, Nat.zero_add, hrem]
    cases hsub : usizeSub oc tb.remaining n with
    | panic => exact ⟨_, rfl, rfl⟩
    | ok rem' =>
      refine ⟨_, _, rfl, rfl, rfl, ?_⟩
      simp [Matches, ReadBuf.merge, ReadBuf.remaining, hdd]

/-- **awaited async take read = one blocking take read** (same bytes, count, error, allowance; a panic of the checked
    subtraction — possible only for an inner reader that breaks its contract — in the same cases), for every blocking
    inner reader, every Pending schedule, every ReadBuf, both overflow-check settings -/
theorem take_await_eq_blocking (oc : Bool) (r : Reader σ) :
    ∀ (fuel : Nat) (t : ATake (PS σ)) (tb : Take σ) (rb : ReadBuf),
      t.inner.st = tb.inner → t.remaining = tb.remaining → pends t.inner.pend < fuel →
      match Take.read oc r tb (rb.buf.drop rb.filled) with
      | (tb', .ok (res, d')) =>
        ∃ t' out, driveTake oc r fuel t rb = (t', .ok out) ∧ t'.inner.st = tb'.inner ∧ t'.remaining = tb'.remaining ∧
          Matches rb res d' out
      | (tb', .panic) => ∃ t', driveTake oc r fuel t rb = (t', .panic) ∧ t'.inner.st = tb'.inner := by
  intro fuel
  induction fuel with
  | zero => intro t tb rb _ _ h; omega
  | succ fuel ih =>
    intro t tb rb hst hrem hp
    by_cases h0 : t.remaining = 0
    · have h0' : tb.remaining = 0 := by rw [← hrem]; exact h0
      simp only [Take.read, h0', if_true, driveTake, ATake.pollRead, h0]
      exact ⟨t, _, rfl, hst, (by first | exact hrem | exact h0), by simp [Matches]⟩
    · have h0' : ¬ tb.remaining = 0 := by rw [← hrem]; exact h0
      have hdl : (rb.buf.drop rb.filled).length = rb.remaining := by simp [ReadBuf.remaining]
      cases hpend : t.inner.pend with
      | cons a rest =>
        cases a with
        | true =>
          simp only [driveTake, ATake.pollRead, h0, if_false, liftA_pending r t.inner _ rest hpend, merge_sub_self]
          have := ih { t with inner := { t.inner with pend := rest } } tb rb hst hrem (by
            simp only; rw [hpend, pends_cons_true] at hp; omega)
          exact this
        | false =>
          exact take_ready_case oc r fuel t tb rb hst hrem h0 h0' (by intro rest' h; rw [hpend] at h; cases h)
      | nil =>
        exact take_ready_case oc r fuel t tb rb hst hrem h0 h0' (by intro rest' h; rw [hpend] at h; cases h)

/-! ### the hypotheses of the poll-level theorems are met by whole classes of streams -/

/-- every contract-honouring blocking reader, with any Pending schedule, is a contract-honouring async stream -/
theorem liftA_ok (r : Reader σ) (hr : ReaderOK r) : AReaderOK (liftA r) := by
  intro s rb hrb
  have hlen : (rb.buf.take rb.filled).length = rb.filled := by simp; omega
  cases hp : s.pend with
  | cons a rest =>
    cases a with
    | true => rw [liftA_pending r s rb rest hp]; simp [hrb]
    | false =>
      rw [liftA_ready r s rb (by intro rest' h; rw [hp] at h; cases h)]
      obtain ⟨h1, h2⟩ := hr s.st (rb.buf.drop rb.filled)
      rcases hrd : r s.st (rb.buf.drop rb.filled) with ⟨st', res, d'⟩
      rw [hrd] at h1 h2
      simp only at h1 h2
      cases res with
      | ok n =>
        have hn := h2 n rfl
        simp only [List.length_drop] at hn h1
        refine ⟨by simp [h1]; omega, by simp, by simp [h1]; omega, ?_, by simp⟩
        simp only
        rw [List.take_append_of_le_length (by omega)]; simp [List.take_take]
      | error e =>
        simp only [List.length_drop] at h1
        refine ⟨by simp [h1]; omega, by simp, by simp [h1]; omega, ?_, by simp⟩
        simp only
        rw [List.take_append_of_le_length (by omega)]; simp [List.take_take]
  | nil =>
    rw [liftA_ready r s rb (by intro rest' h; rw [hp] at h; cases h)]
    obtain ⟨h1, h2⟩ := hr s.st (rb.buf.drop rb.filled)
    rcases hrd : r s.st (rb.buf.drop rb.filled) with ⟨st', res, d'⟩
    rw [hrd] at h1 h2
    simp only at h1 h2
    cases res with
    | ok n =>
      have hn := h2 n rfl
      simp only [List.length_drop] at hn h1
      refine ⟨by simp [h1]; omega, by simp, by simp [h1]; omega, ?_, by simp⟩
      simp only
      rw [List.take_append_of_le_length (by omega)]; simp [List.take_take]
    | error e =>
      simp only [List.length_drop] at h1
      refine ⟨by simp [h1]; omega, by simp, by simp [h1]; omega, ?_, by simp⟩
      simp only
      rw [List.take_append_of_le_length (by omega)]; simp [List.take_take]

/-- the scripted async read-writer the correspondence check drives the adapters with honours the contract -/
theorem asrwReader_ok : AReaderOK asrwReader := by
  intro s rb hrb
  have hlen : (rb.buf.take rb.filled).length = rb.filled := by simp; omega
  simp only [asrwReader, ASRW.pollRead]
  cases hr : s.racts with
  | nil =>
    simp only [ReadBuf.remaining]
    refine ⟨by simp; omega, by simp, by simp; omega, ?_, by simp⟩
    rw [List.append_assoc, List.take_append_of_le_length (by omega)]; simp [List.take_take]
  | cons a rest =>
    cases a with
    | pending => simp [hrb]
    | eof => simp [hrb]
    | err k => simp [hrb]
    | data k scr =>
      simp only [ReadBuf.remaining]
      refine ⟨by cases scr <;> simp <;> omega, by simp, by simp; omega, ?_, by simp⟩
      rw [List.append_assoc, List.take_append_of_le_length (by omega)]; simp [List.take_take]

/-! ### non-vacuity: concrete runs -/

/-- a blocking reader over a list of bytes -/
def listReader : Reader (List Byte) := fun s dest =>
  (s.drop (min dest.length s.length), .ok (min dest.length s.length), s.take (min dest.length s.length) ++ dest.drop (min dest.length s.length))

/-- first pends once, then delivers into the unfilled part of a pre-filled ReadBuf -/
example : (driveChain listReader listReader 5 { first := some ⟨[65, 66], [true]⟩, second := ⟨[99], [true, true]⟩ } ⟨[7, 0, 0], 1⟩).2 =
    (.ready (.ok ()), ⟨[7, 65, 66], 3⟩) := by decide

/-- `first` is at its end and `second` pends twice in the middle of the switch-over: the awaited read still returns
    what ONE blocking chain read returns -/
example : (driveChain listReader listReader 5 { first := some ⟨[], []⟩, second := ⟨[99, 100], [true, true]⟩ } ⟨[7, 0, 0], 1⟩).2 =
    (.ready (.ok ()), ⟨[7, 99, 100], 3⟩) ∧
    (Chain.read listReader listReader { first := some [], second := [99, 100] } [0, 0]).2 = (.ok 2, [99, 100]) := by decide

example : (driveTake true listReader 5 ⟨⟨[65, 66, 67], [true, false]⟩, 2⟩ ⟨[7, 0, 0, 0], 1⟩).2 =
    .ok (.ready (.ok ()), ⟨[7, 65, 66, 0], 3⟩) := by decide

end FBV.C16

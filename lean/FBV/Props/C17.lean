/-
  C17 — AsyncFixedBuf's AsyncRead/AsyncWrite mirror FixedBuf's Read/Write and never pend.
  (That tokio's combinators only issue such polls is tokio's contract and is exercised, not proved.)
-/
import FBV.Model.Async
import FBV.Lemmas.StepReads
namespace FBV.C17
open FBV

/-- `poll_read`: always `Ready(Ok)`; appends `min(unfilled capacity, len())` unread bytes after the existing contents
    without disturbing them; its effect on the buffer is that of `Read::read` on the unfilled part -/
theorem poll_read_spec (oc : Bool) (b : Buf) (rb : ReadBuf) (h : b.WInv) (hrb : rb.filled ≤ rb.buf.length) :
    let n := min rb.remaining (b.wi - b.ri)
    (bufPollRead oc b rb).2.1 = .ready (.ok ()) ∧
    (bufPollRead oc b rb).2.2.filled = rb.filled + n ∧
    (bufPollRead oc b rb).2.2.filledBytes = rb.filledBytes ++ b.readable.take n ∧
    (bufPollRead oc b rb).2.2.buf.length = rb.buf.length ∧
    (bufPollRead oc b rb).1 = (readAndCopy oc (rb.buf.drop rb.filled) b).1 ∧
    (bufPollRead oc b rb).1.readable = b.readable.drop n ∧ (bufPollRead oc b rb).1.WInv := by
  intro n
  have hl := Buf.readable_length b h
  have hdl : (rb.buf.drop rb.filled).length = rb.remaining := by simp [ReadBuf.remaining]
  have hfl : (rb.buf.take rb.filled).length = rb.filled := by simp; omega
  have hsplit : rb.buf.take rb.filled ++ rb.buf.drop rb.filled = rb.buf := List.take_append_drop _ _
  by_cases hk : min rb.remaining (b.wi - b.ri) = 0
  · have hn : n = 0 := hk
    have e : readAndCopy oc (rb.buf.drop rb.filled) b = (b, .ok (0, rb.buf.drop rb.filled)) := by
      rw [readAndCopy_eq oc b _ h, hdl]; simp [hk]
    simp only [bufPollRead, e, hn, hsplit, Nat.add_zero, List.take_zero, List.append_nil, List.drop_zero]
    exact ⟨trivial, trivial, trivial, trivial, trivial, trivial, h⟩
  · have hle : n ≤ b.wi - b.ri := Nat.min_le_right _ _
    have hle2 : n ≤ rb.remaining := Nat.min_le_left _ _
    have hnl : (b.readable.take n).length = n := by simp [hl]; omega
    have e : readAndCopy oc (rb.buf.drop rb.filled) b =
        (b.consume n, .ok (n, b.readable.take n ++ (rb.buf.drop rb.filled).drop n)) := by
      rw [readAndCopy_eq oc b _ h, hdl]; simp only [hk, if_false]; rfl
    simp only [bufPollRead, e]
    refine ⟨trivial, trivial, ?_, ?_, trivial, consume_readable b n h hle, consume_WInv b n h hle⟩
    · simp only [ReadBuf.filledBytes]
      rw [← List.append_assoc, List.take_append_of_le_length (by simp [hfl, hnl])]
      rw [List.take_of_length_le (by simp [hfl, hnl])]
    · simp only [List.length_append, List.length_drop, hfl, hnl, ReadBuf.remaining] at *
      omega

/-- `poll_write`: always Ready; all-or-nothing; `InvalidData` and NO change when the data does not fit -/
theorem poll_write_spec (oc : Bool) (b : Buf) (d : List Byte) (h : b.WInv) :
    bufPollWrite oc b d =
      if d.length ≤ b.mem.length - b.wi then ((b.put d).commit d.length, .ok (.ready (.ok d.length)))
      else (b, .ok (.ready (.error EK_InvalidData))) := by
  simp only [bufPollWrite, writeBytes_eq oc b d h]
  by_cases hd : d.length ≤ b.mem.length - b.wi <;> simp [hd]

theorem poll_write_effect (oc : Bool) (b : Buf) (d : List Byte) (h : b.WInv) (hd : d.length ≤ b.mem.length - b.wi) :
    (bufPollWrite oc b d).1.readable = b.readable ++ d := by
  rw [poll_write_spec oc b d h]; simp [hd, put_commit_readable b d h]

/-- flush / shutdown succeed immediately without effect -/
theorem poll_flush_spec (b : Buf) : bufPollFlush b = (b, .ready (.ok ())) := rfl

/-- AsyncFixedBuf as an `AsyncRead` honours the contract the adapter theorems (C16) assume -/
theorem bufPollRead_ok (oc : Bool) (b : Buf) (rb : ReadBuf) (h : b.WInv) (hrb : rb.filled ≤ rb.buf.length) :
    (bufPollRead oc b rb).2.2.buf.length = rb.buf.length ∧ rb.filled ≤ (bufPollRead oc b rb).2.2.filled ∧
    (bufPollRead oc b rb).2.2.filled ≤ rb.buf.length ∧
    (bufPollRead oc b rb).2.2.buf.take rb.filled = rb.buf.take rb.filled := by
  obtain ⟨_, hf, hfb, hlen, _, _, _⟩ := poll_read_spec oc b rb h hrb
  have hle2 : min rb.remaining (b.wi - b.ri) ≤ rb.buf.length - rb.filled := Nat.min_le_left _ _
  refine ⟨hlen, by omega, by omega, ?_⟩
  have := congrArg (List.take rb.filled) hfb
  simp only [ReadBuf.filledBytes, List.take_take] at this
  rw [Nat.min_eq_left (by omega)] at this
  rw [this, List.take_append_of_le_length (by simp; omega)]
  simp [List.take_take]

end FBV.C17

/-
  C02 — read_frame yields the stream's frames regardless of how reads are chunked.
  `specNext size g t` is a function of the capacity, the deframer and the pending byte stream
  `t = unread buffer bytes ++ bytes the reader has not delivered yet` ALONE: no chunk schedule occurs
  in it.  `read_frame_spec` says every call returns exactly that, for every stream, every schedule of
  chunk sizes (a script entry `chunk k` = "at most k+1 bytes", so every list is a well-behaved reader),
  every SIZE ≥ 0, every deframer honouring the documented contract (the three provided ones do: C05),
  and every starting state of the buffer (empty or pre-loaded at any read offset).
-/
import FBV.Lemmas.LoopLemmas
import FBV.Lemmas.Refine
import FBV.Props.C05
namespace FBV.C02
open FBV

def isChunk : Act → Bool
  | .chunk _ => true
  | _ => false

theorem all_drop {l : List Act} (h : l.all isChunk = true) (k : Nat) : (l.drop k).all isChunk = true := by
  simp only [List.all_eq_true] at h ⊢
  intro a ha; exact h a (List.mem_of_mem_drop ha)

/-- one call: the result and what stays pending are those of the chunking-free specification -/
theorem read_frame_spec {g : PDeframer} (hg : DeframerOK g) (b : AB) (r : ARd) (hb : b.Inv)
    (hr : r.acts.all isChunk = true) (fuel : Nat) (hf : r.rem.length < fuel) :
    let out := pollLoop (liftDf g) fuel b r
    out.2.2 = (specNext b.size g (b.q ++ r.rem)).1 ∧
    out.1.q ++ out.2.1.rem = (specNext b.size g (b.q ++ r.rem)).2 ∧
    out.1.Inv ∧ out.1.size = b.size ∧ out.2.1.acts.all isChunk = true := by
  obtain ⟨h1, h2, ⟨k, hk⟩, h3⟩ := pollLoop_outcome hg fuel b r hb hf
  have hall : (pollLoop (liftDf g) fuel b r).2.1.acts.all isChunk = true := by rw [hk]; exact all_drop hr k
  rcases h3 with ⟨a1, a2⟩ | ⟨a1, _, _⟩
  · exact ⟨a1, a2, h1, h2, hall⟩
  · exfalso
    simp only [List.all_eq_true] at hr
    rcases a1 with ⟨e, _, hm⟩ | ⟨_, _, hm⟩
    · have := hr _ hm; simp [isChunk] at this
    · have := hr _ hm; simp [isChunk] at this

/-- repeated calls until a terminal result -/
def callAll (g : PDeframer) : Nat → AB → ARd → List Res
  | 0, _, _ => []
  | n + 1, b, r =>
    match pollLoop (liftDf g) (r.rem.length + 1) b r with
    | (b', r', .frame p) => .frame p :: callAll g n b' r'
    | (_, _, res) => [res]

/-- all calls: exactly the frames of the stream in order, then the terminal outcome the specification names —
    the right-hand side does not mention the chunk schedule: this IS chunking independence -/
theorem read_frames_all {g : PDeframer} (hg : DeframerOK g) (n : Nat) (b : AB) (r : ARd) (hb : b.Inv)
    (hr : r.acts.all isChunk = true) :
    callAll g n b r = specAll b.size g n (b.q ++ r.rem) := by
  induction n generalizing b r with
  | zero => rfl
  | succ n ih =>
    obtain ⟨h1, h2, h3, h4, h5⟩ := read_frame_spec hg b r hb hr (r.rem.length + 1) (Nat.lt_succ_self _)
    simp only [callAll, specAll]
    rcases hout : pollLoop (liftDf g) (r.rem.length + 1) b r with ⟨b', r', res⟩
    rw [hout] at h1 h2 h3 h4 h5
    simp only at h1 h2 h3 h4 h5
    rcases hs : specNext b.size g (b.q ++ r.rem) with ⟨sres, st⟩
    rw [hs] at h1 h2
    simp only at h1 h2
    subst h1
    cases res with
    | frame p =>
      simp only
      rw [ih b' r' h3 h5, h4, h2]
    | _ => rfl

/-- chunking independence, stated directly: two different delivery schedules of the same stream give the same results -/
theorem chunking_independent {g : PDeframer} (hg : DeframerOK g) (n : Nat) (b : AB) (rem : List Byte)
    (s1 s2 : List Act) (hb : b.Inv) (h1 : s1.all isChunk = true) (h2 : s2.all isChunk = true) :
    callAll g n b { rem := rem, acts := s1 } = callAll g n b { rem := rem, acts := s2 } := by
  rw [read_frames_all hg n b _ hb h1, read_frames_all hg n b _ hb h2]

/-- the terminal outcomes are as the property states them -/
theorem terminal_cases (size : Nat) (g : PDeframer) (t : List Byte) :
    (g t = none → size ≤ t.length → (specNext size g t).1 = .invalid) ∧
    (g t = none → t.length < size → t = [] → (specNext size g t).1 = .eofNone) ∧
    (g t = none → t.length < size → t ≠ [] → (specNext size g t).1 = .ueof) ∧
    (∀ s e n, g t = some (s, e, n) → n ≤ size → (specNext size g t) = (.frame ((t.take e).drop s), t.drop n)) ∧
    (∀ s e n, g t = some (s, e, n) → size < n → (specNext size g t).1 = .invalid) := by
  refine ⟨?_, ?_, ?_, ?_, ?_⟩
  · intro h1 h2; simp [specNext, h1, h2]
  · intro h1 h2 h3; subst h3
    have : ¬ size = 0 := by simp at h2; omega
    simp [specNext, h1, this]
  · intro h1 h2 h3; have : ¬ size ≤ t.length := by omega
    simp [specNext, h1, this, h3]
  · intro s e n h1 h2; simp [specNext, h1, h2]
  · intro s e n h1 h2; have : ¬ n ≤ size := by omega
    simp [specNext, h1, this]

/-- instances: the three provided deframers honour the contract (C05), so all of the above applies to them -/
theorem line_instance (n : Nat) (b : AB) (r : ARd) (hb : b.Inv) (hr : r.acts.all isChunk = true) :
    callAll deframeLine n b r = specAll b.size deframeLine n (b.q ++ r.rem) := read_frames_all C05.line_ok n b r hb hr
theorem crlf_instance (n : Nat) (b : AB) (r : ARd) (hb : b.Inv) (hr : r.acts.all isChunk = true) :
    callAll deframeCrlf n b r = specAll b.size deframeCrlf n (b.q ++ r.rem) := read_frames_all C05.crlf_ok n b r hb hr
theorem null_instance (n : Nat) (b : AB) (r : ARd) (hb : b.Inv) (hr : r.acts.all isChunk = true) :
    callAll deframeNull n b r = specAll b.size deframeNull n (b.q ++ r.rem) := read_frames_all C05.null_ok n b r hb hr

/-! non-vacuity: a pre-loaded buffer at a non-zero read offset and a schedule that splits a CR LF pair -/
example : ({ size := 8, ri := 2, q := [97, 13] } : AB).Inv := by simp [AB.Inv]
example : ([Act.chunk 0, .chunk 2, .chunk 0] : List Act).all isChunk = true := by decide

end FBV.C02

/-
  C14 — async read_frame / copy_once_from equal the blocking ones under any Pending order.
  The shared loop theorem (`pollLoop_outcome`) is proved for scripts containing `pending` actions, so everything C02, C06
  and C12 state about the loop holds verbatim for polls; this file adds what is specific to polling.
-/
import FBV.Props.C15
namespace FBV.C14
open FBV

/-- a poll reports Pending only if the reader reported Pending during that same poll, and every byte the reader
    delivered before that point is already retained in the buffer -/
theorem pending_only_if_reader_pending {g : PDeframer} (hg : DeframerOK g) (fuel : Nat) (b : AB) (r : ARd) (hb : b.Inv)
    (hf : r.rem.length < fuel) (hp : (pollLoop (liftDf g) fuel b r).2.2 = .pending) :
    Act.pending ∈ r.acts ∧
    (pollLoop (liftDf g) fuel b r).1.q ++ (pollLoop (liftDf g) fuel b r).2.1.rem = b.q ++ r.rem :=
  let h := C15.pending_state hg fuel b r hb hf hp
  ⟨h.1, h.2.2.1⟩

/-- the general conversation, reader errors at any poll included: it ends with the specification's result, or with an
    error the reader produced and nothing lost (C06 for polls) -/
theorem drive_outcome {g : PDeframer} (hg : DeframerOK g) :
    ∀ (n : Nat) (start : Bool) (b : AB) (r : ARd) (choices : List Bool),
      b.Inv → (start = false → AtAwait g b) → r.acts.length < n →
      (C15.drive g n start b r choices).1.Inv ∧ (C15.drive g n start b r choices).1.size = b.size ∧
      (((C15.drive g n start b r choices).2.2 = (specNext b.size g (b.q ++ r.rem)).1 ∧
        (C15.drive g n start b r choices).1.q ++ (C15.drive g n start b r choices).2.1.rem = (specNext b.size g (b.q ++ r.rem)).2) ∨
       (∃ e, (C15.drive g n start b r choices).2.2 = .ioErr e ∧ Act.err e ∈ r.acts ∧
        (C15.drive g n start b r choices).1.q ++ (C15.drive g n start b r choices).2.1.rem = b.q ++ r.rem)) := by
  intro n
  induction n with
  | zero => intro _ b r _ _ _ h; omega
  | succ n ih =>
    intro start b r choices hb hat hn
    have hout : (if start then pollLoop (liftDf g) (r.fuel + 1) b r else pollAwait (liftDf g) r.fuel b r) =
        pollLoop (liftDf g) (r.fuel + 1) b r := by
      cases start with
      | true => rfl
      | false => simp only [Bool.false_eq_true, if_false]; exact (C15.restart_eq_resume g r.fuel b r (hat rfl)).symm
    have hfuel : r.rem.length < r.fuel + 1 := by simp [ARd.fuel]; omega
    obtain ⟨h1, h2, ⟨k, hk⟩, h3⟩ := pollLoop_outcome hg (r.fuel + 1) b r hb hfuel
    simp only [C15.drive, hout]
    rcases hres : pollLoop (liftDf g) (r.fuel + 1) b r with ⟨b', r', res⟩
    rw [hres] at h1 h2 hk h3
    simp only at h1 h2 hk h3
    rcases h3 with ⟨a1, a2⟩ | ⟨a1, a2, a3⟩
    · have hnp : res ≠ .pending := by rw [a1]; exact C15.spec_not_pending _ _ _
      cases res with
      | pending => exact absurd rfl hnp
      | _ => exact ⟨h1, h2, Or.inl ⟨a1, a2⟩⟩
    · rcases a1 with ⟨e, he, hm⟩ | ⟨hp, hat', _⟩
      · subst he
        exact ⟨h1, h2, Or.inr ⟨e, rfl, hm, a2⟩⟩
      · subst hp
        have hmem : ∀ a, a ∈ r'.acts → a ∈ r.acts := by
          intro a ha; rw [hk] at ha; exact List.mem_of_mem_drop ha
        have key : ∀ st cs, (st = false → AtAwait g b') →
            (C15.drive g n st b' r' cs).1.Inv ∧ (C15.drive g n st b' r' cs).1.size = b.size ∧
            (((C15.drive g n st b' r' cs).2.2 = (specNext b.size g (b.q ++ r.rem)).1 ∧
              (C15.drive g n st b' r' cs).1.q ++ (C15.drive g n st b' r' cs).2.1.rem = (specNext b.size g (b.q ++ r.rem)).2) ∨
             (∃ e, (C15.drive g n st b' r' cs).2.2 = .ioErr e ∧ Act.err e ∈ r.acts ∧
              (C15.drive g n st b' r' cs).1.q ++ (C15.drive g n st b' r' cs).2.1.rem = b.q ++ r.rem)) := by
          intro st cs hst
          have := ih st b' r' cs h1 hst (by omega)
          rw [a2, h2] at this
          obtain ⟨t1, t2, t3⟩ := this
          refine ⟨t1, t2, ?_⟩
          rcases t3 with t3 | ⟨e, te, tm, tp⟩
          · exact Or.inl t3
          · exact Or.inr ⟨e, te, hmem _ tm, tp⟩
        cases choices with
        | nil => exact key false [] (fun _ => hat')
        | cons c cs =>
          cases c with
          | true => exact key true cs (fun h => by cases h)
          | false => exact key false cs (fun _ => hat')

end FBV.C14

/-
  C08 / C09 over finite streams: draining the adapters yields exactly the bytes the property names.
  (Stream readers deliver their bytes in order, possibly in short chunks; `Rd` = remaining bytes + a schedule
  of chunk sizes, entry `k` = "at most k+1 bytes", so every schedule is a well-behaved reader.)
-/
import FBV.Props.C08
import FBV.Props.C09
namespace FBV.C08
open FBV

/-- a finite stream with a delivery schedule, as a `Reader` -/
structure Rd where
  rem : List Byte
  sched : List Nat
deriving Repr, DecidableEq

def rdReader : Reader Rd := fun r dest =>
  let k := match r.sched with | [] => dest.length | k :: _ => k + 1
  let n := min (min k dest.length) r.rem.length
  ({ rem := r.rem.drop n, sched := r.sched.tail }, .ok n, r.rem.take n ++ dest.drop n)

theorem rdReader_ok : ReaderOK rdReader := by
  intro r dest
  simp only [rdReader]
  refine ⟨by simp <;> omega, ?_⟩
  intro n hn; simp at hn; omega

/-- one read of a stream: the delivered bytes are the next bytes of the stream; `Ok(0)` on a non-empty destination only at the end -/
theorem rd_read (r : Rd) (dest : List Byte) :
    ∃ n, (rdReader r dest).2.1 = .ok n ∧ n ≤ dest.length ∧ (rdReader r dest).2.2.take n = r.rem.take n ∧
      (rdReader r dest).1.rem = r.rem.drop n ∧ n ≤ r.rem.length ∧ (0 < dest.length → (n = 0 ↔ r.rem = [])) := by
  simp only [rdReader]
  refine ⟨_, rfl, by omega, ?_, rfl, by omega, ?_⟩
  · rw [List.take_append_of_le_length (by simp <;> omega)]; simp [List.take_take]
  · intro hd
    constructor
    · intro h0
      have : r.rem.length = 0 := by
        rcases Nat.min_eq_zero_iff.mp h0 with h | h
        · rcases Nat.min_eq_zero_iff.mp h with h' | h'
          · cases hs : r.sched with
            | nil => simp [hs] at h'; simp [h'] at hd
            | cons k ks => simp [hs] at h'
          · omega
        · exact h
      exact List.eq_nil_of_length_eq_zero this
    · intro hr; simp [hr]

/-- read the chain to the end with destinations of positive sizes `d+1`; collect what is delivered -/
def drainChain : Nat → Chain Rd Rd → List Nat → List Byte
  | 0, _, _ => []
  | fuel + 1, c, ds =>
    let d := ds.head?.getD 0 + 1
    match Chain.read rdReader rdReader c (List.replicate d 0) with
    | (c', .ok n, out) => if n = 0 then [] else out.take n ++ drainChain fuel c' ds.tail
    | (_, .error _, _) => []

def chainPending (c : Chain Rd Rd) : List Byte :=
  (match c.first with | some r => r.rem | none => []) ++ c.second.rem

/-- C08 over finite streams: draining `ReadWriteChain(first, second)` yields every byte of `first` followed by every byte
    of `second`, for every pair of delivery schedules and every schedule of (positive) destination sizes -/
theorem chain_drains : ∀ (fuel : Nat) (c : Chain Rd Rd) (ds : List Nat),
    (chainPending c).length + 2 ≤ fuel → drainChain fuel c ds = chainPending c := by
  intro fuel
  induction fuel with
  | zero => intro c ds h; omega
  | succ fuel ih =>
    intro c ds hf
    simp only [drainChain]
    have hdpos : 0 < (List.replicate (ds.head?.getD 0 + 1) (0 : Byte)).length := by simp
    cases hfst : c.first with
    | none =>
      obtain ⟨n, hres, hnd, htake, hrem, hnl, hzero⟩ := rd_read c.second (List.replicate (ds.head?.getD 0 + 1) 0)
      simp only [Chain.read, hfst]
      rcases hr : rdReader c.second (List.replicate (ds.head?.getD 0 + 1) 0) with ⟨s2', res, out⟩
      rw [hr] at hres htake hrem
      simp only at hres htake hrem
      subst hres
      simp only [chainPending, hfst, List.nil_append]
      by_cases hn : n = 0
      · have := (hzero hdpos).mp hn
        simp [hn, this]
      · simp only [hn, if_false]
        have hp : chainPending ({ first := none, dropped := c.dropped, second := s2' } : Chain Rd Rd) = c.second.rem.drop n := by
          simp [chainPending, hrem]
        rw [ih _ ds.tail (by rw [hp]; simp [chainPending, hfst] at hf ⊢; omega), hp, htake]
        exact List.take_append_drop n _
    | some s1 =>
      obtain ⟨n, hres, hnd, htake, hrem, hnl, hzero⟩ := rd_read s1 (List.replicate (ds.head?.getD 0 + 1) 0)
      simp only [Chain.read, hfst]
      rcases hr : rdReader s1 (List.replicate (ds.head?.getD 0 + 1) 0) with ⟨s1', res, out⟩
      rw [hr] at hres htake hrem
      simp only at hres htake hrem
      subst hres
      cases n with
      | succ m =>
        simp only [chainPending, hfst]
        simp only [Nat.succ_ne_zero, if_false]
        have hp : chainPending ({ first := some s1', dropped := c.dropped, second := c.second } : Chain Rd Rd) =
            s1.rem.drop (m + 1) ++ c.second.rem := by simp [chainPending, hrem]
        rw [ih _ ds.tail (by rw [hp]; simp [chainPending, hfst] at hf ⊢; omega), hp, htake, ← List.append_assoc,
          List.take_append_drop]
      | zero =>
        -- first is exhausted: the same call falls through to second
        have hs1 : s1.rem = [] := (hzero hdpos).mp rfl
        have hne : (List.replicate (ds.head?.getD 0 + 1) (0 : Byte)).length ≠ 0 := by simp
        simp only [hne, ne_eq, not_false_eq_true, if_true]
        have hol : out.length = ds.head?.getD 0 + 1 := by
          have := (rdReader_ok s1 (List.replicate (ds.head?.getD 0 + 1) 0)).1
          rw [hr] at this; simpa using this
        obtain ⟨n2, hres2, hnd2, htake2, hrem2, hnl2, hzero2⟩ := rd_read c.second out
        rcases hr2 : rdReader c.second out with ⟨s2', res2, out2⟩
        rw [hr2] at hres2 htake2 hrem2
        simp only at hres2 htake2 hrem2
        subst hres2
        simp only [chainPending, hfst, hs1, List.nil_append]
        by_cases hn : n2 = 0
        · have := (hzero2 (by rw [hol]; omega)).mp hn
          simp [hn, this]
        · simp only [hn, if_false]
          have hp : chainPending ({ first := none, dropped := some s1', second := s2' } : Chain Rd Rd) = c.second.rem.drop n2 := by
            simp [chainPending, hrem2]
          rw [ih _ ds.tail (by rw [hp]; simp [chainPending, hfst, hs1] at hf ⊢; omega), hp, htake2]
          exact List.take_append_drop n2 _

end FBV.C08

namespace FBV.C09
open FBV FBV.C08

/-- drain the take adapter with destinations of positive sizes -/
def drainTake (oc : Bool) : Nat → Take Rd → List Nat → List Byte
  | 0, _, _ => []
  | fuel + 1, t, ds =>
    let d := ds.head?.getD 0 + 1
    match Take.read oc rdReader t (List.replicate d 0) with
    | (t', .ok (.ok n, out)) => if n = 0 then [] else out.take n ++ drainTake oc fuel t' ds.tail
    | (_, _) => []

/-- C09 over finite streams: `ReadWriteTake(inner, n)` delivers exactly the first `min(n, available)` bytes of `inner`, and the bytes
    beyond the limit stay unread in `inner` -/
theorem take_drains (oc : Bool) : ∀ (fuel : Nat) (t : Take Rd) (ds : List Nat),
    min t.remaining t.inner.rem.length + 1 ≤ fuel → drainTake oc fuel t ds = t.inner.rem.take t.remaining := by
  intro fuel
  induction fuel with
  | zero => intro t ds h; omega
  | succ fuel ih =>
    intro t ds hf
    simp only [drainTake]
    by_cases h0 : t.remaining = 0
    · simp [at_zero oc rdReader t _ h0, h0]
    · obtain ⟨t', res, d', he, hres, hinner, hd', hdl, hdd, hok, herr⟩ :=
        read_spec oc rdReader rdReader_ok t (List.replicate (ds.head?.getD 0 + 1) 0) h0
      simp only [he]
      have hkpos : 0 < min t.remaining (List.replicate (ds.head?.getD 0 + 1) (0 : Byte)).length := by simp; omega
      obtain ⟨n, hr1, hnk, htake, hrem, hnl, hzero⟩ :=
        rd_read t.inner ((List.replicate (ds.head?.getD 0 + 1) (0 : Byte)).take (min t.remaining (List.replicate (ds.head?.getD 0 + 1) (0 : Byte)).length))
      have hlen : ((List.replicate (ds.head?.getD 0 + 1) (0 : Byte)).take (min t.remaining (List.replicate (ds.head?.getD 0 + 1) (0 : Byte)).length)).length
          = min t.remaining (List.replicate (ds.head?.getD 0 + 1) (0 : Byte)).length := by simp
      rw [hr1] at hres
      subst hres
      obtain ⟨hn_le, hrem'⟩ := hok n rfl
      by_cases hn : n = 0
      · have hnil : t.inner.rem = [] := (hzero (by rw [hlen]; exact hkpos)).mp hn
        simp [hn, hnil]
      · simp only [hn, if_false]
        have hinner' : t'.inner.rem = t.inner.rem.drop n := by rw [hinner]; exact hrem
        have hkr : min t.remaining (List.replicate (ds.head?.getD 0 + 1) (0 : Byte)).length ≤ t.remaining := Nat.min_le_left _ _
        rw [ih t' ds.tail (by rw [hrem', hinner']; simp; omega), hrem', hinner']
        have hout : d'.take n = t.inner.rem.take n := by
          rw [hd', List.take_append_of_le_length (by
            have := (rdReader_ok t.inner ((List.replicate (ds.head?.getD 0 + 1) (0 : Byte)).take (min t.remaining (List.replicate (ds.head?.getD 0 + 1) (0 : Byte)).length))).1
            rw [this, hlen]; exact hn_le)]
          exact htake
        rw [hout]
        have hnr : n ≤ t.remaining := by omega
        rw [← List.take_append_drop n (t.inner.rem.take t.remaining)]
        congr 1
        · rw [List.take_take, Nat.min_eq_left hnr]
        · rw [List.drop_take]

end FBV.C09

/-
  C14 / C15 core — the async `read_frame` future.
  The future has one await point.  A poll of a fresh future runs the loop from its top (`pollLoop`);
  a poll of a suspended future continues from the await point (`pollAwait`).  Dropping a future
  discards only that position: the model's future carries NO bytes (its whole state is "at the top" /
  "at the await point"), everything taken from the reader is in the buffer.
-/
import FBV.Props.C06
namespace FBV.C15
open FBV

/-- dropping a pending future and starting a new call is the same as resuming it -/
theorem restart_eq_resume (g : PDeframer) (fuel : Nat) (b : AB) (r : ARd) (h : AtAwait g b) :
    pollLoop (liftDf g) (fuel + 1) b r = pollAwait (liftDf g) fuel b r := by
  obtain ⟨hri, hq, hfree⟩ := h
  have hv : (if b.q = [] then (Except.ok none : Except Unit _) else liftDf g b.q) = .ok none := by
    cases hq with
    | inl h => simp [h]
    | inr h => by_cases hq0 : b.q = [] <;> simp [hq0, liftDf, h]
  have hs : b.shift = b := by cases b; simp_all [AB.shift]
  simp only [pollLoop, hv, hs, hfree, if_false, pollAwait]

/-- a Pending poll: the reader reported Pending in that poll, every byte delivered so far is in the buffer
    (`unread ++ undelivered` unchanged), and the future is suspended in a state from which restart = resume -/
theorem pending_state {g : PDeframer} (hg : DeframerOK g) (fuel : Nat) (b : AB) (r : ARd) (hb : b.Inv)
    (hf : r.rem.length < fuel) (hp : (pollLoop (liftDf g) fuel b r).2.2 = .pending) :
    Act.pending ∈ r.acts ∧ AtAwait g (pollLoop (liftDf g) fuel b r).1 ∧
    (pollLoop (liftDf g) fuel b r).1.q ++ (pollLoop (liftDf g) fuel b r).2.1.rem = b.q ++ r.rem ∧
    (pollLoop (liftDf g) fuel b r).1.Inv ∧ (pollLoop (liftDf g) fuel b r).1.size = b.size ∧
    (pollLoop (liftDf g) fuel b r).2.1.acts.length < r.acts.length := by
  obtain ⟨h1, h2, _, h3⟩ := pollLoop_outcome hg fuel b r hb hf
  rcases h3 with ⟨a1, _⟩ | ⟨a1, a2, a3⟩
  · exfalso
    rw [hp] at a1
    unfold specNext at a1
    split at a1 <;> (try split at a1) <;> (try split at a1) <;> simp at a1
  · rcases a1 with ⟨e, he, _⟩ | ⟨_, hat, hm⟩
    · rw [hp] at he; cases he
    · exact ⟨hm, hat, a2, h1, h2, a3⟩

/-- one read_frame "conversation": poll; on Pending the caller either resumes the same future (`false`) or drops it
    and starts a new call (`true`), as the choice list says; reader errors end the call like any result -/
def drive (g : PDeframer) : Nat → Bool → AB → ARd → List Bool → AB × ARd × Res
  | 0, _, b, r, _ => (b, r, .fuelOut)
  | n + 1, start, b, r, choices =>
    let out := if start then pollLoop (liftDf g) (r.fuel + 1) b r else pollAwait (liftDf g) r.fuel b r
    match out with
    | (b', r', .pending) =>
      match choices with
      | true :: cs => drive g n true b' r' cs
      | _ :: cs => drive g n false b' r' cs
      | [] => drive g n false b' r' []
    | out => out

def noErr (l : List Act) : Bool := l.all fun a => match a with | .err _ => false | _ => true

theorem noErr_drop {l : List Act} (h : noErr l = true) (k : Nat) : noErr (l.drop k) = true := by
  simp only [noErr, List.all_eq_true] at h ⊢
  intro a ha; exact h a (List.mem_of_mem_drop ha)

theorem spec_not_pending (size : Nat) (g : PDeframer) (t : List Byte) : (specNext size g t).1 ≠ .pending := by
  unfold specNext
  split <;> (try split) <;> (try split) <;> simp

/-- C14 + C15: for ANY placement of Pending among the reader's polls and ANY pattern of cancellations at pending points
    (none = C14; some or all = C15), the conversation ends with exactly the chunking-free, Pending-free, cancellation-free
    specification's result and leaves exactly what it names pending: nothing is lost, nothing is committed twice -/
theorem drive_spec {g : PDeframer} (hg : DeframerOK g) :
    ∀ (n : Nat) (start : Bool) (b : AB) (r : ARd) (choices : List Bool),
      b.Inv → (start = false → AtAwait g b) → noErr r.acts = true → r.acts.length < n →
      (drive g n start b r choices).2.2 = (specNext b.size g (b.q ++ r.rem)).1 ∧
      (drive g n start b r choices).1.q ++ (drive g n start b r choices).2.1.rem = (specNext b.size g (b.q ++ r.rem)).2 ∧
      (drive g n start b r choices).1.Inv ∧ (drive g n start b r choices).1.size = b.size := by
  intro n
  induction n with
  | zero => intro _ b r _ _ _ _ h; omega
  | succ n ih =>
    intro start b r choices hb hat hne hn
    -- whichever way this poll is made, it is the loop from the top
    have hout : (if start then pollLoop (liftDf g) (r.fuel + 1) b r else pollAwait (liftDf g) r.fuel b r) =
        pollLoop (liftDf g) (r.fuel + 1) b r := by
      cases start with
      | true => rfl
      | false => simp only [Bool.false_eq_true, if_false]; exact (restart_eq_resume g r.fuel b r (hat rfl)).symm
    have hfuel : r.rem.length < r.fuel + 1 := by simp [ARd.fuel]; omega
    obtain ⟨h1, h2, ⟨k, hk⟩, h3⟩ := pollLoop_outcome hg (r.fuel + 1) b r hb hfuel
    simp only [drive, hout]
    rcases hres : pollLoop (liftDf g) (r.fuel + 1) b r with ⟨b', r', res⟩
    rw [hres] at h1 h2 hk h3
    simp only at h1 h2 hk h3
    rcases h3 with ⟨a1, a2⟩ | ⟨a1, a2, a3⟩
    · have hnp : res ≠ .pending := by rw [a1]; exact spec_not_pending _ _ _
      cases res with
      | pending => exact absurd rfl hnp
      | _ => exact ⟨a1, a2, h1, h2⟩
    · rcases a1 with ⟨e, _, hm⟩ | ⟨hp, hat', _⟩
      · exfalso
        simp only [noErr, List.all_eq_true] at hne
        have := hne _ hm
        simp at this
      · subst hp
        have hne' : noErr r'.acts = true := by rw [hk]; exact noErr_drop hne k
        have key : ∀ st cs, (st = false → AtAwait g b') →
            (drive g n st b' r' cs).2.2 = (specNext b.size g (b.q ++ r.rem)).1 ∧
            (drive g n st b' r' cs).1.q ++ (drive g n st b' r' cs).2.1.rem = (specNext b.size g (b.q ++ r.rem)).2 ∧
            (drive g n st b' r' cs).1.Inv ∧ (drive g n st b' r' cs).1.size = b.size := by
          intro st cs hst
          have := ih st b' r' cs h1 hst hne' (by omega)
          rw [a2, h2] at this
          obtain ⟨t1, t2, t3, t4⟩ := this
          exact ⟨t1, t2, t3, t4⟩
        cases choices with
        | nil => exact key false [] (fun _ => hat')
        | cons c cs =>
          cases c with
          | true => exact key true cs (fun h => by cases h)
          | false => exact key false cs (fun _ => hat')

/-- C14 as stated: the async conversation under any Pending placement (no cancellation) gives what the blocking call
    gives on the same chunks with the Pendings deleted — both equal the specification -/
theorem async_eq_blocking {g : PDeframer} (hg : DeframerOK g) (b : AB) (rem : List Byte) (acts : List Act) (hb : b.Inv)
    (hne : noErr acts = true) :
    let blockingActs := acts.filter C02.isChunk
    (drive g (acts.length + 1) true b { rem := rem, acts := acts } []).2.2 =
      (pollLoop (liftDf g) (rem.length + 1) b { rem := rem, acts := blockingActs }).2.2 := by
  intro blockingActs
  have h1 := (drive_spec hg (acts.length + 1) true b { rem := rem, acts := acts } [] hb (by simp) hne (Nat.lt_succ_self _)).1
  have hall : blockingActs.all C02.isChunk = true := by simp [blockingActs, List.all_eq_true]
  have h2 := (C02.read_frame_spec hg b { rem := rem, acts := blockingActs } hb hall (rem.length + 1) (Nat.lt_succ_self _)).1
  rw [h1, h2]

/-! non-vacuity -/
example : noErr [.chunk 0, .pending, .pending, .chunk 3, .pending] = true := by decide
example : AtAwait deframeLine { size := 4, ri := 0, q := [97] } := by
  refine ⟨rfl, Or.inr ?_, by simp [AB.free]⟩
  simp [deframeLine, lineFrom, LF]

end FBV.C15

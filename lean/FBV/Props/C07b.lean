/-
  C07 with ARBITRARY destination-size schedules, zero-length destinations included ("all destination-buffer-size
  schedules used to drain the payload"): a zero-length read returns nothing, is not end-of-stream, and moves neither
  the buffer, nor the chain's switch-over, nor the allowance, nor the stream.
-/
import FBV.Props.C07
namespace FBV.C07
open FBV

theorem zeros_tail_le (ds : List Nat) : zeros ds.tail ≤ zeros ds := by
  cases ds with
  | nil => simp
  | cons a l => by_cases h : a = 0 <;> simp [zeros, h]

theorem zeros_head_zero (ds : List Nat) (h : ds.head?.getD 1 = 0) : zeros ds = zeros ds.tail + 1 := by
  cases ds with
  | nil => simp at h
  | cons a l => simp at h; simp [zeros, h]

theorem drainZ_spec :
    ∀ (fuel : Nat) (t : PTake) (ds : List Nat), PChain.Ok t.c → zeros ds + min t.remaining t.c.pending.length < fuel →
      (drainZ fuel t ds).1 = t.c.pending.take t.remaining ∧
      (drainZ fuel t ds).2.c.pending = t.c.pending.drop t.remaining ∧
      PChain.Ok (drainZ fuel t ds).2.c ∧ (drainZ fuel t ds).2.c.b.size = t.c.b.size := by
  intro fuel
  induction fuel with
  | zero => intro t ds _ h; omega
  | succ fuel ih =>
    intro t ds hok hfuel
    simp only [drainZ, PTake.read]
    by_cases hrem : t.remaining = 0
    · -- allowance used up: every read returns nothing without touching the chain
      simp only [hrem, if_true]
      by_cases hd : ds.head?.getD 1 = 0
      · simp only [hd, if_true]
        have := ih t ds.tail hok (by have := zeros_head_zero ds hd; omega)
        simpa [hrem] using this
      · simp [hd, hok]
    · simp only [hrem, if_false]
      have hc := chain_read_spec t.c (min t.remaining (ds.head?.getD 1)) hok
      generalize t.c.read (min t.remaining (ds.head?.getD 1)) = out at hc ⊢
      obtain ⟨x, c'⟩ := out
      simp only at hc ⊢
      obtain ⟨hsplit, hle, hok', hsz, hnil⟩ := hc
      by_cases hd : ds.head?.getD 1 = 0
      · -- zero-length destination: nothing returned, nothing moved; go on
        simp only [hd, if_true]
        have hx : x = [] := by
          have : x.length ≤ 0 := by simpa [hd] using hle
          exact List.eq_nil_of_length_eq_zero (by omega)
        have hp : c'.pending = t.c.pending := by rw [hx] at hsplit; simpa using hsplit
        have := ih { remaining := t.remaining - x.length, c := c' } ds.tail hok' (by
          show zeros ds.tail + min (t.remaining - x.length) c'.pending.length < fuel
          rw [hp, hx]; have := zeros_head_zero ds hd; simp only [List.length_nil, Nat.sub_zero]; omega)
        obtain ⟨h1, h2, h3, h4⟩ := this
        simp only [hx, List.length_nil, Nat.sub_zero, hp] at h1 h2 h3 h4
        simp only [hx, List.length_nil, Nat.sub_zero]
        exact ⟨h1, h2, h3, by rw [h4]; exact hsz⟩
      · simp only [hd, if_false]
        have hk : 0 < min t.remaining (ds.head?.getD 1) := by omega
        by_cases hx : x = []
        · have hp : t.c.pending = [] := hnil hx hk
          have hp' : c'.pending = [] := by rw [hx, hp] at hsplit; simpa using hsplit
          simp only [hx, if_true, hp, hp']
          exact ⟨by simp, by simp, hok', hsz⟩
        · simp only [hx, if_false]
          have hlen : 0 < x.length := List.length_pos_iff.mpr hx
          have hl : x.length + c'.pending.length = t.c.pending.length := by
            have := congrArg List.length hsplit; simpa using this
          have := ih { remaining := t.remaining - x.length, c := c' } ds.tail hok'
                    (by show zeros ds.tail + min (t.remaining - x.length) c'.pending.length < fuel
                        have := zeros_tail_le ds
                        omega)
          obtain ⟨h1, h2, h3, h4⟩ := this
          simp only at h1 h2 h3 h4
          have hxr : x.length ≤ t.remaining := by omega
          refine ⟨?_, ?_, h3, by rw [h4]; exact hsz⟩
          · rw [h1, ← hsplit, List.take_append, List.take_of_length_le hxr]
          · rw [h2, ← hsplit, List.drop_append, List.drop_eq_nil_of_le hxr]; simp

/-- **C07 for every destination schedule, zero-length destinations included** -/
theorem serveZ_spec {g : PDeframer} (hg : DeframerOK g) (lenOf : List Byte → Nat) :
    ∀ (fuel : Nat) (b : AB) (r : ARd) (ds : List Nat), b.Inv → r.acts.all C02.isChunk = true →
      serveZ g lenOf fuel b r ds = parseConn b.size g lenOf fuel (b.q ++ r.rem) := by
  intro fuel
  induction fuel with
  | zero => intro b r ds _ _; rfl
  | succ fuel ih =>
    intro b r ds hb hr
    obtain ⟨h1, h2, h3, h4, h5⟩ := C02.read_frame_spec hg b r hb hr (r.rem.length + 1) (Nat.lt_succ_self _)
    simp only [serveZ, parseConn]
    rcases hout : pollLoop (liftDf g) (r.rem.length + 1) b r with ⟨b', r', res⟩
    rw [hout] at h1 h2 h3 h4 h5
    simp only at h1 h2 h3 h4 h5
    rcases hs : specNext b.size g (b.q ++ r.rem) with ⟨sres, st⟩
    rw [hs] at h1 h2
    simp only at h1 h2
    subst h1
    cases res with
    | frame h =>
      simp only
      have hok : PChain.Ok { done := false, b := b', r := r' } := ⟨h3, (by intro hc; cases hc), h5⟩
      have hd := drainZ_spec (zeros ds + min (lenOf h) (b'.q.length + r'.rem.length) + 1)
        { remaining := lenOf h, c := { done := false, b := b', r := r' } } ds hok
        (by simp [PChain.pending])
      obtain ⟨d1, d2, d3, d4⟩ := hd
      rcases hdr : drainZ (zeros ds + min (lenOf h) (b'.q.length + r'.rem.length) + 1)
        { remaining := lenOf h, c := { done := false, b := b', r := r' } } ds with ⟨p, t'⟩
      rw [hdr] at d1 d2 d3 d4
      simp only [PChain.pending] at d1 d2 d4
      simp only at d1 d2 d3 d4
      have ihh := ih t'.c.b t'.c.r ds d3.1 d3.2.2
      rw [ihh, d4, h4]
      have e1 : t'.c.b.q ++ t'.c.r.rem = st.drop (lenOf h) := by rw [← h2]; exact d2
      have e2 : p = st.take (lenOf h) := by rw [← h2]; exact d1
      rw [e1, e2]
    | _ => rfl

/-- the response write-through does not disturb the read side, and the transport receives exactly one response per
    request, in request order, each computed from that request's header and payload -/
theorem serveW_eq (g : PDeframer) (lenOf : List Byte → Nat) (resp : List Byte → List Byte → List Byte) :
    ∀ (fuel : Nat) (b : AB) (r : ARd) (ds : List Nat) (w : List (List Byte)),
      serveW g lenOf resp fuel b r ds w =
        (serveZ g lenOf fuel b r ds, w ++ (serveZ g lenOf fuel b r ds).1.map (fun hp => resp hp.1 hp.2)) := by
  intro fuel
  induction fuel with
  | zero => intro b r ds w; simp [serveW, serveZ]
  | succ fuel ih =>
    intro b r ds w
    simp only [serveW, serveZ]
    rcases pollLoop (liftDf g) (r.rem.length + 1) b r with ⟨b', r', res⟩
    cases res with
    | frame h =>
      simp only
      rcases drainZ (zeros ds + min (lenOf h) (b'.q.length + r'.rem.length) + 1)
        { remaining := lenOf h, c := { done := false, b := b', r := r' } } ds with ⟨p, t'⟩
      simp only [PChain.writeAll, ih]
      simp [List.append_assoc]
    | _ => simp

/-- **C07 including the responses**: for every connection stream, chunking, destination schedule (zero-length destinations
    included), `lenOf`, response function, SIZE and contract-honouring deframer, the requests obtained are the stream's
    consecutive segments and the transport's write log grows by exactly `resp header payload` of each of them, in order -/
theorem serveW_spec {g : PDeframer} (hg : DeframerOK g) (lenOf : List Byte → Nat) (resp : List Byte → List Byte → List Byte)
    (fuel : Nat) (b : AB) (r : ARd) (ds : List Nat) (w : List (List Byte)) (hb : b.Inv) (hr : r.acts.all C02.isChunk = true) :
    serveW g lenOf resp fuel b r ds w =
      (parseConn b.size g lenOf fuel (b.q ++ r.rem),
       w ++ (parseConn b.size g lenOf fuel (b.q ++ r.rem)).1.map (fun hp => resp hp.1 hp.2)) := by
  rw [serveW_eq, serveZ_spec hg lenOf fuel b r ds hb hr]

/-- non-vacuity of `serveW_spec`: two pipelined length-prefixed requests arriving in 3-byte chunks into a 4-byte buffer, drained
    with a zero-length destination first; two responses, in order -/
example : (serveW dfLenPrefix (fun h => h.length) (fun h p => h ++ p) 3 ⟨4, 0, []⟩
    ⟨[1, 0x68, 0x70, 1, 0x69, 0x71], [.chunk 2, .chunk 0], []⟩ [0, 2] []).2 = [[0x68, 0x70], [0x69, 0x71]] := by decide

/-- non-vacuity: a schedule that starts with two zero-length destinations -/
example : (drainZ 6 { remaining := 2, c := { done := false, b := ⟨4, 0, [0x61]⟩, r := ⟨[0x62, 0x63], [], []⟩ } } [0, 0, 5]).1 = [0x61, 0x62] := by
  decide

end FBV.C07

/-
  C09 — ReadWriteTake never delivers or consumes more than its limit.
  For an ARBITRARY deterministic inner reader honouring the contract of `Read::read`
  (`ReaderOK`: returns at most the slice length, slice keeps its length), every limit and
  every destination (also empty), both overflow-check settings.
-/
import FBV.Model.Adapters
namespace FBV.C09
open FBV

variable {σ : Type}

/-- once the allowance is used up: `Ok(0)`, the inner reader is not called, nothing changes -/
theorem at_zero (oc : Bool) (r : Reader σ) (t : Take σ) (dest : List Byte) (h : t.remaining = 0) :
    Take.read oc r t dest = (t, .ok (.ok 0, dest)) := by
  simp [Take.read, h]

/-- the slice offered to the inner reader is exactly `min(remaining, |dest|)` long — never more than the allowance -/
theorem offered_length (t : Take σ) (dest : List Byte) :
    (dest.take (min t.remaining dest.length)).length = min t.remaining dest.length ∧
    min t.remaining dest.length ≤ t.remaining := by
  refine ⟨?_, Nat.min_le_left _ _⟩
  simp

/-- one call, fully characterised: no panic; the inner result is returned as is; a short read uses up only the
    bytes returned, an error uses up nothing; bytes of the destination beyond the offered length are untouched -/
theorem read_spec (oc : Bool) (r : Reader σ) (hr : ReaderOK r) (t : Take σ) (dest : List Byte) (h : t.remaining ≠ 0) :
    let k := min t.remaining dest.length
    let inner := r t.inner (dest.take k)
    ∃ t' res d', Take.read oc r t dest = (t', .ok (res, d')) ∧
      res = inner.2.1 ∧ t'.inner = inner.1 ∧
      d' = inner.2.2 ++ dest.drop k ∧ d'.length = dest.length ∧ d'.drop k = dest.drop k ∧
      (∀ n, res = .ok n → n ≤ k ∧ t'.remaining = t.remaining - n) ∧
      (∀ e, res = .error e → t'.remaining = t.remaining) := by
  intro k inner
  obtain ⟨hlen, hcount⟩ := hr t.inner (dest.take k)
  have hk : (dest.take k).length = k := by simp [k]
  have hkr : k ≤ t.remaining := Nat.min_le_left _ _
  have hkd : k ≤ dest.length := Nat.min_le_right _ _
  have hdl : (inner.2.2 ++ dest.drop k).length = dest.length := by
    simp only [List.length_append, List.length_drop]
    show (r t.inner (dest.take k)).2.2.length + _ = _
    rw [hlen, hk]; omega
  have hdd : (inner.2.2 ++ dest.drop k).drop k = dest.drop k := by
    rw [List.drop_append_of_le_length (by show k ≤ (r t.inner (dest.take k)).2.2.length; rw [hlen, hk]; exact Nat.le_refl _)]
    have : (r t.inner (dest.take k)).2.2.length = k := by rw [hlen, hk]
    show List.drop k inner.2.2 ++ _ = _
    rw [List.drop_eq_nil_of_le (by show inner.2.2.length ≤ k; exact Nat.le_of_eq this)]; rfl
  simp only [Take.read, h, if_false]
  rcases hi : r t.inner (dest.take k) with ⟨s', res, d'⟩
  have hi' : inner = (s', res, d') := hi
  rw [hi'] at hdl hdd
  cases res with
  | error e =>
    refine ⟨{ t with inner := s' }, .error e, d' ++ dest.drop k, ?_, ?_⟩
    · simp [k, hi]
    · simp [hi', hdl, hdd]
  | ok n =>
    have hn : n ≤ k := by
      have := hcount n (by rw [hi])
      rw [hk] at this; exact this
    have hs : usizeSub oc t.remaining n = .ok (t.remaining - n) := by simp [usizeSub]; omega
    refine ⟨{ inner := s', remaining := t.remaining - n }, .ok n, d' ++ dest.drop k, ?_, ?_⟩
    · simp [k, hi, hs]
    · simp [hi', hdl, hdd, hn]

/-- call for call the results equal std::io::Take's -/
theorem take_eq_std (oc : Bool) (r : Reader σ) (hr : ReaderOK r) (t : Take σ) (dest : List Byte) :
    Take.read oc r t dest = StdTake.read r t dest := by
  by_cases h : t.remaining = 0
  · simp [Take.read, StdTake.read, h]
  · simp only [Take.read, StdTake.read, h, if_false, Nat.min_comm dest.length t.remaining]
    obtain ⟨_, hcount⟩ := hr t.inner (dest.take (min t.remaining dest.length))
    rcases hi : r t.inner (dest.take (min t.remaining dest.length)) with ⟨s', res, d'⟩
    cases res with
    | error e => simp
    | ok n =>
      have hn := hcount n (by rw [hi])
      have hk : (dest.take (min t.remaining dest.length)).length ≤ t.remaining := by simp; omega
      have hle : n ≤ t.remaining := by omega
      simp [usizeSub, hle]

/-- a whole schedule of destinations: total delivered plus remaining allowance is the limit, so the
    adapter never delivers more than `limit` bytes however the reads are cut -/
def runTake (oc : Bool) (r : Reader σ) : Take σ → List (List Byte) → Nat × Take σ
  | t, [] => (0, t)
  | t, d :: ds =>
    match Take.read oc r t d with
    | (t', .ok (.ok n, _)) => let (m, tf) := runTake oc r t' ds; (n + m, tf)
    | (t', _) => runTake oc r t' ds

theorem delivered_le_limit (oc : Bool) (r : Reader σ) (hr : ReaderOK r) (t : Take σ) (ds : List (List Byte)) :
    (runTake oc r t ds).1 + (runTake oc r t ds).2.remaining = t.remaining := by
  induction ds generalizing t with
  | nil => simp [runTake]
  | cons d ds ih =>
    by_cases h : t.remaining = 0
    · simp only [runTake, at_zero oc r t d h]
      have := ih t
      simp [this, h]
    · obtain ⟨t', res, d', he, _, _, _, _, _, hok, herr⟩ := read_spec oc r hr t d h
      simp only [runTake, he]
      cases res with
      | ok n =>
        obtain ⟨hn, hrem⟩ := hok n rfl
        have := ih t'
        have hkr : min t.remaining d.length ≤ t.remaining := Nat.min_le_left _ _
        simp only
        omega
      | error e =>
        have := ih t'
        rw [herr e rfl] at this
        simpa using this

/-! non-vacuity: a contract-honouring reader exists (the stream reader), and the scripted reader is one -/
def streamReader : Reader (List Byte) := fun s dest =>
  let n := min dest.length s.length
  (s.drop n, .ok n, s.take n ++ dest.drop n)

theorem streamReader_ok : ReaderOK streamReader := by
  intro s dest
  simp only [streamReader]
  refine ⟨by simp; omega, ?_⟩
  intro n hn
  simp at hn
  omega

theorem srwReader_ok : ReaderOK srwReader := by
  intro ⟨s, log⟩ dest
  cases hra : s.racts with
  | nil =>
    simp only [srwReader, SRW.read, hra]
    refine ⟨by simp; omega, ?_⟩
    intro n hn; simp at hn; omega
  | cons a rest =>
    cases a with
    | data k scr =>
      simp only [srwReader, SRW.read, hra]
      refine ⟨?_, ?_⟩
      · cases scr <;> simp <;> omega
      · intro n hn; simp at hn; omega
    | eof => simp [srwReader, SRW.read, hra]
    | err e => simp [srwReader, SRW.read, hra]
    | panic => simp [srwReader, SRW.read, hra]

end FBV.C09

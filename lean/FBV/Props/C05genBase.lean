/-
  C05, translation tie.  `FBV/Gen/Deframers.lean` is regenerated from /repo's deframe_line.rs / deframe_crlf.rs /
  deframe_null.rs by `tools/rs2lean.py` on every run; this file proves, for EVERY byte slice (of a length a slice can
  have: < 2^64) and BOTH overflow-check settings, that the translated function does not panic, does not return an
  error, and returns exactly what the hand-written model returns — the model all C05 theorems are about (and which
  C02 / C06 / C07 instantiate).  So the C05 theorems are statements about what the Rust source says now, up to the
  translator and the semantics of the target combinators (FBV/Model/RsSem.lean).

  The proofs are semantic, not syntactic: the loop body is only required to be pointwise equal (after
  simplification of the checked primitives) to the model's test at each in-range index, so renamings, reordered
  lets, `n >= 1` for `n > 0`, and similar rewrites of the source do not break them.
-/
import FBV.Model.RsSem
namespace FBV.C05gen
open FBV FBV.Rs

/-! ### semantics of the target combinators on in-range arguments -/

theorem idx_lt (d : List Byte) (i : Nat) (h : i < d.length) : idx d i = .ok d[i] := by
  simp [idx, List.getElem?_eq_getElem h]

theorem sub_ok (oc : Bool) (a b : Nat) (h : b ≤ a) : usizeSub oc a b = .ok (a - b) := by
  simp [usizeSub, h]

theorem add_ok (oc : Bool) (a b : Nat) (h : a + b < 2 ^ 64) : usizeAdd oc a b = .ok (a + b) := by
  simp [usizeAdd, h]

theorem forFirst_congr {ρ : Type} (hi : Nat) (body g : Nat → Flow ρ) :
    ∀ lo, (∀ i, lo ≤ i → i < hi → body i = g i) → forFirst lo hi body = forFirst lo hi g := by
  intro lo
  fun_induction forFirst lo hi body with
  | case1 lo hlt hnone ih =>
    intro h
    rw [forFirst.eq_1 lo hi g]
    simp only [hlt, if_true, ← h lo (Nat.le_refl _) hlt, hnone]
    exact ih (fun i hi' hlt' => h i (by omega) hlt')
  | case2 lo hlt hr =>
    intro h
    rw [forFirst.eq_1 lo hi g]
    simp only [hlt, if_true, ← h lo (Nat.le_refl _) hlt]
  | case3 lo hlt =>
    intro _
    rw [forFirst.eq_1 lo hi g]; simp [hlt]

/-- how a model search result shows up as the flow of a loop / the value of the function -/
def flowOf (o : Option (Nat × Nat × Nat)) : Flow DfRet := .ok (o.map (fun r => Except.ok (some r)))

theorem fnBody_flowOf (o : Option (Nat × Nat × Nat)) :
    fnBody (flowOf o) (.ok (Except.ok none)) = .ok (Except.ok o) := by
  cases o <;> rfl

/-- normalise a translated loop body at an in-range index: the checked primitives succeed (side conditions by `omega`),
    binds and short-circuit operators are evaluated -/
macro "rs_norm" : tactic =>
  `(tactic| simp (disch := omega) only [idx_lt, sub_ok, add_ok, Rs.bind, Rs.iteM, Rs.andM, Rs.orM, Rs.seq,
      List.getElem?_eq_getElem, Nat.add_comm 1, ge_iff_le, gt_iff_lt, Nat.succ_le_iff, Nat.one_le_iff_ne_zero, Nat.pos_iff_ne_zero,
      beq_iff_eq, bne_iff_ne, eq_comm (a := (10 : UInt8)), eq_comm (a := (13 : UInt8)), eq_comm (a := (0 : UInt8)), decide_eq_true_eq, Bool.and_eq_true, Bool.or_eq_true, Bool.not_eq_true', decide_eq_false_iff_not])

end FBV.C05gen

/- C05 translation tie, deframe_line: see FBV/Props/C05genBase.lean -/
import FBV.Gen.Deframers
import FBV.Model.Deframe
import FBV.Props.C05
import FBV.Props.C05genBase
namespace FBV.C05gen
open FBV FBV.Rs

/-! ### deframe_line -/

def lineBody (d : List Byte) (i : Nat) : Flow DfRet :=
  if d[i]? = some LF then .ok (some (Except.ok (some (0, endOf d i, i + 1)))) else .ok none

theorem forFirst_line (d : List Byte) (n : Nat) :
    forFirst n d.length (lineBody d) = flowOf (lineFrom d n) := by
  fun_induction lineFrom d n with
  | case1 n h hlf e =>
    rw [forFirst]
    have he : e = endOf d n := by simp only [endOf, e]; grind
    simp [h, lineBody, hlf, flowOf, he]
  | case2 n h hlf ih =>
    rw [forFirst]; simp only [h, if_true]
    have : lineBody d n = .ok none := by simp [lineBody, h, hlf]
    rw [this]; exact ih
  | case3 n h =>
    rw [forFirst]; simp [h, flowOf]

/-- deframe_line.rs as translated = the model, for every slice and both profiles -/
theorem gen_line_eq (oc : Bool) (d : List Byte) (hlen : d.length < 2 ^ 64) :
    GenDf.deframe_line oc d = .ok (Except.ok (deframeLine d)) := by
  unfold GenDf.deframe_line deframeLine
  rw [forFirst_congr d.length _ (lineBody d) 0, forFirst_line, fnBody_flowOf]
  intro i _ hi
  unfold lineBody endOf
  by_cases h0 : i = 0
  · subst h0
    rs_norm
    by_cases hl : d[0] = LF <;> simp_all [LF, CR]
  · have h1 : i - 1 < d.length := by omega
    rs_norm
    by_cases hl : d[i] = LF <;> by_cases hc : d[i - 1] = CR <;> simp_all [LF, CR] <;> omega

/-- C05 for the translated `deframe_line` -/
theorem gen_line_spec (oc : Bool) (d : List Byte) (hlen : d.length < 2 ^ 64) :
    ∃ o, GenDf.deframe_line oc d = .ok (Except.ok o) ∧ (o = none ↔ LF ∉ d) ∧
      (∀ s e n, o = some (s, e, n) → s = 0 ∧ 0 < n ∧ n ≤ d.length ∧ d[n-1]? = some LF ∧
        (∀ i, i < n - 1 → d[i]? ≠ some LF) ∧
        e = (if 0 < n - 1 ∧ d[n-2]? = some CR then n - 2 else n - 1)) :=
  ⟨deframeLine d, gen_line_eq oc d hlen, C05.line_none_iff d, fun s e n h => C05.line_some d s e n h⟩

example : GenDf.deframe_line false [97, 13, 10, 98] = .ok (Except.ok (some (0, 1, 3))) := by
  rw [gen_line_eq _ _ (by simp)]; simp [deframeLine, lineFrom, LF, CR]

end FBV.C05gen

/-
  C03 — capacity accounting: writes are all-or-nothing and freed space is reclaimable.
  `step_sat`: for every weakly well-formed state, every call, both profiles, `Sat_C03` holds —
  a write of n bytes succeeds iff n ≤ free and then shrinks the free space by exactly n, a refused
  write changes nothing, shift/clear/draining reads reclaim everything, no read/query/failed call
  shrinks the free space, len + free ≤ SIZE.
-/
import FBV.Lemmas.StepReads
namespace FBV.C03
open FBV

theorem sat_of (b : Buf) (op : Op) (out : Out) (b' : Buf) (h' : b'.WInv) (hm : b'.mem.length = b.mem.length)
    (hb : C03branch b op out b'.obs = true) : Sat_C03 b op out b'.obs = true := by
  obtain ⟨h1, h2, _⟩ := h'
  have p1 : decide (b'.obs.ri ≤ b'.obs.wi) = true := by simp [h1]
  have p2 : decide (b'.obs.wi ≤ b.mem.length) = true := by simp [← hm, h2]
  have p3 : (b'.obs.mem.length == b.mem.length) = true := by simp [hm]
  simp only [Sat_C03, p1, p2, p3, hb, Bool.and_self]

theorem write_ok (b : Buf) (d : List Byte) (h : b.WInv) (hd : d.length ≤ b.mem.length - b.wi) :
    ((b.put d).commit d.length).obs.free + d.length = b.free ∧
    ((b.put d).commit d.length).obs.len = b.len + d.length ∧
    ((b.put d).commit d.length).mem.length = b.mem.length := by
  have hml := put_mem_length b d h hd
  obtain ⟨h1, h2, _⟩ := h
  simp only [Obs.free, Obs.len, Buf.free, Buf.len, Buf.obs, Buf.commit]
  simp only [Buf.put] at hml ⊢
  rw [hml]
  exact ⟨by omega, by omega, rfl⟩

theorem sameAll_self (b : Buf) : sameAll b b.obs = true := by simp [sameAll]
theorem sameIdx_self (b : Buf) : sameIdx b b.obs = true := by simp [sameIdx]

theorem satWrite_ok (b : Buf) (d : List Byte) (h : b.WInv) (hd : d.length ≤ b.mem.length - b.wi) (rc : Bool) :
    satWrite b d.length true rc ((b.put d).commit d.length).obs = true := by
  obtain ⟨w1, w2, _⟩ := write_ok b d h hd
  have hd' : d.length ≤ b.free := hd
  simp only [satWrite, hd', if_true, w1, w2, beq_self_eq_true, Bool.and_self]

theorem satWrite_refused (b : Buf) (n : Nat) (hd : ¬ n ≤ b.mem.length - b.wi) (oc : Bool) :
    satWrite b n oc true b.obs = true := by
  have hd' : ¬ n ≤ b.free := hd
  simp only [satWrite, hd', if_false, sameAll_self, Bool.and_self]

theorem read_branch (b b' : Buf) (k : Nat) (h : b.WInv) (r : Reads b b' k) :
    (decide (b.free ≤ b'.obs.free) && decide (b'.obs.len ≤ b.len) &&
      (if 0 < b.len ∧ b'.obs.len = 0 then b'.obs.free == b.mem.length else true)) = true := by
  obtain ⟨hm, hf, hlen, hdr⟩ := Reads.capacity h r
  simp only [Obs.free, Obs.len, Buf.free, Buf.len, Buf.obs] at *
  simp only [hf, hlen, decide_true, Bool.true_and]
  by_cases hc : 0 < b.wi - b.ri ∧ b'.wi - b'.ri = 0
  · have := hdr hc.1 hc.2
    simp [hc, this, hm]
  · simp [hc]

theorem step_sat (oc : Bool) (b : Buf) (op : Op) (h : b.WInv) :
    Sat_C03 b op (step oc b op).2 (step oc b op).1.obs = true := by
  have hW := step_WInv oc b op h
  by_cases hr : isReadLike op = true
  · -- reads, deframe, try_parse
    obtain ⟨k, hk⟩ := step_reads oc b op h hr
    refine sat_of _ _ _ _ hW (Reads.capacity h hk).1 ?_
    have hb := read_branch b _ k h hk
    cases op <;> simp [isReadLike] at hr <;> exact hb
  · cases op with
    | writeBytes d =>
      rw [step_writeBytes oc b d h] at hW ⊢
      split
      · rename_i hd
        simp only [hd, if_true] at hW
        refine sat_of _ _ _ _ hW (write_ok b d h hd).2.2 ?_
        simpa [C03branch] using satWrite_ok b d h hd _
      · rename_i hd
        refine sat_of _ _ _ _ h rfl ?_
        simpa [C03branch] using satWrite_refused b d.length hd _
    | writeStr d =>
      rw [step_writeStr oc b d h] at hW ⊢
      split
      · rename_i hd
        simp only [hd, if_true] at hW
        refine sat_of _ _ _ _ hW (write_ok b d h hd).2.2 ?_
        simpa [C03branch] using satWrite_ok b d h hd _
      · rename_i hd
        refine sat_of _ _ _ _ h rfl ?_
        simpa [C03branch] using satWrite_refused b d.length hd _
    | ioWrite d =>
      rw [step_ioWrite oc b d h] at hW ⊢
      split
      · rename_i hd
        simp only [hd, if_true] at hW
        refine sat_of _ _ _ _ hW (write_ok b d h hd).2.2 ?_
        simpa [C03branch] using satWrite_ok b d h hd _
      · rename_i hd
        refine sat_of _ _ _ _ h rfl ?_
        simpa [C03branch] using satWrite_refused b d.length hd _
    | ioFlush => exact sat_of _ _ _ _ h rfl (by simp [step, C03branch, sameAll_self])
    | pokeWrote d n =>
      rw [step_pokeWrote oc b d n h] at hW ⊢
      have hk : (d.take (min d.length (b.mem.length - b.wi))).length ≤ b.mem.length - b.wi := by simp; omega
      have hml := put_mem_length b _ h hk
      obtain ⟨h1, h2, h3⟩ := h
      split
      · rename_i hn
        simp only [hn, if_true] at hW
        refine sat_of _ _ _ _ hW hml ?_
        have hn' : n ≤ b.free := hn
        simp only [C03branch, hn', if_true]
        simp only [Obs.free, Obs.len, Buf.len, Buf.free, Buf.obs, Buf.commit]
        simp only [Buf.put] at hml ⊢
        rw [hml]
        simp; omega
      · rename_i hn
        simp only [hn, if_false] at hW
        refine sat_of _ _ _ _ hW hml ?_
        have hn' : ¬ n ≤ b.free := hn
        simp [C03branch, hn', sameIdx, Buf.put]
    | copyOnce resp =>
      rw [step_copyOnce oc b resp h] at hW ⊢
      split
      · rename_i h0
        have : ¬ (0 < b.free) := by simp [Buf.free]; omega
        exact sat_of _ _ _ _ h rfl (by simp [C03branch, this, sameAll_self])
      · rename_i h0
        have hpos : 0 < b.free := by simp [Buf.free]; omega
        cases resp with
        | panic => exact sat_of _ _ _ _ h rfl (by simp [C03branch, hpos, sameIdx_self])
        | err k => exact sat_of _ _ _ _ h rfl (by simp [C03branch, hpos, sameIdx_self])
        | data bytes scr =>
          simp only [h0, if_false] at hW
          have hcl := cofDest_length b bytes scr h
          have hml := put_mem_length b (cofDest b bytes scr) h (by omega)
          refine sat_of _ _ _ _ hW hml ?_
          obtain ⟨h1, h2, h3⟩ := h
          simp only [C03branch, hpos, if_true]
          simp only [Obs.free, Obs.len, Buf.len, Buf.free, Buf.obs, Buf.commit]
          simp only [Buf.put] at hml ⊢
          rw [hml]
          have := Nat.min_le_right bytes.length (b.mem.length - b.wi)
          simp; omega
    | shift =>
      rw [step_shift oc b h] at hW ⊢
      have hm := shifted_mem_length b h
      refine sat_of _ _ _ _ hW hm ?_
      obtain ⟨h1, h2, h3⟩ := h
      simp only [C03branch, Obs.free, Obs.len, Buf.len, Buf.obs, hm, shifted_ri, shifted_wi]
      simp; omega
    | clear =>
      rw [step_clear oc b] at hW ⊢
      exact sat_of _ _ _ _ hW rfl (by simp [C03branch, Obs.free, Obs.len, Buf.obs])
    | _ => simp [isReadLike] at hr

/-- over any history, `len() + writable().len() ≤ SIZE`: the indices stay ordered inside the array -/
theorem history_capacity (oc : Bool) (b : Buf) (ops : List Op) (h : b.WInv) :
    (runOpsFrom oc b ops).ri ≤ (runOpsFrom oc b ops).wi ∧ (runOpsFrom oc b ops).wi ≤ (runOpsFrom oc b ops).mem.length :=
  let h' := reachable_WInv oc b ops h
  ⟨h'.1, h'.2.1⟩

/-! ### non-vacuity: a full buffer at a non-zero read offset; writes around the boundary -/
example : ({ mem := [1, 2, 3, 4], ri := 2, wi := 4 } : Buf).WInv := by decide
example : (step true { mem := [1, 2, 3, 4], ri := 2, wi := 3 } (.writeBytes [9])).2.cls = .ok := by decide
example : (step true { mem := [1, 2, 3, 4], ri := 2, wi := 3 } (.writeBytes [9, 9])).2.cls = .refused := by decide

end FBV.C03

/-
  C08 — ReadWriteChain reads like std::io::Chain: all of first, then all of second.
  For ARBITRARY deterministic readers (any state types, any behaviour incl. short reads, errors at any
  position, scribbling into the destination) and every destination, including zero-length ones.
-/
import FBV.Model.Adapters
import FBV.Lemmas.StepEq
namespace FBV.C08
open FBV

variable {σ₁ σ₂ : Type}

/-- the chain and std's chain are in corresponding states -/
def Rel (c : Chain σ₁ σ₂) (sc : StdChain σ₁ σ₂) : Prop :=
  c.second = sc.second ∧
  match c.first with
  | some s1 => sc.doneFirst = false ∧ sc.first = s1
  | none => sc.doneFirst = true

/-- one call: same result, same destination contents, corresponding states — for every destination, also the empty one -/
theorem chain_bisim (r1 : Reader σ₁) (r2 : Reader σ₂) (c : Chain σ₁ σ₂) (sc : StdChain σ₁ σ₂) (dest : List Byte)
    (h : Rel c sc) :
    (Chain.read r1 r2 c dest).2 = (StdChain.read r1 r2 sc dest).2 ∧
    Rel (Chain.read r1 r2 c dest).1 (StdChain.read r1 r2 sc dest).1 := by
  obtain ⟨h2, h1⟩ := h
  cases hf : c.first with
  | none =>
    simp only [hf] at h1
    simp [Chain.read, StdChain.read, hf, h1, h2, Rel]
  | some s1 =>
    simp only [hf] at h1
    obtain ⟨hd, hs⟩ := h1
    simp only [Chain.read, StdChain.read, hf, hd, hs, Bool.not_false, if_true]
    rcases hr : r1 s1 dest with ⟨s1', res, d'⟩
    cases res with
    | error e => simp [Rel, h2, hd]
    | ok n =>
      cases n with
      | zero =>
        by_cases hl : dest.length = 0
        · simp [hl, Rel, h2, hd]
        · simp [hl, Rel, h2]
      | succ m => simp [Rel, h2, hd]

/-- a whole schedule of destinations: call for call the same results -/
def runChain (r1 : Reader σ₁) (r2 : Reader σ₂) : Chain σ₁ σ₂ → List (List Byte) → List (RdRes × List Byte)
  | _, [] => []
  | c, d :: ds => (Chain.read r1 r2 c d).2 :: runChain r1 r2 (Chain.read r1 r2 c d).1 ds

def runStd (r1 : Reader σ₁) (r2 : Reader σ₂) : StdChain σ₁ σ₂ → List (List Byte) → List (RdRes × List Byte)
  | _, [] => []
  | c, d :: ds => (StdChain.read r1 r2 c d).2 :: runStd r1 r2 (StdChain.read r1 r2 c d).1 ds

theorem chain_eq_std (r1 : Reader σ₁) (r2 : Reader σ₂) (c : Chain σ₁ σ₂) (sc : StdChain σ₁ σ₂) (ds : List (List Byte))
    (h : Rel c sc) : runChain r1 r2 c ds = runStd r1 r2 sc ds := by
  induction ds generalizing c sc with
  | nil => rfl
  | cons d ds ih =>
    have hb := chain_bisim r1 r2 c sc d h
    simp only [runChain, runStd, hb.1, ih _ _ hb.2]

/-- a fresh chain corresponds to a fresh std chain -/
theorem rel_new (s1 : σ₁) (s2 : σ₂) :
    Rel ({ first := some s1, second := s2 } : Chain σ₁ σ₂) { first := s1, second := s2, doneFirst := false } := by
  simp [Rel]

/-- `second` is not touched unless `first` answers `Ok(0)` to a NON-EMPTY destination in this very call -/
theorem second_not_before_eof (r1 : Reader σ₁) (r2 : Reader σ₂) (c : Chain σ₁ σ₂) (s1 : σ₁) (dest : List Byte)
    (hf : c.first = some s1) (hne : ¬ ((r1 s1 dest).2.1 = .ok 0 ∧ dest.length ≠ 0)) :
    (Chain.read r1 r2 c dest).1.second = c.second ∧ (Chain.read r1 r2 c dest).1.first = some (r1 s1 dest).1 := by
  simp only [Chain.read, hf]
  rcases hr : r1 s1 dest with ⟨s1', res, d'⟩
  rw [hr] at hne
  cases res with
  | error e => simp
  | ok n =>
    cases n with
    | zero =>
      by_cases hl : dest.length = 0
      · simp [hl]
      · exact absurd ⟨rfl, hl⟩ hne
    | succ m => simp

/-- once `first` has been dropped it is never read again (its state is frozen), and only `second` is read -/
theorem first_never_again (r1 : Reader σ₁) (r2 : Reader σ₂) (c : Chain σ₁ σ₂) (dest : List Byte) (hf : c.first = none) :
    (Chain.read r1 r2 c dest).1.first = none ∧ (Chain.read r1 r2 c dest).1.dropped = c.dropped ∧
    (Chain.read r1 r2 c dest).2 = (r2 c.second dest).2 := by
  simp [Chain.read, hf]

/-- an error from `first` is returned as is, without switching readers and without touching `second` -/
theorem first_error_passes (r1 : Reader σ₁) (r2 : Reader σ₂) (c : Chain σ₁ σ₂) (s1 : σ₁) (dest : List Byte) (e : ErrKind)
    (hf : c.first = some s1) (he : (r1 s1 dest).2.1 = .error e) :
    (Chain.read r1 r2 c dest).2.1 = .error e ∧ (Chain.read r1 r2 c dest).1.first = some (r1 s1 dest).1 ∧
    (Chain.read r1 r2 c dest).1.second = c.second := by
  simp only [Chain.read, hf]
  rcases hr : r1 s1 dest with ⟨s1', res, d'⟩
  rw [hr] at he
  simp only at he
  subst he
  simp

/-- the documented use, `first` = a FixedBuf: its `Read` impl never fails or panics in a well-formed state, delivers
    `min(|dest|, len)` unread bytes in order, and reports `Ok(0)` on a non-empty destination only when empty -/
theorem bufReader_spec (oc : Bool) (b : Buf) (dest : List Byte) (h : b.WInv) :
    ∃ n, (bufReader oc b dest).2.1 = .ok n ∧ n = min dest.length (b.wi - b.ri) ∧
      (bufReader oc b dest).2.2 = b.readable.take n ++ dest.drop n ∧
      (bufReader oc b dest).1.readable = b.readable.drop n ∧ (bufReader oc b dest).1.WInv := by
  refine ⟨min dest.length (b.wi - b.ri), ?_⟩
  simp only [bufReader, readAndCopy_eq oc b dest h]
  by_cases hk : min dest.length (b.wi - b.ri) = 0
  · simp [hk, h]
  · have hle := Nat.min_le_right dest.length (b.wi - b.ri)
    simp [hk, consume_readable b _ h hle, consume_WInv b _ h hle]

/-! ### the defect found on the unchanged tree: the pre-repair chain switched on ANY `Ok(0)` -/
namespace Legacy
def chainReadLegacy (r1 : Reader σ₁) (r2 : Reader σ₂) (c : Chain σ₁ σ₂) (dest : List Byte) :
    Chain σ₁ σ₂ × RdRes × List Byte :=
  match c.first with
  | some s1 =>
    match r1 s1 dest with
    | (s1', .ok 0, d') =>
      let (s2', res2, d'') := r2 c.second d'
      ({ first := none, dropped := some s1', second := s2' }, res2, d'')
    | (s1', .ok n, d') => ({ c with first := some s1' }, .ok n, d')
    | (s1', .error e, d') => ({ c with first := some s1' }, .error e, d')
  | none =>
    let (s2', res2, d') := r2 c.second dest
    ({ c with second := s2' }, res2, d')

/-- a stream reader: hands out its remaining bytes -/
def streamReader : Reader (List Byte) := fun s dest =>
  let n := min dest.length s.length
  (s.drop n, .ok n, s.take n ++ dest.drop n)

/-- `chain("AB","cd")`: a zero-length read, then a 4-byte read — legacy returns "cd" (first is skipped), the repaired chain "AB" -/
theorem legacy_skips_first :
    (chainReadLegacy streamReader streamReader
        (chainReadLegacy streamReader streamReader { first := some [65, 66], second := [99, 100] } []).1 [46, 46, 46, 46]).2
      = (.ok 2, [99, 100, 46, 46]) ∧
    (Chain.read streamReader streamReader
        (Chain.read streamReader streamReader { first := some [65, 66], second := [99, 100] } []).1 [46, 46, 46, 46]).2
      = (.ok 2, [65, 66, 46, 46]) := by
  constructor <;> decide
end Legacy

end FBV.C08

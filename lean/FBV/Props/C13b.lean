/-
  C13 at the level of whole call histories ("all interleavings of reads and writes"):

  * `*_forwarded_exactly_once` — over ANY sequence of reads, writes and flushes on the adapter, the write/flush calls
    that reach the wrapped read-writer are exactly the adapter-level writes/flushes, in order, one inner call each, with
    identical bytes, and the result the caller got is the result the inner call produced;
  * `*_writes_independent` — the results of the writes/flushes are the same as if the reads had never happened;
  * `*_reads_independent` — the results of the reads (bytes, counts, errors, for take also the allowance) are the same
    as if the writes/flushes had never happened.
-/
import FBV.Props.C13
namespace FBV.C13
open FBV

def isWOp : AdOp → Bool
  | .write _ | .flush => true
  | .read _ => false

def isWRes : AdRes → Bool
  | .write _ | .flush _ => true
  | _ => false

/-- everything the write side of a scripted read-writer depends on -/
def wside (s : SRW) : Nat × List WAct × List (Option ErrKind) := (s.id, s.wacts, s.facts)
/-- everything the read side depends on -/
def rside (s : SRW) : Nat × List Byte × List RAct := (s.id, s.data, s.racts)

/-- the inner write/flush calls a history must produce: one per adapter-level write/flush, same bytes, same result -/
def wcalls (id : Nat) : List AdOp → List AdRes → List Call
  | .write b :: ops, .write res :: rs => .write id b res :: wcalls id ops rs
  | .flush :: ops, .flush res :: rs => .flush id res :: wcalls id ops rs
  | _ :: ops, _ :: rs => wcalls id ops rs
  | _, _ => []

theorem srw_read_sides (s : SRW) (d : List Byte) :
    wside (s.read d).1 = wside s ∧ (s.read d).1.written = s.written ∧ isWriteCall (s.read d).2.2.2 = false := by
  simp only [SRW.read]
  cases hr : s.racts with
  | nil => simp [wside, isWriteCall]
  | cons a as => cases a <;> simp [wside, isWriteCall]

theorem srw_write_sides (s : SRW) (b : List Byte) :
    rside (s.write b).1 = rside s ∧ (s.write b).1.id = s.id ∧ (s.write b).2.2 = .write s.id b (s.write b).2.1 := by
  simp only [SRW.write]
  cases hw : s.wacts with
  | nil => simp [rside]
  | cons a as => cases a <;> simp [rside]

theorem srw_flush_sides (s : SRW) :
    rside (s.flush).1 = rside s ∧ (s.flush).1.id = s.id ∧ (s.flush).2.2 = .flush s.id (s.flush).2.1 := by
  simp only [SRW.flush]
  cases hf : s.facts with
  | nil => simp [rside]
  | cons a as => cases a <;> simp [rside]

/-- the result of a write and the write side afterwards depend only on the write side before -/
theorem srw_write_cong (s t : SRW) (b : List Byte) (h : wside s = wside t) :
    (s.write b).2.1 = (t.write b).2.1 ∧ wside (s.write b).1 = wside (t.write b).1 := by
  simp only [wside, Prod.mk.injEq] at h
  obtain ⟨h1, h2, h3⟩ := h
  simp only [SRW.write, h2]
  cases hw : t.wacts with
  | nil => simp [wside, h1, h3]
  | cons a as => cases a <;> simp [wside, h1, h3]

theorem srw_flush_cong (s t : SRW) (h : wside s = wside t) :
    (s.flush).2.1 = (t.flush).2.1 ∧ wside (s.flush).1 = wside (t.flush).1 := by
  simp only [wside, Prod.mk.injEq] at h
  obtain ⟨h1, h2, h3⟩ := h
  simp only [SRW.flush, h3]
  cases hf : t.facts with
  | nil => simp [wside, h1, h2, h3, hf]
  | cons a as => cases a <;> simp [wside, h1, h2]

/-- the result of a read and the read side afterwards depend only on the read side before -/
theorem srw_read_cong (s t : SRW) (d : List Byte) (h : rside s = rside t) :
    (s.read d).2.1 = (t.read d).2.1 ∧ (s.read d).2.2.1 = (t.read d).2.2.1 ∧ rside (s.read d).1 = rside (t.read d).1 := by
  simp only [rside, Prod.mk.injEq] at h
  obtain ⟨h1, h2, h3⟩ := h
  simp only [SRW.read, h3, h2]
  cases hr : t.racts with
  | nil => simp [rside, h1]
  | cons a as => cases a <;> simp [rside, h1]

/-! ### chain -/

theorem chain_read_wside (x : ChainS) (n : Nat) :
    wside (x.step (.read n)).1.c.second = wside x.c.second ∧ isWRes (x.step (.read n)).2 = false ∧
    ((x.step (.read n)).1.log.drop x.log.length).filter isWriteCall = [] ∧
    x.log.length ≤ (x.step (.read n)).1.log.length ∧ (x.step (.read n)).1.log.take x.log.length = x.log := by
  simp only [ChainS.step]
  cases hf : x.c.first with
  | none =>
    have h := srw_read_sides x.c.second (List.replicate n DEST_INIT)
    simp [h.1, h.2.2, isWRes]
  | some s1 =>
    simp only
    rcases hr : s1.read (List.replicate n DEST_INIT) with ⟨s1', res, d', c1⟩
    have h1 := srw_read_sides s1 (List.replicate n DEST_INIT)
    rw [hr] at h1
    cases res with
    | error e => simp [isWRes, h1.2.2]
    | ok m =>
      cases m with
      | succ m => simp [isWRes, h1.2.2]
      | zero =>
        by_cases hn : n = 0
        · simp [hn, isWRes, h1.2.2]
        · have h2 := srw_read_sides x.c.second d'
          simp [hn, isWRes, h1.2.2, h2.1, h2.2.2]

theorem filter_drop_append (l a : List Call) (n : Nat) (h : n = l.length) :
    (l ++ a).drop n = a := by subst h; simp

/-- **forwarded exactly once, identical bytes, result unchanged — over whole histories** -/
theorem chain_forwarded_exactly_once (ops : List AdOp) :
    ∀ (x : ChainS),
      ((runChainS x ops).1.log.drop x.log.length).filter isWriteCall = wcalls x.c.second.id ops (runChainS x ops).2 ∧
      x.log.length ≤ (runChainS x ops).1.log.length ∧ (runChainS x ops).1.log.take x.log.length = x.log := by
  induction ops with
  | nil => intro x; simp [runChainS, wcalls]
  | cons op ops ih =>
    intro x
    simp only [runChainS]
    obtain ⟨ih1, ih2, ih3⟩ := ih (x.step op).1
    -- facts about the single step
    have hstep : ((x.step op).1.log.drop x.log.length).filter isWriteCall = wcalls x.c.second.id [op] [(x.step op).2] ∧
        x.log.length ≤ (x.step op).1.log.length ∧ (x.step op).1.log.take x.log.length = x.log ∧
        (x.step op).1.c.second.id = x.c.second.id := by
      cases op with
      | read n =>
        obtain ⟨h1, h2, h3, h4, h5⟩ := chain_read_wside x n
        refine ⟨?_, h4, h5, ?_⟩
        · rw [h3]
          cases hres : (x.step (.read n)).2 <;> simp [wcalls]
        · have := congrArg Prod.fst h1; simpa [wside] using this
      | write b =>
        obtain ⟨_, h2, h3⟩ := srw_write_sides x.c.second b
        simp [ChainS.step, wcalls, h2, h3, isWriteCall]
      | flush =>
        obtain ⟨_, h2, h3⟩ := srw_flush_sides x.c.second
        simp [ChainS.step, wcalls, h2, h3, isWriteCall]
    obtain ⟨hs1, hs2, hs3, hs4⟩ := hstep
    refine ⟨?_, by omega, ?_⟩
    · -- split the suffix of the final log at the end of the step
      have hsplit : (runChainS (x.step op).1 ops).1.log.drop x.log.length =
          (x.step op).1.log.drop x.log.length ++ (runChainS (x.step op).1 ops).1.log.drop (x.step op).1.log.length := by
        have e : (runChainS (x.step op).1 ops).1.log =
            (x.step op).1.log ++ (runChainS (x.step op).1 ops).1.log.drop (x.step op).1.log.length := by
          conv => lhs; rw [← List.take_append_drop (x.step op).1.log.length (runChainS (x.step op).1 ops).1.log]
          rw [ih3]
        conv => lhs; rw [e]
        rw [List.drop_append_of_le_length hs2]
      rw [hsplit, List.filter_append, hs1, ih1, hs4]
      cases op with
      | read n => cases hres : (x.step (.read n)).2 <;> simp [wcalls]
      | write b => cases hres : (x.step (.write b)).2 <;> simp [wcalls]
      | flush => cases hres : (x.step .flush).2 <;> simp [wcalls]
    · have : (runChainS (x.step op).1 ops).1.log.take x.log.length =
          ((runChainS (x.step op).1 ops).1.log.take (x.step op).1.log.length).take x.log.length := by
        rw [List.take_take, Nat.min_eq_left hs2]
      rw [this, ih3, hs3]

/-- the results of the writes and flushes are what they would be if no read had ever been issued -/
theorem chain_writes_independent (ops : List AdOp) :
    ∀ (x y : ChainS), wside x.c.second = wside y.c.second →
      (runChainS x ops).2.filter isWRes = (runChainS y (ops.filter isWOp)).2 := by
  induction ops with
  | nil => intro x y _; simp [runChainS]
  | cons op ops ih =>
    intro x y h
    cases op with
    | read n =>
      obtain ⟨h1, h2, _⟩ := chain_read_wside x n
      simp only [runChainS, List.filter_cons, h2, isWOp]
      exact ih _ _ (h1.trans h)
    | write b =>
      obtain ⟨hr, hw⟩ := srw_write_cong x.c.second y.c.second b h
      simp only [runChainS, List.filter_cons, isWOp, if_true]
      have hx : (x.step (.write b)).2 = .write (x.c.second.write b).2.1 := rfl
      have hy : (y.step (.write b)).2 = .write (y.c.second.write b).2.1 := rfl
      rw [hx, hy, hr]
      simp only [isWRes, if_true, List.cons.injEq, true_and]
      exact ih _ _ hw
    | flush =>
      obtain ⟨hr, hw⟩ := srw_flush_cong x.c.second y.c.second h
      simp only [runChainS, List.filter_cons, isWOp, if_true]
      have hx : (x.step .flush).2 = .flush (x.c.second.flush).2.1 := rfl
      have hy : (y.step .flush).2 = .flush (y.c.second.flush).2.1 := rfl
      rw [hx, hy, hr]
      simp only [isWRes, if_true, List.cons.injEq, true_and]
      exact ih _ _ hw

def isROp : AdOp → Bool
  | .read _ => true
  | _ => false

/-- everything the chain's read side depends on -/
def rsideC (x : ChainS) : Option (Nat × List Byte × List RAct) × (Nat × List Byte × List RAct) :=
  (x.c.first.map rside, rside x.c.second)

theorem chain_read_cong (x y : ChainS) (n : Nat) (h : rsideC x = rsideC y) :
    (x.step (.read n)).2 = (y.step (.read n)).2 ∧ rsideC (x.step (.read n)).1 = rsideC (y.step (.read n)).1 := by
  simp only [rsideC, Prod.mk.injEq] at h
  obtain ⟨hf, hs⟩ := h
  cases hx : x.c.first with
  | none =>
    have hy : y.c.first = none := by rw [hx] at hf; simpa using hf.symm
    obtain ⟨c1, c2, c3⟩ := srw_read_cong x.c.second y.c.second (List.replicate n DEST_INIT) hs
    simp only [ChainS.step, hx, hy, rsideC, Option.map_none, c1, c2, c3, and_self]
  | some s1 =>
    obtain ⟨t1, hy, ht⟩ : ∃ t1, y.c.first = some t1 ∧ rside s1 = rside t1 := by
      rw [hx] at hf
      cases hy : y.c.first with
      | none => rw [hy] at hf; simp at hf
      | some t1 => rw [hy] at hf; exact ⟨t1, rfl, by simpa using hf⟩
    obtain ⟨c1, c2, c3⟩ := srw_read_cong s1 t1 (List.replicate n DEST_INIT) ht
    simp only [ChainS.step, hx, hy]
    rcases hr1 : s1.read (List.replicate n DEST_INIT) with ⟨s1', res, d', k1⟩
    rcases hr2 : t1.read (List.replicate n DEST_INIT) with ⟨t1', res2, d2, k2⟩
    rw [hr1, hr2] at c1 c2 c3
    simp only at c1 c2 c3
    subst c1 c2
    cases res with
    | error e => simp [rsideC, c3, hs]
    | ok m =>
      cases m with
      | succ m => simp [rsideC, c3, hs]
      | zero =>
        by_cases hn : n = 0
        · simp [hn, rsideC, c3, hs]
        · obtain ⟨e1, e2, e3⟩ := srw_read_cong x.c.second y.c.second d' hs
          simp [hn, rsideC, e1, e2, e3]

theorem chain_write_rside (x : ChainS) (op : AdOp) (h : isWOp op = true) :
    rsideC (x.step op).1 = rsideC x ∧ isWRes (x.step op).2 = true := by
  cases op with
  | read n => simp [isWOp] at h
  | write b =>
    obtain ⟨h1, _, _⟩ := srw_write_sides x.c.second b
    simp [ChainS.step, rsideC, h1, isWRes]
  | flush =>
    obtain ⟨h1, _, _⟩ := srw_flush_sides x.c.second
    simp [ChainS.step, rsideC, h1, isWRes]

/-- the results of the reads (count or error, destination contents) are what they would be if no write or flush had
    ever been issued: writes never touch the chain's first reader nor the read side of the wrapped read-writer -/
theorem chain_reads_independent (ops : List AdOp) :
    ∀ (x y : ChainS), rsideC x = rsideC y →
      (runChainS x ops).2.filter (fun r => !isWRes r) = (runChainS y (ops.filter isROp)).2 := by
  induction ops with
  | nil => intro x y _; simp [runChainS]
  | cons op ops ih =>
    intro x y h
    cases op with
    | read n =>
      obtain ⟨h1, h2⟩ := chain_read_cong x y n h
      obtain ⟨_, h3, _⟩ := chain_read_wside x n
      simp only [runChainS, List.filter_cons, isROp, if_true, h3, Bool.not_false]
      rw [h1]
      simp only [List.cons.injEq, true_and]
      exact ih _ _ h2
    | write b =>
      obtain ⟨h1, h2⟩ := chain_write_rside x (.write b) rfl
      simp only [runChainS, List.filter_cons, isROp, h2, Bool.not_true]
      exact ih _ _ (h1.trans h)
    | flush =>
      obtain ⟨h1, h2⟩ := chain_write_rside x .flush rfl
      simp only [runChainS, List.filter_cons, isROp, h2, Bool.not_true]
      exact ih _ _ (h1.trans h)

/-! ### take -/

/-- everything the take's read side depends on: the inner read side and the remaining allowance -/
def rsideT (x : TakeS) : (Nat × List Byte × List RAct) × Nat := (rside x.t.inner, x.t.remaining)

theorem take_read_wside (oc : Bool) (x : TakeS) (n : Nat) :
    wside (x.step oc (.read n)).1.t.inner = wside x.t.inner ∧ isWRes (x.step oc (.read n)).2 = false ∧
    ((x.step oc (.read n)).1.log.drop x.log.length).filter isWriteCall = [] ∧
    x.log.length ≤ (x.step oc (.read n)).1.log.length ∧ (x.step oc (.read n)).1.log.take x.log.length = x.log := by
  simp only [TakeS.step]
  by_cases h0 : x.t.remaining = 0
  · simp [h0, isWRes]
  · simp only [h0, if_false]
    have h := srw_read_sides x.t.inner ((List.replicate n DEST_INIT).take (min x.t.remaining n))
    rcases hr : x.t.inner.read ((List.replicate n DEST_INIT).take (min x.t.remaining n)) with ⟨s', res, d', c⟩
    rw [hr] at h
    cases res with
    | error e => simp [isWRes, h.1, h.2.2]
    | ok m =>
      simp only
      cases hs : usizeSub oc x.t.remaining m <;> simp [isWRes, h.1, h.2.2]

theorem take_forwarded_exactly_once (oc : Bool) (ops : List AdOp) :
    ∀ (x : TakeS),
      ((runTakeS oc x ops).1.log.drop x.log.length).filter isWriteCall = wcalls x.t.inner.id ops (runTakeS oc x ops).2 ∧
      x.log.length ≤ (runTakeS oc x ops).1.log.length ∧ (runTakeS oc x ops).1.log.take x.log.length = x.log := by
  induction ops with
  | nil => intro x; simp [runTakeS, wcalls]
  | cons op ops ih =>
    intro x
    simp only [runTakeS]
    obtain ⟨ih1, ih2, ih3⟩ := ih (x.step oc op).1
    have hstep : ((x.step oc op).1.log.drop x.log.length).filter isWriteCall = wcalls x.t.inner.id [op] [(x.step oc op).2] ∧
        x.log.length ≤ (x.step oc op).1.log.length ∧ (x.step oc op).1.log.take x.log.length = x.log ∧
        (x.step oc op).1.t.inner.id = x.t.inner.id := by
      cases op with
      | read n =>
        obtain ⟨h1, h2, h3, h4, h5⟩ := take_read_wside oc x n
        refine ⟨?_, h4, h5, ?_⟩
        · rw [h3]
          cases hres : (x.step oc (.read n)).2 <;> simp [wcalls]
        · have := congrArg Prod.fst h1; simpa [wside] using this
      | write b =>
        obtain ⟨_, h2, h3⟩ := srw_write_sides x.t.inner b
        simp [TakeS.step, wcalls, h2, h3, isWriteCall]
      | flush =>
        obtain ⟨_, h2, h3⟩ := srw_flush_sides x.t.inner
        simp [TakeS.step, wcalls, h2, h3, isWriteCall]
    obtain ⟨hs1, hs2, hs3, hs4⟩ := hstep
    refine ⟨?_, by omega, ?_⟩
    · have hsplit : (runTakeS oc (x.step oc op).1 ops).1.log.drop x.log.length =
          (x.step oc op).1.log.drop x.log.length ++ (runTakeS oc (x.step oc op).1 ops).1.log.drop (x.step oc op).1.log.length := by
        have e : (runTakeS oc (x.step oc op).1 ops).1.log =
            (x.step oc op).1.log ++ (runTakeS oc (x.step oc op).1 ops).1.log.drop (x.step oc op).1.log.length := by
          conv => lhs; rw [← List.take_append_drop (x.step oc op).1.log.length (runTakeS oc (x.step oc op).1 ops).1.log]
          rw [ih3]
        conv => lhs; rw [e]
        rw [List.drop_append_of_le_length hs2]
      rw [hsplit, List.filter_append, hs1, ih1, hs4]
      cases op with
      | read n => cases hres : (x.step oc (.read n)).2 <;> simp [wcalls]
      | write b => cases hres : (x.step oc (.write b)).2 <;> simp [wcalls]
      | flush => cases hres : (x.step oc .flush).2 <;> simp [wcalls]
    · have : (runTakeS oc (x.step oc op).1 ops).1.log.take x.log.length =
          ((runTakeS oc (x.step oc op).1 ops).1.log.take (x.step oc op).1.log.length).take x.log.length := by
        rw [List.take_take, Nat.min_eq_left hs2]
      rw [this, ih3, hs3]

theorem take_writes_independent (oc : Bool) (ops : List AdOp) :
    ∀ (x y : TakeS), wside x.t.inner = wside y.t.inner →
      (runTakeS oc x ops).2.filter isWRes = (runTakeS oc y (ops.filter isWOp)).2 := by
  induction ops with
  | nil => intro x y _; simp [runTakeS]
  | cons op ops ih =>
    intro x y h
    cases op with
    | read n =>
      obtain ⟨h1, h2, _⟩ := take_read_wside oc x n
      simp only [runTakeS, List.filter_cons, h2, isWOp]
      exact ih _ _ (h1.trans h)
    | write b =>
      obtain ⟨hr, hw⟩ := srw_write_cong x.t.inner y.t.inner b h
      simp only [runTakeS, List.filter_cons, isWOp, if_true]
      have hx : (x.step oc (.write b)).2 = .write (x.t.inner.write b).2.1 := rfl
      have hy : (y.step oc (.write b)).2 = .write (y.t.inner.write b).2.1 := rfl
      rw [hx, hy, hr]
      simp only [isWRes, if_true, List.cons.injEq, true_and]
      exact ih _ _ hw
    | flush =>
      obtain ⟨hr, hw⟩ := srw_flush_cong x.t.inner y.t.inner h
      simp only [runTakeS, List.filter_cons, isWOp, if_true]
      have hx : (x.step oc .flush).2 = .flush (x.t.inner.flush).2.1 := rfl
      have hy : (y.step oc .flush).2 = .flush (y.t.inner.flush).2.1 := rfl
      rw [hx, hy, hr]
      simp only [isWRes, if_true, List.cons.injEq, true_and]
      exact ih _ _ hw

theorem take_read_cong (oc : Bool) (x y : TakeS) (n : Nat) (h : rsideT x = rsideT y) :
    (x.step oc (.read n)).2 = (y.step oc (.read n)).2 ∧ rsideT (x.step oc (.read n)).1 = rsideT (y.step oc (.read n)).1 := by
  simp only [rsideT, Prod.mk.injEq] at h
  obtain ⟨hi, hrem⟩ := h
  simp only [TakeS.step, hrem]
  by_cases h0 : y.t.remaining = 0
  · simp [h0, rsideT, hi, hrem]
  · simp only [h0, if_false]
    obtain ⟨c1, c2, c3⟩ := srw_read_cong x.t.inner y.t.inner ((List.replicate n DEST_INIT).take (min y.t.remaining n)) hi
    rcases hr1 : x.t.inner.read ((List.replicate n DEST_INIT).take (min y.t.remaining n)) with ⟨s1', res, d', k1⟩
    rcases hr2 : y.t.inner.read ((List.replicate n DEST_INIT).take (min y.t.remaining n)) with ⟨t1', res2, d2, k2⟩
    rw [hr1, hr2] at c1 c2 c3
    simp only at c1 c2 c3
    subst c1 c2
    cases res with
    | error e => simp [rsideT, c3, hrem]
    | ok m =>
      simp only
      cases hs : usizeSub oc y.t.remaining m <;> simp [rsideT, c3, hrem]

/-- read results AND the remaining allowance are what they would be without the writes: a write never changes the
    take's read allowance -/
theorem take_reads_independent (oc : Bool) (ops : List AdOp) :
    ∀ (x y : TakeS), rsideT x = rsideT y →
      (runTakeS oc x ops).2.filter (fun r => !isWRes r) = (runTakeS oc y (ops.filter isROp)).2 ∧
      (runTakeS oc x ops).1.t.remaining = (runTakeS oc y (ops.filter isROp)).1.t.remaining := by
  induction ops with
  | nil => intro x y h; simp only [runTakeS, List.filter_nil, true_and]; exact congrArg Prod.snd h
  | cons op ops ih =>
    intro x y h
    cases op with
    | read n =>
      obtain ⟨h1, h2⟩ := take_read_cong oc x y n h
      obtain ⟨_, h3, _⟩ := take_read_wside oc x n
      simp only [runTakeS, List.filter_cons, isROp, if_true, h3, Bool.not_false]
      rw [h1]
      simp only [List.cons.injEq, true_and]
      exact ih _ _ h2
    | write b =>
      obtain ⟨h1, _, _⟩ := srw_write_sides x.t.inner b
      have hx : rsideT (x.step oc (.write b)).1 = rsideT x := by simp [TakeS.step, rsideT, h1]
      have hres : isWRes (x.step oc (.write b)).2 = true := rfl
      simp only [runTakeS, List.filter_cons, isROp, hres, Bool.not_true]
      exact ih _ _ (hx.trans h)
    | flush =>
      obtain ⟨h1, _, _⟩ := srw_flush_sides x.t.inner
      have hx : rsideT (x.step oc .flush).1 = rsideT x := by simp [TakeS.step, rsideT, h1]
      have hres : isWRes (x.step oc .flush).2 = true := rfl
      simp only [runTakeS, List.filter_cons, isROp, hres, Bool.not_true]
      exact ih _ _ (hx.trans h)

/-- non-vacuity: a history interleaving reads and writes on a chain -/
example :
    let x : ChainS := { c := { first := some ⟨1, [65, 66], [], [], [], []⟩, second := ⟨2, [99], [], [.part 1, .err 5], [], []⟩ }, log := [] }
    wcalls 2 [.write [7, 8], .read 4, .write [9], .flush] (runChainS x [.write [7, 8], .read 4, .write [9], .flush]).2 =
      [.write 2 [7, 8] (.ok 1), .write 2 [9] (.error 5), .flush 2 (.ok ())] := by decide

end FBV.C13

/- C05 translation tie, deframe_null: see FBV/Props/C05genBase.lean -/
import FBV.Gen.Deframers
import FBV.Model.Deframe
import FBV.Props.C05
import FBV.Props.C05genBase
namespace FBV.C05gen
open FBV FBV.Rs

/-! ### deframe_null -/

/-- the model's test at index `i` as a loop body -/
def nullBody (d : List Byte) (i : Nat) : Flow DfRet :=
  if d[i]? = some NUL then .ok (some (Except.ok (some (0, i, i + 1)))) else .ok none

theorem forFirst_null (d : List Byte) (n : Nat) :
    forFirst n d.length (nullBody d) = flowOf (nullFrom d n) := by
  fun_induction nullFrom d n with
  | case1 n h hz =>
    rw [forFirst]; simp [h, nullBody, hz, flowOf]
  | case2 n h hz ih =>
    rw [forFirst]; simp only [h, if_true]
    have : nullBody d n = .ok none := by simp [nullBody, h, hz]
    rw [this]; exact ih
  | case3 n h =>
    rw [forFirst]; simp [h, flowOf]

/-- deframe_null.rs as translated = the model, for every slice and both profiles -/
theorem gen_null_eq (oc : Bool) (d : List Byte) (hlen : d.length < 2 ^ 64) :
    GenDf.deframe_null oc d = .ok (Except.ok (deframeNull d)) := by
  unfold GenDf.deframe_null deframeNull
  rw [forFirst_congr d.length _ (nullBody d) 0, forFirst_null, fnBody_flowOf]
  intro i _ hi
  unfold nullBody
  rs_norm
  by_cases h : d[i] = NUL <;> simp_all [NUL]

/-- C05 for the translated `deframe_null`: it returns (no panic, no error) `None` iff there is no NUL, else the block
    ending with the FIRST NUL with everything before it as payload -/
theorem gen_null_spec (oc : Bool) (d : List Byte) (hlen : d.length < 2 ^ 64) :
    ∃ o, GenDf.deframe_null oc d = .ok (Except.ok o) ∧ (o = none ↔ NUL ∉ d) ∧
      (∀ s e n, o = some (s, e, n) → s = 0 ∧ 0 < n ∧ n ≤ d.length ∧ d[n-1]? = some NUL ∧
        (∀ i, i < n - 1 → d[i]? ≠ some NUL) ∧ e = n - 1) :=
  ⟨deframeNull d, gen_null_eq oc d hlen, C05.null_none_iff d, fun s e n h => C05.null_some d s e n h⟩

example : GenDf.deframe_null true [97, 0, 98] = .ok (Except.ok (some (0, 1, 2))) := by
  rw [gen_null_eq _ _ (by simp)]; simp [deframeNull, nullFrom, NUL]

end FBV.C05gen

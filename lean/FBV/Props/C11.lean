/-
  C11 — `try_parse` is transactional over the closure's reads.
  A closure is a read script (any sequence of the eight read calls, `try_parse` nested to any depth)
  ending in `None` or `Some`.  For every weakly well-formed state and every script that stays within
  the contract of `read_byte`/`read_bytes`: `None` ⇒ the whole state is exactly as before;
  `Some` ⇒ exactly the bytes the script consumed are gone.
-/
import FBV.Lemmas.StepReads
namespace FBV.C11
open FBV

theorem step_sat (oc : Bool) (b : Buf) (op : Op) (h : b.WInv) :
    Sat_C11 b op (step oc b op).2 (step oc b op).1.obs = true := by
  cases op with
  | tryParse ops sm =>
    rcases step_tryParse_cases oc b ops sm h with ⟨hp, _, _⟩ | ⟨hp, ho, hr, hsame⟩
    · simp [Sat_C11, hp]
    · rw [ho]
      cases sm with
      | true =>
        simp only [if_true] at hr
        have h1 := Reads.readable h hr
        have h2 := Reads.len hr
        have h3 := Reads.le hr
        simp only [Sat_C11, hp, Bool.false_eq_true, if_false, if_true, obs_rd, h1, Obs.len, obs_wi, obs_ri, h2, Buf.len]
        simp; omega
      | false =>
        rw [hsame rfl]; simp [Sat_C11, hp, sameAll]
  | _ => simp [Sat_C11]

end FBV.C11

/-
  C18 (partial) — no heap allocation on successful operations: the part a theorem can carry is WHERE
  allocation can come from.  Over the regenerated table of allocating constructs in the anchored files:
  none sits on a success path (contexts: 1 error path, 2 error conversion, 3 the String helpers
  escape_ascii / Debug excepted by the property, 4 test-only code, 5 type position).
  That the remaining code does not allocate is measured, not proved (instrumented global allocator).
-/
import FBV.Gen.SourceFacts
namespace FBV.C18
open FBV

theorem no_success_path_allocation_site : ∀ s ∈ Gen.allocSites, s.2.2 ≠ 0 := by decide

end FBV.C18

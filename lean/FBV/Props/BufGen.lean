/-
  Translation tie for the buffer core (C01 / C03 / C04, and through them C10 / C11).
  `FBV/Gen/BufMethods.lean` is regenerated from /repo's fixed-buffer/src/lib.rs by `tools/rs2lean_buf.py` on every run;
  this file proves each translated method EQUAL to the hand-written model method of FBV/Model/Buf.lean — the methods out
  of which `step` is built and which the C01/C03/C04/C10/C11 theorems are about — on every buffer state satisfying the
  struct's invariant `read_index ≤ write_index ≤ SIZE < 2^63` (`Buf.WInv`, preserved by every model step:
  `FBV.step_WInv`), for every argument and both overflow-check settings.  Results AND final states are equal, including
  the state at a panic (C04 is about exactly that).
-/
import FBV.Gen.BufMethods
import FBV.Model.Buf
namespace FBV.BufGen
open FBV

theorem sub_ok (oc : Bool) (a b : Nat) (h : b ≤ a) : usizeSub oc a b = .ok (a - b) := by simp [usizeSub, h]
theorem add_ok (oc : Bool) (a b : Nat) (h : a + b < 2 ^ 64) : usizeAdd oc a b = .ok (a + b) := by simp [usizeAdd, h]

/-- closing step shared by the simple methods: evaluate the checked primitives that cannot fail under the invariant, then
    compare what is left -/
macro "buf_close" : tactic =>
  `(tactic| first
    | done
    | (simp (disch := omega) only [sub_ok, add_ok] <;>
        first
        | done
        | rfl
        | (simp; done)
        | (simp; apply Bool.eq_iff_iff.mpr; simp only [beq_iff_eq]; omega)
        | (simp; omega))
    | (simp_all; omega))

theorem gen_len_eq (oc : Bool) (b : Buf) (h : b.WInv) : GenBuf.len oc b = lenM oc b := by
  obtain ⟨h1, h2, h3⟩ := h
  simp [GenBuf.len, lenM]
  first | done | (cases usizeSub oc b.wi b.ri <;> rfl) | buf_close

theorem gen_is_empty_eq (oc : Bool) (b : Buf) (h : b.WInv) : GenBuf.is_empty oc b = isEmptyM b := by
  obtain ⟨h1, h2, h3⟩ := h
  simp [GenBuf.is_empty, isEmptyM, GenBuf.len]
  buf_close

theorem gen_clear_eq (oc : Bool) (b : Buf) (_h : b.WInv) : GenBuf.clear oc b = clearM b := by
  simp [GenBuf.clear, clearM]

theorem gen_readable_eq (oc : Bool) (b : Buf) (_h : b.WInv) : GenBuf.readable oc b = readableM b := by
  simp [GenBuf.readable, readableM]
  first | done | (cases slice b.mem b.ri b.wi <;> rfl)

theorem gen_writable_eq (oc : Bool) (b : Buf) (_h : b.WInv) : GenBuf.writable oc b = writableM b := by
  simp [GenBuf.writable, writableM]
  first | done | (cases slice b.mem b.wi b.mem.length <;> rfl)

theorem lenM_state (oc : Bool) (b : Buf) : (lenM oc b).1 = b := by simp [lenM]

theorem gen_read_bytes_eq (oc : Bool) (n : Nat) (b : Buf) (h : b.WInv) : GenBuf.read_bytes oc n b = readBytes oc n b := by
  have hl := gen_len_eq oc b h
  obtain ⟨h1, h2, h3⟩ := h
  simp only [GenBuf.read_bytes, readBytes, bind_eq, M.bind, hl]
  simp [lenM]
  cases hs : usizeSub oc b.wi b.ri with
  | panic => simp
  | ok l =>
    simp
    by_cases hn : n ≤ l
    · have hn' : ¬ l < n := by omega
      simp [hn']
      cases h2 : usizeAdd oc b.ri n with
      | panic => simp
      | ok nri =>
        simp
        by_cases he : nri = b.wi
        · simp [he]
          first | done | (cases slice b.mem b.ri b.wi <;> rfl)
        · simp [he]
          first | done | (cases slice b.mem b.ri nri <;> rfl)
    · have hn' : l < n := by omega
      simp [hn']

/-- non-vacuity: a state satisfying the hypothesis, and what the translated `read_bytes` does on it -/
example : ({ mem := [1, 2, 3, 4], ri := 1, wi := 3 } : Buf).WInv := by decide
example : GenBuf.read_bytes true 2 { mem := [1, 2, 3, 4], ri := 1, wi := 3 } = ({ mem := [1, 2, 3, 4], ri := 0, wi := 0 }, .ok [2, 3]) := by
  decide

theorem gen_wrote_eq (oc : Bool) (n : Nat) (b : Buf) (_h : b.WInv) : GenBuf.wrote oc n b = wrote oc n b := by
  simp only [GenBuf.wrote, wrote]
  by_cases h0 : n = 0
  · simp [h0]
  · simp [h0]
    cases h1 : usizeSub oc b.mem.length b.wi with
    | panic => simp
    | ok room =>
      simp
      by_cases hn : n ≤ room
      · have hn' : ¬ room < n := by omega
        simp [hn']
        first | done | (cases h2 : usizeAdd oc b.wi n <;> simp)
      · have hn' : room < n := by omega
        simp [hn']

theorem gen_shift_eq (oc : Bool) (b : Buf) (_h : b.WInv) : GenBuf.shift oc b = shiftM oc b := by
  simp only [GenBuf.shift, shiftM]
  by_cases h0 : b.ri = 0
  · simp [h0]
  · simp [h0]

theorem gen_try_read_bytes_eq (oc : Bool) (n : Nat) (b : Buf) (h : b.WInv) :
    GenBuf.try_read_bytes oc n b = tryReadBytes oc n b := by
  have hl := gen_len_eq oc b h
  have hr := fun k => gen_read_bytes_eq oc k b h
  simp only [GenBuf.try_read_bytes, tryReadBytes, bind_eq, M.bind, hl]
  simp [lenM]
  cases hs : usizeSub oc b.wi b.ri with
  | panic => simp
  | ok l =>
    simp
    by_cases hn : l < n
    · simp [hn]
    · simp [hn, hr]

theorem gen_read_all_eq (oc : Bool) (b : Buf) (h : b.WInv) : GenBuf.read_all oc b = readAll oc b := by
  have hl := gen_len_eq oc b h
  have hr := fun k => gen_read_bytes_eq oc k b h
  simp only [GenBuf.read_all, readAll, bind_eq, M.bind, hl]
  simp [lenM]
  cases hs : usizeSub oc b.wi b.ri with
  | panic => simp
  | ok l =>
    simp [hr]
    rcases readBytes oc l b with ⟨b'', o2⟩
    cases o2 <;> rfl

theorem gen_read_byte_eq (oc : Bool) (b : Buf) (h : b.WInv) : GenBuf.read_byte oc b = readByte oc b := by
  have hr := gen_read_bytes_eq oc 1 b h
  simp only [GenBuf.read_byte, readByte, bind_eq, M.bind, hr]
  rcases readBytes oc 1 b with ⟨b', o⟩
  cases o with
  | panic => rfl
  | ok sl =>
    cases sl with
    | nil => simp
    | cons x xs => simp

theorem gen_try_read_byte_eq (oc : Bool) (b : Buf) (h : b.WInv) : GenBuf.try_read_byte oc b = tryReadByte oc b := by
  have he := gen_is_empty_eq oc b h
  have hb := gen_read_byte_eq oc b h
  simp only [GenBuf.try_read_byte, tryReadByte, bind_eq, M.bind, he]
  simp [isEmptyM]
  by_cases hw : b.wi = b.ri
  · simp [hw]
  · simp [hw, hb]

end FBV.BufGen

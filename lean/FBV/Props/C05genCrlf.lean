/- C05 translation tie, deframe_crlf: see FBV/Props/C05genBase.lean -/
import FBV.Gen.Deframers
import FBV.Model.Deframe
import FBV.Props.C05
import FBV.Props.C05genBase
namespace FBV.C05gen
open FBV FBV.Rs

/-! ### deframe_crlf -/

def crlfBody (d : List Byte) (i : Nat) : Flow DfRet :=
  if 0 < i ∧ d[i - 1]? = some CR ∧ d[i]? = some LF then .ok (some (Except.ok (some (0, i - 1, i + 1)))) else .ok none

theorem forFirst_crlf (d : List Byte) (n : Nat) :
    forFirst n d.length (crlfBody d) = flowOf (crlfFrom d n) := by
  fun_induction crlfFrom d n with
  | case1 n h h0 hc =>
    rw [forFirst]
    have h1 : n - 1 < d.length := by omega
    simp [h, crlfBody, flowOf, h0, hc.1, hc.2, List.getElem?_eq_getElem h1]
  | case2 n h h0 hc ih =>
    rw [forFirst]; simp only [h, if_true]
    have h1 : n - 1 < d.length := by omega
    have : crlfBody d n = .ok none := by
      simp only [crlfBody, List.getElem?_eq_getElem h1, List.getElem?_eq_getElem h, Option.some.injEq]
      rw [if_neg]; intro hh; exact hc ⟨hh.2.1, hh.2.2⟩
    rw [this]; exact ih
  | case3 n h h0 ih =>
    rw [forFirst]; simp only [h, if_true]
    have : crlfBody d n = .ok none := by simp [crlfBody, h0]
    rw [this]; exact ih
  | case4 n h =>
    rw [forFirst]; simp [h, flowOf]

/-- deframe_crlf.rs as translated = the model, for every slice and both profiles -/
theorem gen_crlf_eq (oc : Bool) (d : List Byte) (hlen : d.length < 2 ^ 64) :
    GenDf.deframe_crlf oc d = .ok (Except.ok (deframeCrlf d)) := by
  unfold GenDf.deframe_crlf deframeCrlf
  by_cases hl : 1 < d.length
  · have hl2 : 2 ≤ d.length := hl
    have hl0 : d.length ≠ 0 := by omega
    have hl1 : d.length ≠ 1 := by omega
    rs_norm
    simp only [hl, hl2, hl0, hl1, if_true, ne_eq, not_false_eq_true, decide_true, decide_false, decide_not]
    rw [forFirst_congr d.length _ (crlfBody d) 1, forFirst_crlf, fnBody_flowOf]
    intro i h0 hi
    have h1 : i - 1 < d.length := by omega
    unfold crlfBody
    rs_norm
    by_cases hc : d[i - 1] = CR <;> by_cases hf : d[i] = LF <;> simp_all [LF, CR] <;> omega
  · have hl2 : ¬ 2 ≤ d.length := hl
    rs_norm
    simp only [hl, hl2, if_false, decide_false]
    first | rfl | (simp [fnBody, Rs.bind])

/-- C05 for the translated `deframe_crlf` -/
theorem gen_crlf_spec (oc : Bool) (d : List Byte) (hlen : d.length < 2 ^ 64) :
    ∃ o, GenDf.deframe_crlf oc d = .ok (Except.ok o) ∧ (o = none ↔ ∀ i, ¬ crlfAt d i) ∧
      (∀ s e n, o = some (s, e, n) → s = 0 ∧ 1 < n ∧ n ≤ d.length ∧ d[n-2]? = some CR ∧ d[n-1]? = some LF ∧
        (∀ i, i < n - 1 → ¬ crlfAt d i) ∧ e = n - 2) :=
  ⟨deframeCrlf d, gen_crlf_eq oc d hlen, C05.crlf_none_iff d, fun s e n h => C05.crlf_some d s e n h⟩

example : GenDf.deframe_crlf true [97, 10, 13, 10, 98] = .ok (Except.ok (some (0, 2, 4))) := by
  rw [gen_crlf_eq _ _ (by simp)]; simp [deframeCrlf, crlfFrom, LF, CR]

end FBV.C05gen

/-
  C01 / C03 / C04 on the vectored calls of the `Read` / `Write` trait surface: the default implementations (the model)
  satisfy the predicates the correspondence check evaluates on the implementation's `write_vectored` / `read_vectored`.
-/
import FBV.Spec.SatV
import FBV.Props.C01
import FBV.Props.C03
import FBV.Props.C04
namespace FBV.C01
open FBV

theorem zero_mem_prefixSums (l : List (List Byte)) : 0 ∈ prefixSums l := by cases l <;> simp [prefixSums]

theorem firstNE_facts (slices : List (List Byte)) :
    (firstNE slices).length ∈ prefixSums slices ∧
    (slices.flatten).take (firstNE slices).length = firstNE slices ∧
    (slices.flatten = [] ↔ firstNE slices = []) := by
  induction slices with
  | nil => simp [firstNE, prefixSums]
  | cons s rest ih =>
    by_cases hs : s = []
    · subst hs
      have e : firstNE ([] :: rest) = firstNE rest := by simp [firstNE, List.find?]
      rw [e]
      obtain ⟨h1, h2, h3⟩ := ih
      refine ⟨?_, by simpa using h2, by simpa using h3⟩
      simp only [prefixSums, List.length_nil, Nat.add_zero, List.map_id', List.mem_cons]
      exact Or.inr h1
    · have hne : s.isEmpty = false := by cases s <;> simp_all
      have e : firstNE (s :: rest) = s := by simp [firstNE, List.find?, hne]
      rw [e]
      refine ⟨?_, by simp, by simp [hs]⟩
      simp only [prefixSums, List.mem_cons, List.mem_map]
      exact Or.inr ⟨0, zero_mem_prefixSums rest, by simp⟩

/-- the default `write_vectored` satisfies the vectored-write predicate in every state, for every slice list -/
theorem stepWV_sat (oc : Bool) (b : Buf) (slices : List (List Byte)) (h : b.WInv) :
    Sat_WV b slices (stepWV oc b slices).2 (stepWV oc b slices).1.obs = true := by
  obtain ⟨p1, p2, p3⟩ := firstNE_facts slices
  have hl := Buf.readable_length b h
  unfold stepWV
  rw [step_ioWrite oc b _ h]
  by_cases hfit : (firstNE slices).length ≤ b.mem.length - b.wi
  · simp only [hfit, if_true]
    have hr := put_commit_readable b (firstNE slices) h
    have hml := put_mem_length b (firstNE slices) h hfit
    obtain ⟨w1, w2, _⟩ := h
    have hmem : ((b.put (firstNE slices)).commit (firstNE slices).length).mem.length = b.mem.length := by
      simpa [Buf.commit] using hml
    have hwi : ((b.put (firstNE slices)).commit (firstNE slices).length).wi = b.wi + (firstNE slices).length := by
      simp [Buf.commit, Buf.put]
    have hri : ((b.put (firstNE slices)).commit (firstNE slices).length).ri = b.ri := by
      simp [Buf.commit, Buf.put]
    have a1 : b.ri ≤ b.wi + (firstNE slices).length := by omega
    have a2 : b.wi + (firstNE slices).length ≤ b.mem.length := by omega
    have a3 : (b.readable ++ firstNE slices).length = b.wi + (firstNE slices).length - b.ri := by
      rw [List.length_append, hl]; omega
    have a6 : b.mem.length - (b.wi + (firstNE slices).length) + (firstNE slices).length = b.mem.length - b.wi := by omega
    have hz' : (slices.flatten.isEmpty || decide (0 < (firstNE slices).length)) = true := by
      by_cases hf : slices.flatten = []
      · simp [hf]
      · have := (not_congr p3).mp hf
        have hp : 0 < (firstNE slices).length := List.length_pos_iff.mpr this
        simp [hp]
    simp only [Sat_WV, validObs, Buf.obs, Obs.free, Buf.free, hr, p2, hmem, hwi, hri,
      List.contains_eq_mem, p1, decide_true, Bool.true_and, Bool.and_true, beq_self_eq_true, a1, a2, a3, a6, hfit, hz']
  · simp only [hfit, if_false]
    obtain ⟨w1, w2, _⟩ := h
    have hk : (firstNE slices).length ≤ slices.flatten.length := by
      have := congrArg List.length p2
      simp only [List.length_take] at this
      omega
    have hlt : b.mem.length - b.wi < slices.flatten.length := by omega
    simp only [Sat_WV, validObs, Buf.obs, Obs.free, Buf.free, hl,
      decide_true, Bool.true_and, Bool.and_true, beq_self_eq_true, w1, w2, hlt]

/-- non-vacuity / regression witnesses: the two seeded overrides of `write_vectored` violate the predicate -/
example : Sat_WV ⟨[97, 98, 99, 0, 0, 0, 0, 0], 0, 3⟩ [[100, 101, 102, 103, 104, 105, 106], [88, 89]]
    { cls := .ok, nums := [2] } ⟨[97, 98, 99, 88, 89, 0, 0, 0], 0, 5, [97, 98, 99, 88, 89], false⟩ = false := by decide
example : Sat_WV ⟨[97, 98, 99, 0, 0, 0, 0, 0], 0, 3⟩ [[100, 101], [1, 2, 3, 4, 5, 6]]
    { cls := .err EK_InvalidData } ⟨[97, 98, 99, 100, 101, 0, 0, 0], 0, 5, [97, 98, 99, 100, 101], false⟩ = false := by decide

theorem firstNELen_le_sum (lens : List Nat) : firstNELen lens ≤ lens.foldl (· + ·) 0 := by
  have hf : ∀ (l : List Nat) (a : Nat), l.foldl (· + ·) a = a + l.foldl (· + ·) 0 := by
    intro l
    induction l with
    | nil => intro a; simp
    | cons x xs ih => intro a; simp only [List.foldl_cons]; rw [ih (a + x), ih (0 + x)]; omega
  induction lens with
  | nil => simp [firstNELen]
  | cons k rest ih =>
    by_cases hk : k = 0
    · subst hk
      have : firstNELen (0 :: rest) = firstNELen rest := by simp [firstNELen, List.find?]
      rw [this]; simpa using ih
    · have hk' : (k != 0) = true := by simp [hk]
      have : firstNELen (k :: rest) = k := by simp [firstNELen, List.find?, hk']
      rw [this, List.foldl_cons, hf]; omega

theorem destsOf_facts (lens : List Nat) (bytes : List Byte) (hb : bytes.length = firstNELen lens) :
    (destsOf lens bytes).map List.length = lens ∧
    ∃ tail, (destsOf lens bytes).flatten = bytes ++ tail := by
  induction lens with
  | nil =>
    have : bytes = [] := List.eq_nil_of_length_eq_zero (by simpa [firstNELen] using hb)
    subst this; simp [destsOf]
  | cons k rest ih =>
    by_cases hk : k = 0
    · subst hk
      have e : firstNELen (0 :: rest) = firstNELen rest := by simp [firstNELen, List.find?]
      obtain ⟨h1, tail, h2⟩ := ih (by rw [hb, e])
      exact ⟨by simp [destsOf, h1], tail, by simp [destsOf, h2]⟩
    · have hk' : (k != 0) = true := by simp [hk]
      have e : firstNELen (k :: rest) = k := by simp [firstNELen, List.find?, hk']
      refine ⟨?_, (rest.map fun j => List.replicate j DEST_FILL).flatten, by simp [destsOf, hk]⟩
      simp only [destsOf, hk, if_false, List.map_cons, List.map_map, hb, e, List.cons.injEq, true_and]
      induction rest with
      | nil => rfl
      | cons a as _ => simp [Function.comp_def]

/-- the default `read_vectored` satisfies the vectored-read predicate in every state, for every list of destinations -/
theorem stepRV_sat (oc : Bool) (b : Buf) (lens : List Nat) (h : b.WInv) :
    Sat_RV b lens (destsOf lens (stepRV oc b lens).2.bytes) (stepRV oc b lens).2 (stepRV oc b lens).1.obs = true := by
  have hl := Buf.readable_length b h
  have hsum := firstNELen_le_sum lens
  unfold stepRV
  rw [step_ioRead oc b _ h]
  by_cases hm : min (firstNELen lens) (b.wi - b.ri) = 0
  · simp only [hm, if_true]
    obtain ⟨d1, tail, d2⟩ := destsOf_facts lens (List.replicate (firstNELen lens) DEST_FILL) (by simp)
    obtain ⟨w1, w2, _⟩ := h
    simp only [Sat_RV, validObs, Buf.obs, Obs.free, Buf.free, Buf.len, hl, d1, hm, List.take_zero, List.drop_zero,
      decide_true, Bool.true_and, Bool.and_true, beq_self_eq_true, w1, w2, Nat.le_refl, Nat.zero_le]
  · simp only [hm, if_false]
    have hle : min (firstNELen lens) (b.wi - b.ri) ≤ b.wi - b.ri := Nat.min_le_right _ _
    have hw := consume_WInv b _ h hle
    have hr := consume_readable b _ h hle
    have hcm := consume_mem b (min (firstNELen lens) (b.wi - b.ri))
    have hfree := consume_free_ge b (min (firstNELen lens) (b.wi - b.ri)) h
    have hl2 := Buf.readable_length _ hw
    obtain ⟨d1, tail, d2⟩ := destsOf_facts lens
      (b.readable.take (min (firstNELen lens) (b.wi - b.ri)) ++
        List.replicate (firstNELen lens - min (firstNELen lens) (b.wi - b.ri)) DEST_FILL)
      (by simp only [List.length_append, List.length_take, List.length_replicate, hl]; omega)
    obtain ⟨w1, w2, _⟩ := hw
    have htake : ((b.readable.take (min (firstNELen lens) (b.wi - b.ri)) ++
        List.replicate (firstNELen lens - min (firstNELen lens) (b.wi - b.ri)) DEST_FILL) ++ tail).take
          (min (firstNELen lens) (b.wi - b.ri)) = b.readable.take (min (firstNELen lens) (b.wi - b.ri)) := by
      rw [List.append_assoc, List.take_append_of_le_length (by simp [hl])]
      simp [List.take_take]
    have hn2 : min (firstNELen lens) (b.wi - b.ri) ≤ min (lens.foldl (· + ·) 0) (b.wi - b.ri) := by omega
    rw [hcm] at w2 hfree
    rw [hr] at hl2
    simp only [Sat_RV, validObs, Buf.obs, Obs.free, Buf.free, Buf.len, hr, hcm, d1, d2, htake, hl2,
      decide_true, Bool.true_and, Bool.and_true, beq_self_eq_true, w1, w2, Nat.le_refl, hn2, hfree]

/-- regression witness: a `read_vectored` that hands out bytes out of order violates the predicate -/
example : Sat_RV ⟨[97, 98, 99, 0], 0, 3⟩ [1, 2] [[98], [97, 99]] { cls := .ok, nums := [3] } ⟨[97, 98, 99, 0], 0, 0, [], true⟩ = false := by
  decide

end FBV.C01

/-
  C01 / C03 / C04 on the vectored calls of the `Read` / `Write` trait surface: the default implementations (the model)
  satisfy the predicates the correspondence check evaluates on the implementation's `write_vectored` / `read_vectored`.
-/
import FBV.Spec.SatV
import FBV.Props.C01
import FBV.Props.C03
import FBV.Props.C04
namespace FBV.C01
open FBV

theorem zero_mem_prefixSums (l : List (List Byte)) : 0 ∈ prefixSums l := by cases l <;> simp [prefixSums]

theorem firstNE_facts (slices : List (List Byte)) :
    (firstNE slices).length ∈ prefixSums slices ∧
    (slices.flatten).take (firstNE slices).length = firstNE slices ∧
    (slices.flatten = [] ↔ firstNE slices = []) := by
  induction slices with
  | nil => simp [firstNE, prefixSums]
  | cons s rest ih =>
    by_cases hs : s = []
    · subst hs
      have e : firstNE ([] :: rest) = firstNE rest := by simp [firstNE, List.find?]
      rw [e]
      obtain ⟨h1, h2, h3⟩ := ih
      refine ⟨?_, by simpa using h2, by simpa using h3⟩
      simp only [prefixSums, List.length_nil, Nat.add_zero, List.map_id', List.mem_cons]
      exact Or.inr h1
    · have hne : s.isEmpty = false := by cases s <;> simp_all
      have e : firstNE (s :: rest) = s := by simp [firstNE, List.find?, hne]
      rw [e]
      refine ⟨?_, by simp, by simp [hs]⟩
      simp only [prefixSums, List.mem_cons, List.mem_map]
      exact Or.inr ⟨0, zero_mem_prefixSums rest, by simp⟩

/-- the default `write_vectored` satisfies the vectored-write predicate in every state, for every slice list -/
theorem stepWV_sat (oc : Bool) (b : Buf) (slices : List (List Byte)) (h : b.WInv) :
    Sat_WV b slices (stepWV oc b slices).2 (stepWV oc b slices).1.obs = true := by
  obtain ⟨p1, p2, p3⟩ := firstNE_facts slices
  have hl := Buf.readable_length b h
  unfold stepWV
  rw [step_ioWrite oc b _ h]
  by_cases hfit : (firstNE slices).length ≤ b.mem.length - b.wi
  · simp only [hfit, if_true]
    have hr := put_commit_readable b (firstNE slices) h
    have hml := put_mem_length b (firstNE slices) h hfit
    obtain ⟨w1, w2, _⟩ := h
    have hmem : ((b.put (firstNE slices)).commit (firstNE slices).length).mem.length = b.mem.length := by
      simpa [Buf.commit] using hml
    have hwi : ((b.put (firstNE slices)).commit (firstNE slices).length).wi = b.wi + (firstNE slices).length := by
      simp [Buf.commit, Buf.put]
    have hri : ((b.put (firstNE slices)).commit (firstNE slices).length).ri = b.ri := by
      simp [Buf.commit, Buf.put]
    have a1 : b.ri ≤ b.wi + (firstNE slices).length := by omega
    have a2 : b.wi + (firstNE slices).length ≤ b.mem.length := by omega
    have a3 : (b.readable ++ firstNE slices).length = b.wi + (firstNE slices).length - b.ri := by
      rw [List.length_append, hl]; omega
    have a6 : b.mem.length - (b.wi + (firstNE slices).length) + (firstNE slices).length = b.mem.length - b.wi := by omega
    have hz' : (slices.flatten.isEmpty || decide (0 < (firstNE slices).length)) = true := by
      by_cases hf : slices.flatten = []
      · simp [hf]
      · have := (not_congr p3).mp hf
        have hp : 0 < (firstNE slices).length := List.length_pos_iff.mpr this
        simp [hp]
    simp only [Sat_WV, validObs, Buf.obs, Obs.free, Buf.free, hr, p2, hmem, hwi, hri,
      List.contains_eq_mem, p1, decide_true, Bool.true_and, Bool.and_true, beq_self_eq_true, a1, a2, a3, a6, hfit, hz']
  · simp only [hfit, if_false]
    obtain ⟨w1, w2, _⟩ := h
    have hk : (firstNE slices).length ≤ slices.flatten.length := by
      have := congrArg List.length p2
      simp only [List.length_take] at this
      omega
    have hlt : b.mem.length - b.wi < slices.flatten.length := by omega
    simp only [Sat_WV, validObs, Buf.obs, Obs.free, Buf.free, hl,
      decide_true, Bool.true_and, Bool.and_true, beq_self_eq_true, w1, w2, hlt]

/-- non-vacuity / regression witnesses: the two seeded overrides of `write_vectored` violate the predicate -/
example : Sat_WV ⟨[97, 98, 99, 0, 0, 0, 0, 0], 0, 3⟩ [[100, 101, 102, 103, 104, 105, 106], [88, 89]]
    { cls := .ok, nums := [2] } ⟨[97, 98, 99, 88, 89, 0, 0, 0], 0, 5, [97, 98, 99, 88, 89], false⟩ = false := by decide
example : Sat_WV ⟨[97, 98, 99, 0, 0, 0, 0, 0], 0, 3⟩ [[100, 101], [1, 2, 3, 4, 5, 6]]
    { cls := .err EK_InvalidData } ⟨[97, 98, 99, 100, 101, 0, 0, 0], 0, 5, [97, 98, 99, 100, 101], false⟩ = false := by decide

theorem firstNELen_le_sum (lens : List Nat) : firstNELen lens ≤ lens.foldl (· + ·) 0 := by
  have hf : ∀ (l : List Nat) (a : Nat), l.foldl (· + ·) a = a + l.foldl (· + ·) 0 := by
    intro l
    induction l with
    | nil => intro a; simp
    | cons x xs ih => intro a; simp only [List.foldl_cons]; rw [ih (a + x), ih (0 + x)]; omega
  induction lens with
  | nil => simp [firstNELen]
  | cons k rest ih =>
    by_cases hk : k = 0
    · subst hk
      have : firstNELen (0 :: rest) = firstNELen rest := by simp [firstNELen, List.find?]
      rw [this]; simpa using ih
    · have hk' : (k != 0) = true := by simp [hk]
      have : firstNELen (k :: rest) = k := by simp [firstNELen, List.find?, hk']
      rw [this, List.foldl_cons, hf]; omega

theorem destsOf_facts (lens : List Nat) (bytes : List Byte) (hb : bytes.length = firstNELen lens) :
    (destsOf lens bytes).map List.length = lens ∧
    ∃ tail, (destsOf lens bytes).flatten = bytes ++ tail := by
  induction lens with
  | nil =>
    have : bytes = [] := List.eq_nil_of_length_eq_zero (by simpa [firstNELen] using hb)
    subst this; simp [destsOf]
  | cons k rest ih =>
    by_cases hk : k = 0
    · subst hk
      have e : firstNELen (0 :: rest) = firstNELen rest := by simp [firstNELen, List.find?]
      obtain ⟨h1, tail, h2⟩ := ih (by rw [hb, e])
      exact ⟨by simp [destsOf, h1], tail, by simp [destsOf, h2]⟩
    · have hk' : (k != 0) = true := by simp [hk]
      have e : firstNELen (k :: rest) = k := by simp [firstNELen, List.find?, hk']
      refine ⟨?_, (rest.map fun j => List.replicate j DEST_FILL).flatten, by simp [destsOf, hk]⟩
      simp only [destsOf, hk, if_false, List.map_cons, List.map_map, hb, e, List.cons.injEq, true_and]
      induction rest with
      | nil => rfl
      | cons a as _ => simp [Function.comp_def]

/-- the default `read_vectored` satisfies the vectored-read predicate in every state, for every list of destinations -/
theorem stepRV_sat (oc : Bool) (b : Buf) (lens : List Nat) (h : b.WInv) :
    Sat_RV b lens (destsOf lens (stepRV oc b lens).2.bytes) (stepRV oc b lens).2 (stepRV oc b lens).1.obs = true := by
  have hl := Buf.readable_length b h
  have hsum := firstNELen_le_sum lens
  unfold stepRV
  rw [step_ioRead oc b _ h]
  by_cases hm : min (firstNELen lens) (b.wi - b.ri) = 0
  · simp only [hm, if_true]
    obtain ⟨d1, tail, d2⟩ := destsOf_facts lens (List.replicate (firstNELen lens) DEST_FILL) (by simp)
    obtain ⟨w1, w2, _⟩ := h
    simp only [Sat_RV, validObs, Buf.obs, Obs.free, Buf.free, Buf.len, hl, d1, hm, List.take_zero, List.drop_zero,
      decide_true, Bool.true_and, Bool.and_true, beq_self_eq_true, w1, w2, Nat.le_refl, Nat.zero_le]
  · simp only [hm, if_false]
    have hle : min (firstNELen lens) (b.wi - b.ri) ≤ b.wi - b.ri := Nat.min_le_right _ _
    have hw := consume_WInv b _ h hle
    have hr := consume_readable b _ h hle
    have hcm := consume_mem b (min (firstNELen lens) (b.wi - b.ri))
    have hfree := consume_free_ge b (min (firstNELen lens) (b.wi - b.ri)) h
    have hl2 := Buf.readable_length _ hw
    obtain ⟨d1, tail, d2⟩ := destsOf_facts lens
      (b.readable.take (min (firstNELen lens) (b.wi - b.ri)) ++
        List.replicate (firstNELen lens - min (firstNELen lens) (b.wi - b.ri)) DEST_FILL)
      (by simp only [List.length_append, List.length_take, List.length_replicate, hl]; omega)
    obtain ⟨w1, w2, _⟩ := hw
    have htake : ((b.readable.take (min (firstNELen lens) (b.wi - b.ri)) ++
        List.replicate (firstNELen lens - min (firstNELen lens) (b.wi - b.ri)) DEST_FILL) ++ tail).take
          (min (firstNELen lens) (b.wi - b.ri)) = b.readable.take (min (firstNELen lens) (b.wi - b.ri)) := by
      rw [List.append_assoc, List.take_append_of_le_length (by simp [hl])]
      simp [List.take_take]
    have hn2 : min (firstNELen lens) (b.wi - b.ri) ≤ min (lens.foldl (· + ·) 0) (b.wi - b.ri) := by omega
    rw [hcm] at w2 hfree
    rw [hr] at hl2
    simp only [Sat_RV, validObs, Buf.obs, Obs.free, Buf.free, Buf.len, hr, hcm, d1, d2, htake, hl2,
      decide_true, Bool.true_and, Bool.and_true, beq_self_eq_true, w1, w2, Nat.le_refl, hn2, hfree]

/-- regression witness: a `read_vectored` that hands out bytes out of order violates the predicate -/
example : Sat_RV ⟨[97, 98, 99, 0], 0, 3⟩ [1, 2] [[98], [97, 99]] { cls := .ok, nums := [3] } ⟨[97, 98, 99, 0], 0, 0, [], true⟩ = false := by
  decide

/-! ### `write_all` / `write_fmt` / `read_exact` -/

/-- what a run of the default `write_fmt` does, piece by piece -/
theorem wf_run (oc : Bool) :
    ∀ (ps : List (List Byte)) (b : Buf), b.WInv →
      (stepWF oc b ps).1.WInv ∧ (stepWF oc b ps).1.mem.length = b.mem.length ∧ (stepWF oc b ps).1.ri = b.ri ∧
      (((stepWF oc b ps).2.cls = .ok ∧ (stepWF oc b ps).1.readable = b.readable ++ ps.flatten ∧
          (stepWF oc b ps).1.wi = b.wi + ps.flatten.length) ∨
       ((stepWF oc b ps).2.cls = .err EK_InvalidData ∧ b.mem.length - b.wi < ps.flatten.length ∧
          ∃ j, j ≤ ps.length ∧ (stepWF oc b ps).1.readable = b.readable ++ (ps.take j).flatten ∧
            (stepWF oc b ps).1.wi = b.wi + (ps.take j).flatten.length)) := by
  intro ps
  induction ps with
  | nil => intro b h; exact ⟨h, rfl, rfl, Or.inl ⟨rfl, by simp [stepWF], by simp [stepWF]⟩⟩
  | cons p ps ih =>
    intro b h
    by_cases hp : p = []
    · subst hp
      have e : stepWF oc b ([] :: ps) = stepWF oc b ps := by simp [stepWF, stepWA]
      rw [e]
      obtain ⟨a1, a2, a3, a4⟩ := ih b h
      refine ⟨a1, a2, a3, ?_⟩
      rcases a4 with ⟨c1, c2, c3⟩ | ⟨c1, c2, j, c3, c4, c5⟩
      · exact Or.inl ⟨c1, by simpa using c2, by simpa using c3⟩
      · exact Or.inr ⟨c1, by simpa using c2, j + 1, by simp; omega, by simpa using c4, by simpa using c5⟩
    · by_cases hfit : p.length ≤ b.mem.length - b.wi
      · have hstep : stepWA oc b p = ((b.put p).commit p.length, { cls := .ok }) := by
          simp [stepWA, hp, step_ioWrite oc b p h, hfit]
        have e : stepWF oc b (p :: ps) = stepWF oc ((b.put p).commit p.length) ps := by
          simp [stepWF, hstep]
        rw [e]
        have hw := put_commit_WInv b p h hfit
        have hr := put_commit_readable b p h
        have hml : ((b.put p).commit p.length).mem.length = b.mem.length := by
          simpa [Buf.commit] using put_mem_length b p h hfit
        have hwi : ((b.put p).commit p.length).wi = b.wi + p.length := by simp [Buf.commit, Buf.put]
        have hri : ((b.put p).commit p.length).ri = b.ri := by simp [Buf.commit, Buf.put]
        obtain ⟨a1, a2, a3, a4⟩ := ih _ hw
        refine ⟨a1, by rw [a2, hml], by rw [a3, hri], ?_⟩
        rcases a4 with ⟨c1, c2, c3⟩ | ⟨c1, c2, j, c3, c4, c5⟩
        · refine Or.inl ⟨c1, ?_, ?_⟩
          · rw [c2, hr]; simp
          · rw [c3, hwi]; simp; omega
        · refine Or.inr ⟨c1, ?_, j + 1, by simp; omega, ?_, ?_⟩
          · rw [hml, hwi] at c2; simp only [List.flatten_cons, List.length_append]; omega
          · rw [c4, hr]; simp
          · rw [c5, hwi]; simp; omega
      · have hstep : stepWA oc b p = (b, { cls := .err EK_InvalidData }) := by
          simp [stepWA, hp, step_ioWrite oc b p h, hfit]
        have e : stepWF oc b (p :: ps) = (b, { cls := .err EK_InvalidData }) := by
          simp [stepWF, hstep]
        rw [e]
        refine ⟨h, rfl, rfl, Or.inr ⟨rfl, ?_, 0, by simp, by simp, by simp⟩⟩
        simp only [List.flatten_cons, List.length_append]; omega

/-- the default `write_fmt` (and `write_all`: one piece) satisfies the predicate in every state, for every piece list -/
theorem stepWF_sat (oc : Bool) (b : Buf) (pieces : List (List Byte)) (h : b.WInv) :
    Sat_WF b pieces (stepWF oc b pieces).2 (stepWF oc b pieces).1.obs = true := by
  obtain ⟨a1, a2, a3, a4⟩ := wf_run oc pieces b h
  have hl := Buf.readable_length _ a1
  obtain ⟨w1, w2, _⟩ := a1
  have hv : validObs b (stepWF oc b pieces).1.obs = true := by
    simp only [validObs, Buf.obs, a2, hl, decide_true, Bool.true_and, Bool.and_true, beq_self_eq_true, w1]
    rw [a2] at w2
    simp [w2]
  simp only [Sat_WF, hv, Bool.true_and]
  rcases a4 with ⟨c1, c2, c3⟩ | ⟨c1, c2, j, c3, c4, c5⟩
  · rw [c1]
    simp only [Buf.obs, Obs.free, Buf.free, c2, a2, c3, beq_self_eq_true, Bool.true_and]
    have : b.wi + pieces.flatten.length ≤ b.mem.length := by rw [← c3, ← a2]; exact w2
    simp only [beq_iff_eq]; omega
  · rw [c1]
    simp only [beq_self_eq_true, Bool.true_and, Buf.free, c2, decide_true]
    simp only [List.any_eq_true, List.mem_range, Bool.and_eq_true, beq_iff_eq]
    refine ⟨j, by omega, by simp [Buf.obs, c4], ?_⟩
    have : b.wi + (pieces.take j).flatten.length ≤ b.mem.length := by rw [← c5, ← a2]; exact w2
    simp only [Buf.obs, Obs.free, a2, c5]; omega

theorem validObs_of_WInv (b post : Buf) (hw : post.WInv) (hm : post.mem.length = b.mem.length) :
    validObs b post.obs = true := by
  have hl := Buf.readable_length post hw
  obtain ⟨w1, w2, _⟩ := hw
  rw [hm] at w2
  simp [validObs, Buf.obs, hm, hl, w1, w2]

/-- the default `read_exact` satisfies its predicate in every state, for every destination length -/
theorem stepRE_sat (oc : Bool) (b : Buf) (d : Nat) (h : b.WInv) :
    Sat_RE b d (stepRE oc b d).2.bytes (stepRE oc b d).2 (stepRE oc b d).1.obs = true := by
  have hl := Buf.readable_length b h
  unfold stepRE
  rw [step_ioRead oc b d h]
  by_cases hm : min d (b.wi - b.ri) = 0
  · simp only [hm, if_true]
    have hv := validObs_of_WInv b b h rfl
    by_cases hd : d ≤ b.len
    · have hd0 : d = 0 := by simp only [Buf.len] at hd; omega
      subst hd0
      simp [Sat_RE, hv, obs_rd, obs_ri, obs_wi, obs_mem, Obs.free, Buf.free]
    · have hlen0 : b.wi - b.ri = 0 := by simp only [Buf.len] at hd; omega
      have hrd : b.readable = [] := List.eq_nil_of_length_eq_zero (by rw [hl]; exact hlen0)
      have hlt : b.len < d := by omega
      simp only [hd, if_false]
      simp [Sat_RE, hv, obs_rd, obs_ri, obs_wi, obs_mem, Obs.free, Buf.free, hrd, hlt]
      exact Or.inl (by simpa [Buf.len] using hlen0)
  · simp only [hm, if_false]
    have hle : min d (b.wi - b.ri) ≤ b.wi - b.ri := Nat.min_le_right _ _
    have hw := consume_WInv b _ h hle
    have hr := consume_readable b _ h hle
    have hcm := consume_mem b (min d (b.wi - b.ri))
    have hfree := consume_free_ge b (min d (b.wi - b.ri)) h
    have hv := validObs_of_WInv b _ hw (by rw [hcm])
    rw [hcm] at hfree
    by_cases hd : d ≤ b.len
    · have hmin : min d (b.wi - b.ri) = d := by simp only [Buf.len] at hd; omega
      have hdl : d ≤ b.readable.length := by rw [hl]; simpa [Buf.len] using hd
      simp only [hd, if_true]
      rw [hmin] at hr hfree hv hcm ⊢
      simp only [Sat_RE, hv, obs_rd, obs_ri, obs_wi, obs_mem, Obs.free, Buf.free, hcm, hr, Nat.sub_self, List.replicate_zero, List.append_nil,
        List.length_take, Nat.min_eq_left hdl, hd, hfree, decide_true, Bool.true_and, Bool.and_true, beq_self_eq_true]
    · have hmin : min d (b.wi - b.ri) = b.wi - b.ri := by simp only [Buf.len] at hd; omega
      have hlt : b.len < d := by omega
      have hdrop : b.readable.drop (b.wi - b.ri) = [] := List.drop_eq_nil_of_le (by rw [hl]; exact Nat.le_refl _)
      have htk : b.readable.take (b.wi - b.ri) = b.readable := List.take_of_length_le (by rw [hl]; exact Nat.le_refl _)
      simp only [hd, if_false]
      rw [hmin] at hr hfree hv hcm ⊢
      rw [hdrop] at hr
      have hdlen : (b.readable.take (b.wi - b.ri) ++ List.replicate (d - (b.wi - b.ri)) DEST_FILL).length = d := by
        simp only [List.length_append, List.length_take, List.length_replicate, hl, Nat.min_self]
        simp only [Buf.len] at hlt; omega
      simp only [Sat_RE, hv, obs_rd, obs_ri, obs_wi, obs_mem, Obs.free, Buf.free, hcm, hr, hdlen, hlt, hfree, decide_true, Bool.true_and,
        Bool.and_true, beq_self_eq_true, List.length_nil, Nat.sub_zero, Buf.len, htk]
      have hwl := h.2.1
      simp only [Buf.len] at hlt
      simp [List.take_append_of_le_length, hl, hlt]
      omega

/-- the default `read_to_end` satisfies its predicate in every state -/
theorem stepRTE_sat (oc : Bool) (b : Buf) (h : b.WInv) :
    Sat_RTE b (stepRTE oc b).2.bytes (stepRTE oc b).2 (stepRTE oc b).1.obs = true := by
  have hl := Buf.readable_length b h
  unfold stepRTE
  rw [step_readAll oc b h]
  have hw := consume_WInv b (b.wi - b.ri) h (Nat.le_refl _)
  have hr := consume_readable b (b.wi - b.ri) h (Nat.le_refl _)
  have hcm := consume_mem b (b.wi - b.ri)
  have hv := validObs_of_WInv b _ hw (by rw [hcm])
  have hdrop : b.readable.drop (b.wi - b.ri) = [] := List.drop_eq_nil_of_le (by rw [hl]; exact Nat.le_refl _)
  rw [hdrop] at hr
  have hwi : (b.consume (b.wi - b.ri)).wi = 0 := by
    obtain ⟨w1, _, _⟩ := h
    unfold Buf.consume
    have : b.ri + (b.wi - b.ri) = b.wi := by omega
    simp [this]
  simp [Sat_RTE, hv, obs_rd, obs_wi, obs_mem, Obs.free, Buf.len, hr, hcm, hwi]

end FBV.C01

/-
  C10 — `deframe()` consumes exactly one frame and returns where its payload lives.
  For every weakly well-formed state (any read offset, frame ending exactly at the end of the unread
  bytes included) and every deframer the harness uses — each honours the bounds clause
  (`dfOf_bounds`, which for the provided deframers is C05) — and, in `deframe_general`, for ANY
  deframer function whose answer on the unread bytes is within bounds.
-/
import FBV.Lemmas.StepReads
namespace FBV.C10
open FBV

theorem sameAll_self (b : Buf) : sameAll b b.obs = true := by simp [sameAll]

theorem step_sat (oc : Bool) (b : Buf) (op : Op) (h : b.WInv) :
    Sat_C10 b op (step oc b op).2 (step oc b op).1.obs = true := by
  cases op with
  | deframe f =>
    have hl := Buf.readable_length b h
    rw [step_deframe oc f b h]
    by_cases he : b.wi = b.ri
    · have : b.readable = [] := List.eq_nil_of_length_eq_zero (by omega)
      simp [Sat_C10, he, this, sameAll_self]
    · have hne : b.readable.isEmpty = false := by
        cases hr : b.readable with
        | nil => rw [hr] at hl; simp at hl; have := h.1; omega
        | cons _ _ => rfl
      simp only [he, if_false, Sat_C10, hne]
      cases hf : dfOf f b.readable with
      | error u => simp [sameAll_self]
      | ok r =>
        cases r with
        | none => simp [sameAll_self]
        | some t =>
          obtain ⟨s, e, n⟩ := t
          have hb := dfOf_bounds f _ s e n hf
          have hn : n ≤ b.wi - b.ri := by rw [← hl]; exact hb.2.2.2
          obtain ⟨h1, h2, h3⟩ := h
          simp only [consume_mem, obs_mem, obs_rd, consume_readable b n ⟨h1, h2, h3⟩ hn]
          simp only [beq_self_eq_true, Bool.true_and, Bool.and_true]
          have := slice_of_window b.mem b.ri b.wi s e (by have := hb.2.1; omega)
          simpa [Buf.readable] using this
  | _ => simp [Sat_C10]

/-- the general statement, for an arbitrary deframer function `f` that honours the bounds clause on the
    unread bytes: nothing changes unless `f` reports a frame; then exactly the block is consumed, `mem`
    is untouched, and the returned range indexes the payload `f` selected -/
theorem deframe_general (oc : Bool) (f : Deframer) (b : Buf) (h : b.WInv)
    (hb : ∀ s e n, f b.readable = .ok (some (s, e, n)) → s ≤ e ∧ e ≤ n ∧ n ≤ b.readable.length) :
    match f b.readable with
    | .ok (some (s, e, n)) =>
      b.readable ≠ [] →
        (deframeM oc f b).2 = .ok (.ok (some (b.ri + s, b.ri + e, n))) ∧
        (deframeM oc f b).1.mem = b.mem ∧
        (deframeM oc f b).1.readable = b.readable.drop n ∧
        (b.mem.take (b.ri + e)).drop (b.ri + s) = (b.readable.take e).drop s
    | _ => (deframeM oc f b).1 = b := by
  have hl := Buf.readable_length b h
  rw [deframeM_eq oc f b h hb]
  cases hf : f b.readable with
  | error u => by_cases he : b.wi = b.ri <;> simp [he]
  | ok r =>
    cases r with
    | none => by_cases he : b.wi = b.ri <;> simp [he]
    | some t =>
      obtain ⟨s, e, n⟩ := t
      simp only
      intro hne
      have he : ¬ b.wi = b.ri := by
        intro hc
        apply hne
        exact List.eq_nil_of_length_eq_zero (by omega)
      obtain ⟨hse, hen, hnl⟩ := hb s e n hf
      have hn : n ≤ b.wi - b.ri := by omega
      simp only [he, if_false]
      refine ⟨trivial, consume_mem b n, consume_readable b n h hn, ?_⟩
      have h1 := h.1
      exact (slice_of_window b.mem b.ri b.wi s e (by omega)).symm

/-! ### non-vacuity: frame ending exactly at the end of the unread bytes at a non-zero read offset (rewind) -/
example : ({ mem := [120, 97, 98, 10], ri := 1, wi := 4 } : Buf).WInv := by decide
example : dfOf .line [97, 98, 10] = .ok (some (0, 2, 3)) := by simp [dfOf, deframeLine, lineFrom, LF, CR]

end FBV.C10

/-
  C19 — escape_ascii is a faithful, printable, compositional rendering of bytes.
  Facts about single bytes are proved by kernel evaluation over all 256 values
  (`decide +kernel` over `n < 256`, lifted to `UInt8`): that is a proof over the whole finite
  domain, not a sample.  Everything about strings is by induction.
-/
import FBV.Model.Escape
namespace FBV.C19
open FBV

theorem lift256 (P : Byte → Prop) (h : ∀ n, n < 256 → P (UInt8.ofNat n)) (b : Byte) : P b := by
  have := h b.toNat (UInt8.toNat_lt b)
  simpa using this

theorem esc_printable_nat : ∀ n, n < 256 → ∀ c ∈ esc (UInt8.ofNat n), 32 ≤ c ∧ c ≤ 126 := by decide +kernel
/-- every output byte is printable ASCII -/
theorem esc_printable (b : Byte) : ∀ c ∈ esc b, 32 ≤ c ∧ c ≤ 126 :=
  lift256 (fun b => ∀ c ∈ esc b, 32 ≤ c ∧ c ≤ 126) esc_printable_nat b

theorem escape_printable (bs : List Byte) : ∀ c ∈ escape bs, 32 ≤ c ∧ c ≤ 126 := by
  intro c hc
  simp only [escape, List.mem_flatMap] at hc
  obtain ⟨b, _, hb⟩ := hc
  exact esc_printable b c hb

theorem esc_identity_nat : ∀ n, n < 256 →
    (32 ≤ UInt8.ofNat n ∧ UInt8.ofNat n ≤ 126 ∧ UInt8.ofNat n ≠ 92 ∧ UInt8.ofNat n ≠ 39 ∧ UInt8.ofNat n ≠ 34) →
    esc (UInt8.ofNat n) = [UInt8.ofNat n] := by decide +kernel
/-- printable bytes other than backslash and the two quotes appear unchanged -/
theorem esc_identity (b : Byte) (h : 32 ≤ b ∧ b ≤ 126 ∧ b ≠ 92 ∧ b ≠ 39 ∧ b ≠ 34) : esc b = [b] :=
  lift256 (fun b => (32 ≤ b ∧ b ≤ 126 ∧ b ≠ 92 ∧ b ≠ 39 ∧ b ≠ 34) → esc b = [b]) esc_identity_nat b h

/-- compositional -/
theorem escape_append (a b : List Byte) : escape (a ++ b) = escape a ++ escape b := by
  simp [escape]

theorem esc_ascii_nat : ∀ n, n < 256 → (esc (UInt8.ofNat n)).all (· < 128) = true := by decide +kernel
theorem esc_ascii (b : Byte) : (esc b).all (· < 128) = true :=
  lift256 (fun b => (esc b).all (· < 128) = true) esc_ascii_nat b

/-- the Rust loop never panics (the `unwrap` cannot fail) and computes `escape` -/
theorem escapeM_eq (bs : List Byte) : escapeM bs = .ok (escape bs) := by
  induction bs with
  | nil => rfl
  | cons b rest ih => simp [escapeM, esc_ascii b, ih, escape]

theorem decode1_esc_nat : ∀ n, n < 256 → ∀ m, m < 1 → decode1 (esc (UInt8.ofNat n)) = some (UInt8.ofNat n, []) := by
  decide +kernel
theorem decode1_esc (b : Byte) : decode1 (esc b) = some (b, []) :=
  lift256 (fun b => decode1 (esc b) = some (b, [])) (fun n hn => decode1_esc_nat n hn 0 (by decide)) b

theorem decodeEsc_append (d : Byte) (xs ys : List Byte) (b : Byte) (r : List Byte)
    (h : decodeEsc d xs = some (b, r)) : decodeEsc d (xs ++ ys) = some (b, r ++ ys) := by
  unfold decodeEsc at h ⊢
  by_cases h120 : d = 120
  · simp only [h120, if_true] at h ⊢
    match xs, h with
    | hh :: l :: rest3, h =>
      simp only [List.cons_append]
      cases ha : hexVal hh <;> cases hb : hexVal l <;> simp_all
  · simp only [h120, if_false] at h ⊢
    cases hs : simpleEsc d with
    | none => simp [hs] at h
    | some x => simp [hs] at h ⊢; obtain ⟨rfl, rfl⟩ := h; exact ⟨rfl, rfl⟩

theorem decode1_append (xs ys : List Byte) (b : Byte) (r : List Byte)
    (h : decode1 xs = some (b, r)) : decode1 (xs ++ ys) = some (b, r ++ ys) := by
  cases xs with
  | nil => simp [decode1] at h
  | cons c rest =>
    simp only [decode1, List.cons_append] at h ⊢
    by_cases hc : c = 92
    · simp only [hc, if_true] at h ⊢
      cases rest with
      | nil => simp at h
      | cons d rest2 => exact decodeEsc_append d rest2 ys b r h
    · simp only [hc, if_false] at h ⊢
      simp at h; obtain ⟨rfl, rfl⟩ := h; rfl

theorem esc_ne_nil_nat : ∀ n, n < 256 → esc (UInt8.ofNat n) ≠ [] := by decide +kernel
theorem esc_ne_nil (b : Byte) : esc b ≠ [] := lift256 (fun b => esc b ≠ []) esc_ne_nil_nat b

/-- the bytes can be recovered -/
theorem unescape_escape (bs : List Byte) : ∀ fuel, bs.length ≤ fuel → unescape fuel (escape bs) = some bs := by
  induction bs with
  | nil => intro fuel _; cases fuel <;> simp [unescape, escape]
  | cons b rest ih =>
    intro fuel hf
    cases fuel with
    | zero => simp at hf
    | succ fuel =>
      have he : escape (b :: rest) = esc b ++ escape rest := by simp [escape]
      have hne : esc b ++ escape rest ≠ [] := by
        intro hc; exact esc_ne_nil b (List.append_eq_nil_iff.mp hc).1
      have hd := decode1_append (esc b) (escape rest) b [] (decode1_esc b)
      simp only [List.nil_append] at hd
      rw [he]
      simp only [unescape, hne, if_false, hd, ih fuel (by simpa using hf), Option.map_some]

/-- distinct inputs give distinct outputs -/
theorem escape_injective (a b : List Byte) (h : escape a = escape b) : a = b := by
  have ha := unescape_escape a (max a.length b.length) (Nat.le_max_left _ _)
  have hb := unescape_escape b (max a.length b.length) (Nat.le_max_right _ _)
  rw [h, hb] at ha
  exact (Option.some.inj ha).symm

/-- the method form and the Debug rendering are, by construction, functions of `readable()`,
    `SIZE`, `writable().len()` and `len()` only -/
theorem method_eq (b : Buf) : b.escapeAscii = escape b.readable := rfl
theorem debug_contains (b : Buf) : ∃ pre mid1 mid2 post,
    b.debug = pre ++ natBytes b.mem.length ++ mid1 ++ natBytes (b.mem.length - b.wi) ++ mid2 ++
      natBytes (b.wi - b.ri) ++ post ∧ ∃ p2 s2, b.debug = p2 ++ escape b.readable ++ s2 :=
  ⟨strBytes "FixedBuf<", strBytes ">{", strBytes " writable, ",
   strBytes " readable: \"" ++ b.escapeAscii ++ strBytes "\"}", by simp [Buf.debug, List.append_assoc],
   _, strBytes "\"}", rfl⟩

/-! non-vacuity -/
example : escape [97, 13, 10, 0xe2, 34] = [97, 92, 114, 92, 110, 92, 120, 101, 50, 92, 34] := by decide
example : unescape 5 (escape [97, 13, 10, 0xe2, 34]) = some [97, 13, 10, 0xe2, 34] := by decide

end FBV.C19

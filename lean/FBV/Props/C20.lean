/-
  C20 — no unsafe code anywhere, and no dependencies beyond std (plus tokio).
  A property of program text: the tables in FBV/Gen/SourceFacts.lean are regenerated from /repo's
  current sources by tools/extract.py on every run, and these theorems are re-checked over them.
-/
import FBV.Gen.SourceFacts
namespace FBV.C20
open FBV

/-- no `unsafe` keyword and no `no_mangle` / `export_name` / `link_section` attribute in any source file of either crate -/
theorem no_unsafe_tokens : Gen.unsafeSites = [] := by decide

/-- fixed-buffer has no non-dev dependencies -/
theorem fixed_buffer_has_no_deps : Gen.depsFixedBuffer = [] := by decide

/-- fixed-buffer-tokio's non-dev dependencies are within {fixed-buffer (1), tokio (2)} -/
theorem tokio_deps_allowed : ∀ d ∈ Gen.depsTokio, d = 1 ∨ d = 2 := by decide

end FBV.C20

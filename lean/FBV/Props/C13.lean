/-
  C13 — adapters pass writes through untouched and keep reads and writes independent
  (blocking adapters here; the tokio adapters are in the async section below once built).
  The statements are definitional unfoldings of the pass-through methods — said plainly; the
  correspondence run (every interleaving of reads/writes/flushes against a logging inner
  read-writer) carries the weight for this property.
-/
import FBV.Model.Adapters
import FBV.Model.Async
namespace FBV.C13
open FBV

def isWriteCall : Call → Bool
  | .write _ _ _ | .flush _ _ => true
  | .read _ _ _ => false

theorem srw_write_facts (s : SRW) (b : List Byte) :
    (s.write b).2.2 = .write s.id b (s.write b).2.1 ∧ (s.write b).1.data = s.data ∧ (s.write b).1.racts = s.racts ∧
    (s.write b).1.id = s.id := by
  simp only [SRW.write]
  cases hw : s.wacts with
  | nil => simp
  | cons a rest => cases a <;> simp

theorem srw_flush_facts (s : SRW) :
    (s.flush).2.2 = .flush s.id (s.flush).2.1 ∧ (s.flush).1.data = s.data ∧ (s.flush).1.racts = s.racts ∧
    (s.flush).1.wacts = s.wacts := by
  simp only [SRW.flush]
  cases hf : s.facts with
  | nil => simp
  | cons a rest => cases a <;> simp

/-- chain: a write issues exactly one inner `write` with identical bytes, returns its result unchanged,
    and touches neither `first` nor the read side -/
theorem chain_write (x : ChainS) (b : List Byte) :
    (x.step (.write b)).2 = .write (x.c.second.write b).2.1 ∧
    (x.step (.write b)).1.log = x.log ++ [.write x.c.second.id b (x.c.second.write b).2.1] ∧
    (x.step (.write b)).1.c.first = x.c.first ∧
    (x.step (.write b)).1.c.second.data = x.c.second.data ∧ (x.step (.write b)).1.c.second.racts = x.c.second.racts := by
  obtain ⟨h1, h2, h3, _⟩ := srw_write_facts x.c.second b
  simp [ChainS.step, h1, h2, h3]

theorem chain_flush (x : ChainS) :
    (x.step .flush).2 = .flush (x.c.second.flush).2.1 ∧
    (x.step .flush).1.log = x.log ++ [.flush x.c.second.id (x.c.second.flush).2.1] ∧
    (x.step .flush).1.c.first = x.c.first ∧
    (x.step .flush).1.c.second.data = x.c.second.data ∧ (x.step .flush).1.c.second.racts = x.c.second.racts := by
  obtain ⟨h1, h2, h3, _⟩ := srw_flush_facts x.c.second
  simp [ChainS.step, h1, h2, h3]

/-- take: a write forwards exactly once, result unchanged, read allowance untouched -/
theorem take_write (oc : Bool) (x : TakeS) (b : List Byte) :
    (x.step oc (.write b)).2 = .write (x.t.inner.write b).2.1 ∧
    (x.step oc (.write b)).1.log = x.log ++ [.write x.t.inner.id b (x.t.inner.write b).2.1] ∧
    (x.step oc (.write b)).1.t.remaining = x.t.remaining ∧
    (x.step oc (.write b)).1.t.inner.data = x.t.inner.data ∧ (x.step oc (.write b)).1.t.inner.racts = x.t.inner.racts := by
  obtain ⟨h1, h2, h3, _⟩ := srw_write_facts x.t.inner b
  simp [TakeS.step, h1, h2, h3]

theorem take_flush (oc : Bool) (x : TakeS) :
    (x.step oc .flush).2 = .flush (x.t.inner.flush).2.1 ∧
    (x.step oc .flush).1.log = x.log ++ [.flush x.t.inner.id (x.t.inner.flush).2.1] ∧
    (x.step oc .flush).1.t.remaining = x.t.remaining := by
  obtain ⟨h1, _, _, _⟩ := srw_flush_facts x.t.inner
  simp [TakeS.step, h1]

/-- reads never cause or alter a write: a read step appends only `read` calls to the inner log and leaves the
    write script and everything written so far untouched -/
theorem chain_read_no_write (x : ChainS) (n : Nat) :
    (∀ c ∈ ((x.step (.read n)).1.log.drop x.log.length), isWriteCall c = false) ∧
    (x.step (.read n)).1.c.second.wacts = x.c.second.wacts ∧ (x.step (.read n)).1.c.second.written = x.c.second.written := by
  have hr : ∀ (s : SRW) (d : List Byte), isWriteCall (s.read d).2.2.2 = false ∧ (s.read d).1.wacts = s.wacts ∧
      (s.read d).1.written = s.written := by
    intro s d
    simp only [SRW.read]
    cases hra : s.racts with
    | nil => simp [isWriteCall]
    | cons a rest => cases a <;> simp [isWriteCall]
  simp only [ChainS.step]
  cases hf : x.c.first with
  | none =>
    have := hr x.c.second (List.replicate n DEST_INIT)
    simp [this]
  | some s1 =>
    have h1 := hr s1 (List.replicate n DEST_INIT)
    rcases hs : s1.read (List.replicate n DEST_INIT) with ⟨s1', res, d', c1⟩
    rw [hs] at h1
    cases res with
    | error e => simp [hs, h1.1]
    | ok m =>
      cases m with
      | zero =>
        by_cases hn : n = 0
        · subst hn; simp at hs; simp [hs, h1.1]
        · have h2 := hr x.c.second d'
          simp [hs, hn, h1.1, h2]
      | succ k => simp [hs, h1.1]

theorem take_read_no_write (oc : Bool) (x : TakeS) (n : Nat) :
    (∀ c ∈ ((x.step oc (.read n)).1.log.drop x.log.length), isWriteCall c = false) ∧
    (x.step oc (.read n)).1.t.inner.wacts = x.t.inner.wacts ∧ (x.step oc (.read n)).1.t.inner.written = x.t.inner.written := by
  have hr : ∀ (s : SRW) (d : List Byte), isWriteCall (s.read d).2.2.2 = false ∧ (s.read d).1.wacts = s.wacts ∧
      (s.read d).1.written = s.written := by
    intro s d
    simp only [SRW.read]
    cases hra : s.racts with
    | nil => simp [isWriteCall]
    | cons a rest => cases a <;> simp [isWriteCall]
  simp only [TakeS.step]
  by_cases h0 : x.t.remaining = 0
  · simp [h0]
  · simp only [h0, if_false]
    have h1 := hr x.t.inner ((List.replicate n DEST_INIT).take (min x.t.remaining n))
    rcases hs : x.t.inner.read ((List.replicate n DEST_INIT).take (min x.t.remaining n)) with ⟨s', res, d', c⟩
    rw [hs] at h1
    cases res with
    | error e => simp at h1; simp [hs, h1]
    | ok m =>
      simp at h1
      cases hsub : usizeSub oc x.t.remaining m with
      | ok r => simp [hs, hsub, h1]
      | panic => simp [hs, hsub, h1]

/-! ### tokio adapters -/

theorem asrw_pollWrite_facts (s : ASRW) (b : List Byte) :
    (s.pollWrite b).1.data = s.data ∧ (s.pollWrite b).1.racts = s.racts ∧ (s.pollWrite b).1.facts = s.facts ∧
    ∃ txt, (s.pollWrite b).1.log = s.log ++ [txt] := by
  simp only [ASRW.pollWrite]
  cases hw : s.wacts with
  | nil => simp
  | cons a rest => cases a <;> simp

theorem asrw_pollFlush_facts (s : ASRW) (tag : String) :
    (s.pollFlush tag).1.data = s.data ∧ (s.pollFlush tag).1.racts = s.racts ∧ (s.pollFlush tag).1.wacts = s.wacts ∧
    ∃ txt, (s.pollFlush tag).1.log = s.log ++ [txt] := by
  simp only [ASRW.pollFlush]
  cases hf : s.facts with
  | nil => simp
  | cons a rest => cases a <;> simp

/-- async chain: `poll_write` / `poll_flush` / `poll_shutdown` issue exactly one inner poll, return its result (count, error
    or Pending) unchanged, and never touch `first` or the read side of the wrapped stream -/
theorem achain_write {σ₁ : Type} (c : AChain σ₁ ASRW) (b : List Byte) :
    (c.pollWrite b).2 = (c.second.pollWrite b).2 ∧ (c.pollWrite b).1.first = c.first ∧
    (c.pollWrite b).1.second.data = c.second.data ∧ (c.pollWrite b).1.second.racts = c.second.racts ∧
    ∃ txt, (c.pollWrite b).1.second.log = c.second.log ++ [txt] := by
  obtain ⟨h1, h2, _, h4⟩ := asrw_pollWrite_facts c.second b
  exact ⟨rfl, rfl, h1, h2, h4⟩

theorem achain_flush {σ₁ : Type} (c : AChain σ₁ ASRW) (tag : String) :
    (c.pollFlush tag).2 = (c.second.pollFlush tag).2 ∧ (c.pollFlush tag).1.first = c.first ∧
    (c.pollFlush tag).1.second.data = c.second.data ∧ (c.pollFlush tag).1.second.racts = c.second.racts ∧
    ∃ txt, (c.pollFlush tag).1.second.log = c.second.log ++ [txt] := by
  obtain ⟨h1, h2, _, h4⟩ := asrw_pollFlush_facts c.second tag
  exact ⟨rfl, rfl, h1, h2, h4⟩

/-- async take: the same, and the read allowance is untouched (also across a Pending write) -/
theorem atake_write (t : ATake ASRW) (b : List Byte) :
    (t.pollWrite b).2 = (t.inner.pollWrite b).2 ∧ (t.pollWrite b).1.remaining = t.remaining ∧
    (t.pollWrite b).1.inner.data = t.inner.data ∧ (t.pollWrite b).1.inner.racts = t.inner.racts ∧
    ∃ txt, (t.pollWrite b).1.inner.log = t.inner.log ++ [txt] := by
  obtain ⟨h1, h2, _, h4⟩ := asrw_pollWrite_facts t.inner b
  exact ⟨rfl, rfl, h1, h2, h4⟩

theorem atake_flush (t : ATake ASRW) (tag : String) :
    (t.pollFlush tag).2 = (t.inner.pollFlush tag).2 ∧ (t.pollFlush tag).1.remaining = t.remaining ∧
    ∃ txt, (t.pollFlush tag).1.inner.log = t.inner.log ++ [txt] := by
  obtain ⟨_, _, _, h4⟩ := asrw_pollFlush_facts t.inner tag
  exact ⟨rfl, rfl, h4⟩

/-- reads never alter the write side: a scripted stream's `poll_read` leaves its write / flush scripts untouched -/
theorem asrw_pollRead_no_write (s : ASRW) (rb : ReadBuf) :
    (s.pollRead rb).1.wacts = s.wacts ∧ (s.pollRead rb).1.facts = s.facts := by
  simp only [ASRW.pollRead]
  cases hr : s.racts with
  | nil => simp
  | cons a rest => cases a <;> simp

end FBV.C13

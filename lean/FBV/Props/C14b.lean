/-
  C14 / C15 / C12 for `copy_once_from` at the abstract level: the async method under any placement of Pending and any
  pattern of cancellation gives what the blocking method gives on the same chunk, polls the reader exactly once per
  poll (never when the buffer has no free space at its end), reports Pending only if the reader did, and loses or
  duplicates nothing.  (`cofPoll` with a script without `pending` IS the blocking method; the concrete one-step
  statement over `Buf` is `C12.copy_once_from_spec`.)
-/
import FBV.Props.C14
import FBV.Props.C12
namespace FBV.C14
open FBV

def isPendingAct : Act → Bool
  | .pending => true
  | _ => false

/-- a completely full tail: InvalidData, the reader is not touched -/
theorem cof_full (b : AB) (r : ARd) (h : b.free = 0) : cofPoll b r = (b, r, .invalid) := by
  simp [cofPoll, h]

/-- room at the end: exactly one reader call, offered exactly the free space -/
theorem cof_calls_once (b : AB) (r : ARd) (h : b.free ≠ 0) :
    (cofPoll b r).2.1.log = r.log ++ [b.free] ∧ (cofPoll b r).2.2 ≠ .invalid := by
  simp only [cofPoll, h, if_false]
  unfold ARd.read
  cases hr : r.acts with
  | nil => simp
  | cons a as => cases a <;> simp

/-- `Ok(n)`: exactly the next `n ≤ free` bytes of the stream were appended, nothing else changed -/
theorem cof_ok (b : AB) (r : ARd) (n : Nat) (h : (cofPoll b r).2.2 = .ok n) :
    (cofPoll b r).1 = b.append (r.rem.take n) ∧ (cofPoll b r).2.1.rem = r.rem.drop n ∧ n ≤ b.free ∧ n ≤ r.rem.length := by
  by_cases h0 : b.free = 0
  · simp [cofPoll, h0] at h
  · have hp := ard_read_parts r b.free
    simp only [cofPoll, h0, if_false] at h ⊢
    rcases hrd : r.read b.free with ⟨resp, r'⟩
    rw [hrd] at h hp
    cases resp with
    | pending => simp at h
    | err e => simp at h
    | data c =>
      simp only at hp h
      obtain ⟨h1, h2, _, _⟩ := hp
      have hn : c.length = n := by simpa using h
      subst hn
      have hc : r.rem.take c.length = c := by rw [← h1]; simp
      have hd : r.rem.drop c.length = r'.rem := by rw [← h1]; simp
      refine ⟨by rw [hc], hd.symm, h2, ?_⟩
      rw [← h1]; simp

/-- anything but `Ok(n)` — InvalidData, a reader error, Pending — leaves buffer and stream exactly as they were -/
theorem cof_not_ok (b : AB) (r : ARd) (h : ∀ n, (cofPoll b r).2.2 ≠ .ok n) :
    (cofPoll b r).1 = b ∧ (cofPoll b r).2.1.rem = r.rem := by
  by_cases h0 : b.free = 0
  · simp [cofPoll, h0]
  · have hp := ard_read_parts r b.free
    simp only [cofPoll, h0, if_false] at h ⊢
    rcases hrd : r.read b.free with ⟨resp, r'⟩
    rw [hrd] at h hp
    cases resp with
    | pending => exact ⟨rfl, hp.1⟩
    | err e => exact ⟨rfl, hp.1⟩
    | data c => exact absurd rfl (h c.length)

/-- Pending only if the reader reported Pending in this very poll (so the waker is registered) -/
theorem cof_pending_only_if_reader (b : AB) (r : ARd) (h : (cofPoll b r).2.2 = .pending) :
    ∃ rest, r.acts = .pending :: rest ∧ (cofPoll b r).2.1.acts = rest ∧ b.free ≠ 0 := by
  by_cases h0 : b.free = 0
  · simp [cofPoll, h0] at h
  · have hp := ard_read_parts r b.free
    simp only [cofPoll, h0, if_false] at h ⊢
    rcases hrd : r.read b.free with ⟨resp, r'⟩
    rw [hrd] at h hp
    cases resp with
    | pending => exact ⟨r'.acts, hp.2, rfl, h0⟩
    | err e => simp at h
    | data c => simp at h

/-- nothing is ever lost or duplicated, whatever the poll returns -/
theorem cof_conserves (b : AB) (r : ARd) (hb : b.Inv) :
    (cofPoll b r).1.q ++ (cofPoll b r).2.1.rem = b.q ++ r.rem ∧ (cofPoll b r).1.Inv ∧ (cofPoll b r).1.size = b.size := by
  cases hres : (cofPoll b r).2.2 with
  | ok n =>
    obtain ⟨h1, h2, h3, h4⟩ := cof_ok b r n hres
    rw [h1, h2]
    refine ⟨by simp [AB.append], ?_, rfl⟩
    simp only [AB.Inv, AB.append, AB.free, List.length_append, List.length_take] at *
    omega
  | invalid => obtain ⟨h1, h2⟩ := cof_not_ok b r (by simp [hres]); rw [h1, h2]; exact ⟨rfl, hb, rfl⟩
  | ioErr k => obtain ⟨h1, h2⟩ := cof_not_ok b r (by simp [hres]); rw [h1, h2]; exact ⟨rfl, hb, rfl⟩
  | pending => obtain ⟨h1, h2⟩ := cof_not_ok b r (by simp [hres]); rw [h1, h2]; exact ⟨rfl, hb, rfl⟩

/-- **C14 + C15 for `copy_once_from`**: with ANY number of Pending answers before the reader's real answer — each a
    point where the caller may resume the future or drop it and call again, which is the same function — the
    conversation ends with exactly what the call returns when those Pendings are deleted from the script (the
    blocking call on the same chunk): same result, same buffer, same undelivered stream -/
theorem cof_drive_eq_blocking :
    ∀ (n : Nat) (b : AB) (r : ARd), (r.acts.takeWhile isPendingAct).length < n →
      (cofDrive n b r).1 = (cofPoll b { r with acts := r.acts.dropWhile isPendingAct }).1 ∧
      (cofDrive n b r).2.2 = (cofPoll b { r with acts := r.acts.dropWhile isPendingAct }).2.2 ∧
      (cofDrive n b r).2.1.rem = (cofPoll b { r with acts := r.acts.dropWhile isPendingAct }).2.1.rem := by
  intro n
  induction n with
  | zero => intro b r h; omega
  | succ n ih =>
    intro b r h
    by_cases h0 : b.free = 0
    · simp [cofDrive, cofPoll, h0]
    · cases hacts : r.acts with
      | nil =>
        simp [cofDrive, cofPoll, h0, ARd.read, hacts]
      | cons a as =>
        cases a with
        | pending =>
          have hstep : cofPoll b r = (b, { r with acts := as, log := r.log ++ [b.free] }, .pending) := by
            simp [cofPoll, h0, ARd.read, hacts]
          simp only [cofDrive, hstep]
          have := ih b { r with acts := as, log := r.log ++ [b.free] } (by
            simp only [hacts, List.takeWhile_cons, isPendingAct, if_true, List.length_cons] at h; simpa using Nat.lt_of_succ_lt_succ h)
          simp only [List.dropWhile_cons, isPendingAct, if_true]
          -- the log differs (one more entry) but is not observed by buffer, result or remaining stream
          have hlog : ∀ (l : List Nat), (cofPoll b { rem := r.rem, acts := as.dropWhile isPendingAct, log := l }).1 =
              (cofPoll b { rem := r.rem, acts := as.dropWhile isPendingAct, log := r.log }).1 ∧
              (cofPoll b { rem := r.rem, acts := as.dropWhile isPendingAct, log := l }).2.2 =
              (cofPoll b { rem := r.rem, acts := as.dropWhile isPendingAct, log := r.log }).2.2 ∧
              (cofPoll b { rem := r.rem, acts := as.dropWhile isPendingAct, log := l }).2.1.rem =
              (cofPoll b { rem := r.rem, acts := as.dropWhile isPendingAct, log := r.log }).2.1.rem := by
            intro l
            simp only [cofPoll, h0, if_false, ARd.read]
            cases hd : as.dropWhile isPendingAct with
            | nil => exact ⟨rfl, rfl, rfl⟩
            | cons a2 as2 => cases a2 <;> exact ⟨rfl, rfl, rfl⟩
          obtain ⟨e1, e2, e3⟩ := hlog (r.log ++ [b.free])
          obtain ⟨i1, i2, i3⟩ := this
          exact ⟨i1.trans e1, i2.trans e2, i3.trans e3⟩
        | chunk k =>
          simp [cofDrive, cofPoll, h0, ARd.read, hacts, isPendingAct]
        | err e =>
          simp [cofDrive, cofPoll, h0, ARd.read, hacts, isPendingAct]

/-! ### the concrete `copy_once_from` (over `Buf`, the model the T1 tie runs) refines `cofPoll` -/

theorem abs_free (b : Buf) (h : b.WInv) : b.abs.free = b.mem.length - b.wi := by
  have hl := Buf.readable_length b h
  obtain ⟨h1, h2, _⟩ := h
  simp only [Buf.abs, AB.free, hl]; omega

/-- a reader that delivers (at most) `bytes`: the concrete call's abstraction is the abstract poll's result — same
    count, same error, same unread bytes, same capacity and read offset — in both overflow-check settings -/
theorem cof_refines (oc : Bool) (b : Buf) (h : b.WInv) (bytes : List Byte) (scr : Bool) :
    (step oc b (.copyOnce (.data bytes scr))).1.abs = (cofPoll b.abs ⟨bytes, [], []⟩).1 ∧
    (match (cofPoll b.abs ⟨bytes, [], []⟩).2.2 with
     | .ok n => (step oc b (.copyOnce (.data bytes scr))).2.cls = .ok ∧ (step oc b (.copyOnce (.data bytes scr))).2.nums = [n]
     | .invalid => (step oc b (.copyOnce (.data bytes scr))).2.cls = .err EK_InvalidData
     | _ => False) := by
  have hfree := abs_free b h
  have hspec := C12.copy_once_from_spec oc b (.data bytes scr) h
  by_cases h0 : b.mem.length - b.wi = 0
  · have hs := hspec.1 h0
    rw [hs]
    simp [cofPoll, hfree, h0]
  · obtain ⟨hout, hrd⟩ := hspec.2 h0
    rw [step_copyOnce oc b _ h] at hout hrd ⊢
    simp only [h0, if_false] at hout hrd ⊢
    have hcl := cofDest_length b bytes scr h
    have hml := put_mem_length b (cofDest b bytes scr) h (by omega)
    have hc : cofPoll b.abs ⟨bytes, [], []⟩ =
        (b.abs.append (bytes.take (b.mem.length - b.wi)), ⟨bytes.drop (b.mem.length - b.wi), [], [b.mem.length - b.wi]⟩,
          .ok (min (b.mem.length - b.wi) bytes.length)) := by
      simp [cofPoll, hfree, h0, ARd.read]
    rw [hc]
    refine ⟨?_, by simp [Nat.min_comm]⟩
    have hri : ((b.put (cofDest b bytes scr)).commit (min bytes.length (b.mem.length - b.wi))).ri = b.ri := rfl
    have hmem : ((b.put (cofDest b bytes scr)).commit (min bytes.length (b.mem.length - b.wi))).mem.length = b.mem.length := by
      simpa [Buf.commit] using hml
    show ({ size := _, ri := _, q := _ } : AB) = _
    rw [hrd, hri, hmem]
    simp [Buf.abs, AB.append, List.take_take, Nat.min_comm]

/-- non-vacuity: two Pendings, then 3 of the 4 offered bytes arrive -/
example : (cofDrive 5 ⟨8, 2, [0x61, 0x62]⟩ ⟨[1, 2, 3, 4, 5], [.pending, .pending, .chunk 2], []⟩) =
    (⟨8, 2, [0x61, 0x62, 1, 2, 3]⟩, ⟨[4, 5], [], [4, 4, 4]⟩, .ok 3) := by decide

end FBV.C14

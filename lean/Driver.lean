/-
  fbvdriver: reads the harness's trace on stdin, replays every case on the Lean
  model, evaluates the executable property statements on the implementation's
  observations, and prints verdict lines plus counters.
    usage: fbvdriver [--oc 0|1] [--max-report N]
-/
import Std.Data.HashMap
import Std.Data.HashSet
import FBV.Drv.T1
import FBV.Drv.DF
import FBV.Drv.ES
import FBV.Drv.AD
import FBV.Drv.RF
import FBV.Drv.AAD
import FBV.Drv.PL
open FBV FBV.Wire

structure Tally where
  counts : Std.HashMap String Nat := {}
  reported : Std.HashMap String Nat := {}
  seen : Std.HashSet UInt64 := {}

def Tally.bump (a : Tally) (k : String) (n : Nat := 1) : Tally :=
  { a with counts := a.counts.insert k (a.counts.getD k 0 + n) }

def splitBar (line : String) : List (List String) := (line.splitOn " | ").map words

def checkLine (oc : Bool) (line : String) : Option (List String × String) :=
  match splitBar line with
  | [("T1" :: pre), op, out, post] =>
    (FBV.DrvT1.checkT1 oc pre op out post).map fun (v, nt) => (v, if nt then "t1_nontrivial" else "t1_trivial")
  | [("DF" :: pre), post] =>
    (FBV.DrvDF.check pre post).map fun (v, nt) => (v, if nt then "df_nontrivial" else "df_trivial")
  | [("ES" :: pre), post] =>
    (FBV.DrvES.checkES pre post).map fun (v, nt) => (v, if nt then "es_nontrivial" else "es_trivial")
  | [("EB" :: pre), p1, p2] =>
    (FBV.DrvES.checkEB pre p1 p2).map fun (v, nt) => (v, if nt then "eb_nontrivial" else "eb_trivial")
  | [("CH" :: pre), impl, std, std2] =>
    (FBV.DrvAD.checkCH pre impl std std2).map fun (v, nt) => (v, if nt then "ch_nontrivial" else "ch_trivial")
  | [("TK" :: pre), impl, std, std2] =>
    (FBV.DrvAD.checkTK oc pre impl std std2).map fun (v, nt) => (v, if nt then "tk_nontrivial" else "tk_trivial")
  | [("CH" :: pre), impl, std] =>
    (FBV.DrvAD.checkCH pre impl std).map fun (v, nt) => (v, if nt then "ch_nontrivial" else "ch_trivial")
  | [("CB" :: pre), impl, std] =>
    (FBV.DrvAD.checkCB pre impl std).map fun (v, nt) => (v, if nt then "cb_nontrivial" else "cb_trivial")
  | [("TK" :: pre), impl, std] =>
    (FBV.DrvAD.checkTK oc pre impl std).map fun (v, nt) => (v, if nt then "tk_nontrivial" else "tk_trivial")
  | [("RF" :: pre), impl] =>
    (FBV.DrvRF.check oc pre impl).map fun (v, nt) => (v, if nt then "rf_nontrivial" else "rf_trivial")
  | [("ACH" :: pre), impl, tok] =>
    (FBV.DrvAAD.checkACH pre impl tok).map fun (v, nt) => (v, if nt then "ach_nontrivial" else "ach_trivial")
  | [("ACB" :: pre), impl, tok] =>
    (FBV.DrvAAD.checkACB pre impl tok).map fun (v, nt) => (v, if nt then "acb_nontrivial" else "acb_trivial")
  | [("ATK" :: pre), impl, tok] =>
    (FBV.DrvAAD.checkATK oc pre impl tok).map fun (v, nt) => (v, if nt then "atk_nontrivial" else "atk_trivial")
  | [("AP" :: pre), op, res, post] =>
    (FBV.DrvAAD.checkAP oc pre op res post).map fun (v, nt) => (v, if nt then "ap_nontrivial" else "ap_trivial")
  | [("AC" :: pre), res, left, sink] =>
    (FBV.DrvAAD.checkAC oc pre res left sink).map fun (v, nt) => (v, if nt then "ac_nontrivial" else "ac_trivial")
  | [("ARF" :: pre), impl] =>
    (FBV.DrvAAD.checkARF pre impl).map fun (v, nt) => (v, if nt then "arf_nontrivial" else "arf_trivial")
  | [("ACO" :: pre), impl] =>
    (FBV.DrvAAD.checkACO pre impl).map fun (v, nt) => (v, if nt then "aco_nontrivial" else "aco_trivial")
  | [["SZ", n, sz, al]] =>
    -- C18: a FixedBuf stores its SIZE bytes and two usize indices inline, nothing else
    match n.toNat?, sz.toNat?, al.toNat? with
    | some n, some sz, some al => some ((if sz == (n + 16 + 7) / 8 * 8 && al == 8 then [] else ["UNSAT C18"]), "sz_nontrivial")
    | _, _, _ => none
  | [["ST", sz, len, allocs]] =>
    match sz.toNat?, len.toNat?, allocs.toNat? with
    | some sz, some len, some a => some ((if sz == 32 && len == 0 && a == 0 then [] else ["UNSAT C18"]), "sz_nontrivial")
    | _, _, _ => none
  | [("PL" :: pre), impl] =>
    (FBV.DrvPL.check false pre impl).map fun (v, nt) => (v, if nt then "pl_nontrivial" else "pl_trivial")
  | [("APL" :: pre), impl] =>
    (FBV.DrvPL.check true pre impl).map fun (v, nt) => (v, if nt then "apl_nontrivial" else "apl_trivial")
  | [("EF" :: _pre), res] =>
    -- Debug formatting with every kind of format option: must not panic (C04); what it renders is not constrained
    some ((if res == ["-"] then [] else ["UNSAT C04", "UNSAT C19"]), "ef_nontrivial")
  | [("NO" :: prop :: _), res] =>
    -- scenarios too large for the list-based model (buffers beyond 64 KiB, half-gigabyte inputs): the harness knows the
    -- stream and hence the frames; only its verdict is relayed
    some ((if res == ["ok"] then [] else [s!"UNSAT {prop}"]), "no_nontrivial")
  | [("RTE" :: pre), impl, stdr] =>
    -- `read_to_end` through an adapter: call for call what std's adapter over twin readers gives (C08 / C09)
    let tag := if pre.head? == some "chain" then "C08" else "C09"
    some ((if impl == stdr then [] else ["DRIFT", s!"DIFF {tag}", s!"UNSAT {tag}"]), "rte_nontrivial")
  | [("BW" :: pre), impl] => (FBV.DrvAD.checkBW pre impl).map fun (v, _) => (v, "bw_nontrivial")
  | [("TC" :: pre), op, post] =>
    (FBV.DrvT1.checkTC pre op post).map fun (v, nt) => (v, if nt then "tc_nontrivial" else "tc_trivial")
  | [("TV" :: pre), op, out, post] =>
    (FBV.DrvT1.checkTV oc pre op out post).map fun (v, nt) => (v, if nt then "tv_nontrivial" else "tv_trivial")
  | [("T0" :: pre), post] => (FBV.DrvT1.checkT0 pre post).map fun v => (v, "t0")
  | _ => none


partial def loop (oc : Bool) (maxRep : Nat) (h : IO.FS.Stream) (a : Tally) : IO Tally := do
  let line ← h.getLine
  if line.isEmpty then return a
  let line := line.trimAscii.toString
  if line.isEmpty then loop oc maxRep h a else
  match checkLine oc line with
  | none =>
    IO.println s!"BADLINE {line}"
    loop oc maxRep h (a.bump "badline" |>.bump "lines")
  | some (vs, kind) =>
    let mut a := a.bump "lines" |>.bump kind
    if kind.endsWith "_nontrivial" then
      let key := match line.splitOn " | " with
        | p :: o :: _ :: _ => p ++ "|" ++ o
        | p :: _ => p
        | [] => line
      a := { a with seen := a.seen.insert (hash key) }
    for v in vs do
      a := a.bump v
      let r := a.reported.getD v 0
      if r < maxRep then
        IO.println s!"{v} :: {line}"
        a := { a with reported := a.reported.insert v (r + 1) }
    loop oc maxRep h a

def argOf (args : List String) (name : String) (dflt : String) : String :=
  match args.dropWhile (· ≠ name) with
  | _ :: v :: _ => v
  | _ => dflt

def main (args : List String) : IO Unit := do
  let oc := argOf args "--oc" "1" == "1"
  let maxRep := (argOf args "--max-report" "5").toNat?.getD 5
  let a ← loop oc maxRep (← IO.getStdin) {}
  let kv := a.counts.toList.map fun (k, v) => s!"{k.replace " " "_"}={v}"
  IO.println s!"COUNT {" ".intercalate kv} distinct_nontrivial={a.seen.size}"

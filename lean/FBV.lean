import FBV.Model.Prim
import FBV.Model.Buf
import FBV.Model.Deframe
import FBV.Model.Step

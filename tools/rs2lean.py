#!/usr/bin/env python3
"""
rs2lean.py — translator from a small, first-order subset of Rust to Lean 4 (target combinators: lean/FBV/Model/RsSem.lean).

Used for the provided deframers (fixed-buffer/src/deframe_{line,crlf,null}.rs): on EVERY run of check C05 the three
functions are re-translated from /repo's working tree into lean/FBV/Gen/Deframers.lean and FBV/Props/C05gen.lean
re-proves, for all inputs and both overflow-check settings, that the translated function never panics and equals
the hand-written model the C05 theorems are about.

Subset: `let` (immutable), `for x in a..b { … }`, `if`/`else` (statement and expression), early `return`,
slice indexing, `.len()`, `.is_empty()`, usize `+`/`-` (checked per profile), comparisons, `&&`/`||`/`!` (short-circuit),
byte / integer literals, and results of the shape Ok(None) | Ok(Some((a..b, n))) | Err(..).
Anything else raises Unsupported: the caller then records that the translation tie is unavailable for that function
(the correspondence run remains), it never guesses.

usage: rs2lean.py --gen           write lean/FBV/Gen/Deframers.lean, print a JSON status line
       rs2lean.py --show FILE FN  print the translation of one function
"""
import sys, os, re, json

REPO = os.environ.get("FBV_REPO", "/repo")
OUT = os.path.join(os.path.dirname(os.path.abspath(__file__)), "..", "lean", "FBV", "Gen", "Deframers.lean")
TARGETS = [("fixed-buffer/src/deframe_line.rs", "deframe_line"),
           ("fixed-buffer/src/deframe_crlf.rs", "deframe_crlf"),
           ("fixed-buffer/src/deframe_null.rs", "deframe_null")]
LEAN_KEYWORDS = {"end", "at", "from", "fun", "open", "show", "have", "this", "do", "then", "else", "if", "let", "in", "with",
                 "match", "def", "theorem", "by", "where", "namespace", "section", "variable", "instance", "structure",
                 "class", "inductive", "import", "export", "universe", "mutual", "macro", "syntax", "notation", "set_option",
                 "deriving", "extends", "for", "return", "try", "catch", "finally", "unless", "true", "false", "oc", "data_",
                 "Type", "Prop", "Sort", "forall", "exists", "calc", "nomatch", "nofun", "termination_by", "decreasing_by",
                 "private", "protected", "partial", "unsafe", "noncomputable", "abbrev", "example", "axiom", "opaque", "attribute"}


class Unsupported(Exception):
    pass


# ---------------------------------------------------------------- lexer
def lex(src):
    toks, i, n = [], 0, len(src)
    while i < n:
        c = src[i]
        if c.isspace():
            i += 1
        elif src.startswith("//", i):
            while i < n and src[i] != "\n":
                i += 1
        elif src.startswith("/*", i):
            depth, i = 1, i + 2
            while i < n and depth:
                if src.startswith("/*", i):
                    depth, i = depth + 1, i + 2
                elif src.startswith("*/", i):
                    depth, i = depth - 1, i + 2
                else:
                    i += 1
        elif src.startswith("b'", i):
            m = re.match(r"b'(\\x[0-9a-fA-F]{2}|\\.|[^\\'])'", src[i:])
            if not m:
                raise Unsupported("byte literal at %d" % i)
            toks.append(("byte", byte_value(m.group(1))))
            i += len(m.group(0))
        elif c == '"' or src.startswith('b"', i):
            j = i + (2 if c == "b" else 1)
            while j < n and src[j] != '"':
                j += 2 if src[j] == "\\" else 1
            toks.append(("str", src[i:j + 1]))
            i = j + 1
        elif c == "'":
            m = re.match(r"'(\\.[^']*|[^\\'])'", src[i:])
            if m:
                toks.append(("char", m.group(0)))
                i += len(m.group(0))
            else:
                m = re.match(r"'[A-Za-z_][A-Za-z0-9_]*", src[i:])
                toks.append(("lifetime", m.group(0)))
                i += len(m.group(0))
        elif c.isalpha() or c == "_":
            m = re.match(r"[A-Za-z_][A-Za-z0-9_]*", src[i:])
            toks.append(("id", m.group(0)))
            i += len(m.group(0))
        elif c.isdigit():
            m = re.match(r"(0x[0-9a-fA-F_]+|[0-9][0-9_]*)(usize|u8|u64|u32|u16|i32|i64|isize)?", src[i:])
            txt = m.group(1).replace("_", "")
            toks.append(("num", (int(txt, 16) if txt.startswith("0x") else int(txt), m.group(2))))
            i += len(m.group(0))
        else:
            for p in ("..=", "...", "::", "->", "=>", "==", "!=", "<=", ">=", "&&", "||", "..", "+=", "-=", "<<", ">>"):
                if src.startswith(p, i):
                    toks.append(("p", p))
                    i += len(p)
                    break
            else:
                toks.append(("p", c))
                i += 1
    return toks


def byte_value(s):
    if s[0] != "\\":
        return ord(s)
    e = s[1]
    if e == "x":
        return int(s[2:4], 16)
    table = {"n": 10, "r": 13, "t": 9, "0": 0, "\\": 92, "'": 39, '"': 34}
    if e not in table:
        raise Unsupported("escape \\%s" % e)
    return table[e]


# ---------------------------------------------------------------- parser (AST = nested tuples)
class P:
    def __init__(self, toks):
        self.t, self.i = toks, 0

    def peek(self, k=0):
        return self.t[self.i + k] if self.i + k < len(self.t) else ("eof", None)

    def at(self, *ps):
        return self.peek() in [("p", p) for p in ps]

    def at_id(self, name):
        return self.peek() == ("id", name)

    def next(self):
        tok = self.peek()
        self.i += 1
        return tok

    def expect(self, p):
        if self.peek() != ("p", p):
            raise Unsupported("expected %r, found %r" % (p, self.peek()))
        self.i += 1

    def expect_id(self, name=None):
        k, v = self.next()
        if k != "id" or (name is not None and v != name):
            raise Unsupported("expected identifier %s, found %r" % (name or "", (k, v)))
        return v

    # block := '{' stmt* [expr] '}'   ->  ('block', [stmts], tail-or-None)
    def block(self):
        self.expect("{")
        stmts, tail = [], None
        while not self.at("}"):
            if tail is not None:
                # an expression followed by more items: only `if`/`for` may stand without `;`
                if tail[0] in ("if", "for"):
                    stmts.append(tail)
                    tail = None
                else:
                    raise Unsupported("expression statement %r" % (tail[0],))
            if self.at_id("let"):
                self.next()
                if self.at_id("mut"):
                    raise Unsupported("let mut")
                name = self.expect_id()
                if self.at(":"):
                    self.next()
                    self.skip_type()
                self.expect("=")
                e = self.expr()
                self.expect(";")
                stmts.append(("let", name, e))
            elif self.at_id("return"):
                self.next()
                e = self.expr()
                if self.at(";"):
                    self.next()
                stmts.append(("return", e))
            elif self.at_id("for"):
                self.next()
                var = self.expect_id()
                self.expect_id("in")
                lo = self.additive(no_struct=True)
                self.expect("..")
                hi = self.additive(no_struct=True)
                body = self.block()
                tail = ("for", var, lo, hi, body)
            else:
                e = self.expr()
                if self.at(";"):
                    self.next()
                    if e[0] in ("if", "for"):
                        stmts.append(e)
                    else:
                        raise Unsupported("expression statement %r" % (e[0],))
                else:
                    tail = e
        self.expect("}")
        return ("block", stmts, tail)

    def skip_type(self):
        depth = 0
        while True:
            k, v = self.peek()
            if k == "eof":
                raise Unsupported("type")
            if (k, v) in (("p", "<"), ("p", "("), ("p", "[")):
                depth += 1
            elif (k, v) in (("p", ">"), ("p", ")"), ("p", "]")):
                if depth == 0:
                    return
                depth -= 1
            elif depth == 0 and (k, v) in (("p", "="), ("p", ","), ("p", "{"), ("p", ";")):
                return
            self.i += 1

    def expr(self):
        return self.or_()

    def or_(self):
        a = self.and_()
        while self.at("||"):
            self.next()
            a = ("or", a, self.and_())
        return a

    def and_(self):
        a = self.cmp()
        while self.at("&&"):
            self.next()
            a = ("and", a, self.cmp())
        return a

    def cmp(self):
        a = self.additive()
        if self.at("==", "!=", "<", ">", "<=", ">="):
            op = self.next()[1]
            b = self.additive()
            return ("cmp", op, a, b)
        return a

    def additive(self, no_struct=False):
        a = self.unary()
        while self.at("+", "-"):
            op = self.next()[1]
            a = ("arith", op, a, self.unary())
        if self.at("*", "/", "%", "<<", ">>", "&", "|", "^") and not self.at("&&", "||"):
            raise Unsupported("operator %r" % (self.peek()[1],))
        return a

    def unary(self):
        if self.at("!"):
            self.next()
            return ("not", self.unary())
        if self.at("-", "*", "&"):
            raise Unsupported("unary %r" % (self.peek()[1],))
        return self.postfix()

    def postfix(self):
        e = self.primary()
        while True:
            if self.at("["):
                self.next()
                i = self.expr()
                if self.at(".."):
                    raise Unsupported("sub-slicing")
                self.expect("]")
                e = ("index", e, i)
            elif self.at(".") :
                self.next()
                m = self.expect_id()
                self.expect("(")
                if not self.at(")"):
                    raise Unsupported("method %s with arguments" % m)
                self.expect(")")
                if m not in ("len", "is_empty"):
                    raise Unsupported("method .%s()" % m)
                e = ("method", m, e)
            elif self.at("?"):
                raise Unsupported("? operator")
            elif self.at_id("as"):
                raise Unsupported("cast")
            else:
                return e

    def primary(self):
        k, v = self.peek()
        if k == "num":
            self.next()
            return ("int", v[0])
        if k == "byte":
            self.next()
            return ("byte", v)
        if k == "p" and v == "(":
            self.next()
            items = []
            trailing = False
            while not self.at(")"):
                e = self.expr()
                if self.at(".."):
                    self.next()
                    e = ("range", e, self.expr())
                items.append(e)
                trailing = False
                if self.at(","):
                    self.next()
                    trailing = True
            self.expect(")")
            if len(items) == 1 and not trailing:
                return items[0]
            return ("tuple", items)
        if k == "id":
            if v == "if":
                self.next()
                c = self.expr_no_struct()
                t = self.block()
                e = None
                if self.at_id("else"):
                    self.next()
                    if self.at_id("if"):
                        inner = self.primary()
                        e = ("block", [], inner)
                    else:
                        e = self.block()
                return ("if", c, t, e)
            if v in ("true", "false"):
                self.next()
                return ("bool", v == "true")
            if v in ("match", "while", "loop", "unsafe", "move", "break", "continue"):
                raise Unsupported(v)
            # path
            path = [self.expect_id()]
            while self.at("::"):
                self.next()
                path.append(self.expect_id())
            name = "::".join(path)
            if self.at("("):
                self.next()
                args = []
                while not self.at(")"):
                    e = self.expr()
                    if self.at(".."):
                        self.next()
                        e = ("range", e, self.expr())
                    args.append(e)
                    if self.at(","):
                        self.next()
                self.expect(")")
                last = path[-1]
                if last == "Ok" and len(args) == 1:
                    return ("ok", args[0])
                if last == "Some" and len(args) == 1:
                    return ("some", args[0])
                if last == "Err" and len(args) == 1:
                    return ("err",)
                if name in ("MalformedInputError::new",):
                    return ("errval",)
                raise Unsupported("call of %s" % name)
            if self.at("!"):
                raise Unsupported("macro %s!" % name)
            if name == "None" or path[-1] == "None":
                return ("none",)
            if len(path) > 1:
                raise Unsupported("path %s" % name)
            return ("var", name)
        if k == "str":
            return self.str_lit()
        raise Unsupported("token %r" % ((k, v),))

    def str_lit(self):
        self.next()
        return ("strlit",)

    def expr_no_struct(self):
        return self.expr()


def find_fn(toks, name):
    for i in range(len(toks) - 1):
        if toks[i] == ("id", "fn") and toks[i + 1] == ("id", name):
            return i
    raise Unsupported("fn %s not found" % name)


def parse_fn(src, name):
    toks = lex(src)
    i = find_fn(toks, name)
    p = P(toks)
    p.i = i + 2
    p.expect("(")
    params = []
    while not p.at(")"):
        pname = p.expect_id()
        p.expect(":")
        ty = []
        depth = 0
        while True:
            k, v = p.peek()
            if depth == 0 and (k, v) in (("p", ","), ("p", ")")):
                break
            if (k, v) in (("p", "["), ("p", "("), ("p", "<")):
                depth += 1
            if (k, v) in (("p", "]"), ("p", ")"), ("p", ">")):
                depth -= 1
            ty.append(v if not isinstance(v, tuple) else str(v[0]))
            p.i += 1
        params.append((pname, "".join(str(x) for x in ty)))
        if p.at(","):
            p.next()
    p.expect(")")
    while not p.at("{"):
        if p.peek()[0] == "eof":
            raise Unsupported("no body")
        p.i += 1
    body = p.block()
    if params != [(params[0][0], "&[u8]")] if params else True:
        raise Unsupported("parameters %r (expected one `&[u8]`)" % (params,))
    return params[0][0], body


# ---------------------------------------------------------------- translation
class T:
    def __init__(self, data):
        self.data = data
        self.k = 0

    def fresh(self):
        self.k += 1
        return "t%d" % self.k

    @staticmethod
    def name(x):
        return "«%s»" % x if (x in LEAN_KEYWORDS or re.fullmatch(r"t[0-9]+", x)) else x

    # expression -> (lean term, pure?)    pure: a plain value;  otherwise: `Outcome _`
    def e(self, x):
        k = x[0]
        if k == "int":
            return str(x[1]), True
        if k == "byte":
            return "(%d : Byte)" % x[1], True
        if k == "bool":
            return ("true" if x[1] else "false"), True
        if k == "var":
            return self.name(x[1]), True
        if k == "method":
            if x[2] != ("var", self.data):
                raise Unsupported("method on something other than the parameter")
            return ("%s.length" % self.name(self.data) if x[1] == "len" else "%s.isEmpty" % self.name(self.data)), True
        if k == "index":
            if x[1] != ("var", self.data):
                raise Unsupported("indexing something other than the parameter")
            return self.with_val(x[2], lambda i: "Rs.idx %s %s" % (self.name(self.data), self.atom(i))), False
        if k == "arith":
            f = "usizeAdd" if x[1] == "+" else "usizeSub"
            return self.with_val(x[2], lambda a: self.with_val(x[3], lambda b: "%s oc %s %s" % (f, self.atom(a), self.atom(b)))), False
        if k == "cmp":
            op, a, b = x[1], x[2], x[3]
            def mk(u, v):
                if op in ("==", "!="):
                    return "(%s %s %s)" % (u, op, v)
                return "decide (%s %s %s)" % (u, {"<": "<", ">": ">", "<=": "≤", ">=": "≥"}[op], v)
            ta, pa = self.e(a)
            tb, pb = self.e(b)
            if pa and pb:
                return mk(ta, tb), True
            return self.bindv(ta, pa, lambda u: self.bindv(tb, pb, lambda v: ".ok %s" % self.atom(mk(u, v)))), False
        if k in ("and", "or"):
            ta, pa = self.e(x[1])
            tb, pb = self.e(x[2])
            if pa and pb:
                return "(%s %s %s)" % (ta, "&&" if k == "and" else "||", tb), True
            return "Rs.%s %s %s" % ("andM" if k == "and" else "orM", self.m(ta, pa), self.m(tb, pb)), False
        if k == "not":
            ta, pa = self.e(x[1])
            if pa:
                return "(!%s)" % ta, True
            return self.bindv(ta, pa, lambda u: ".ok (!%s)" % u), False
        if k == "if":
            if x[3] is None:
                raise Unsupported("if without else used as a value")
            tc, pc = self.e(x[1])
            tt, pt = self.block_value(x[2])
            te, pe = self.block_value(x[3])
            if pc and pt and pe:
                return "(if %s then %s else %s)" % (tc, tt, te), True
            return "Rs.iteM %s %s %s" % (self.m(tc, pc), self.m(tt, pt), self.m(te, pe)), False
        raise Unsupported("expression %s" % k)

    @staticmethod
    def atom(t):
        t = t.strip()
        if re.fullmatch(r"[A-Za-z0-9_«».]+", t) or (t.startswith("(") and t.endswith(")") and T.balanced(t[1:-1])):
            return t
        return "(%s)" % t

    @staticmethod
    def balanced(s):
        d = 0
        for c in s:
            if c == "(":
                d += 1
            elif c == ")":
                d -= 1
                if d < 0:
                    return False
        return d == 0

    def m(self, t, pure):
        return self.atom(".ok %s" % self.atom(t)) if pure else self.atom(t)

    def bindv(self, t, pure, k):
        if pure:
            return k(t)
        v = self.fresh()
        return "Rs.bind %s (fun %s => %s)" % (self.atom(t), v, k(v))

    def with_val(self, x, k):
        t, pure = self.e(x)
        return self.bindv(t, pure, k)

    # a block used as a value (arms of an `if` expression): no statements other than `let`
    def block_value(self, b):
        _, stmts, tail = b
        if tail is None:
            raise Unsupported("block without value")
        if not stmts:
            return self.e(tail)
        for s in stmts:
            if s[0] != "let":
                raise Unsupported("statement inside a value block")
        def go(i):
            if i == len(stmts):
                t, p = self.e(tail)
                return self.m(t, p)
            _, n, ex = stmts[i]
            t, p = self.e(ex)
            if p:
                return "(let %s := %s; %s)" % (self.name(n), t, go(i + 1))
            return "Rs.bind %s (fun %s => %s)" % (self.atom(t), self.name(n), go(i + 1))
        return go(0), False

    # the function's result value: Ok(None) | Ok(Some((a..b, n))) | Err(_)   -> Outcome DfRet
    def ret(self, x):
        if x == ("ok", ("none",)):
            return ".ok (Except.ok none)"
        if x[0] == "err":
            return ".ok (Except.error ())"
        if x[0] == "ok" and x[1][0] == "some" and x[1][1][0] == "tuple" and len(x[1][1][1]) == 2 and x[1][1][1][0][0] == "range":
            rng, ln = x[1][1][1]
            return self.with_val(rng[1], lambda s: self.with_val(rng[2], lambda e_: self.with_val(ln, lambda l:
                   ".ok (Except.ok (some (%s, %s, %s)))" % (s, e_, l))))
        if x[0] == "if" and x[3] is not None:
            tc, pc = self.e(x[1])
            return "Rs.iteM %s %s %s" % (self.m(tc, pc), self.atom(self.fn_block(x[2])), self.atom(self.fn_block(x[3])))
        raise Unsupported("result expression of shape %s" % (x[0],))

    # statements -> Flow DfRet
    def stmts(self, items, i=0):
        if i == len(items):
            return ".ok none"
        s = items[i]
        k = s[0]
        if k == "let":
            t, p = self.e(s[2])
            rest = self.stmts(items, i + 1)
            if p:
                return "(let %s := %s; %s)" % (self.name(s[1]), t, rest)
            return "Rs.bind %s (fun %s => %s)" % (self.atom(t), self.name(s[1]), rest)
        if k == "return":
            return "Rs.bind %s (fun r => .ok (some r))" % self.atom(self.ret(s[1]))
        if k == "for":
            lo, plo = self.e(s[2])
            hi, phi = self.e(s[3])
            body = self.flow_block(s[4])
            loop = self.bindv(lo, plo, lambda a: self.bindv(hi, phi, lambda b:
                   "Rs.forFirst %s %s (fun %s => %s)" % (self.atom(a), self.atom(b), self.name(s[1]), body)))
            return self.seq(loop, items, i)
        if k == "if":
            tc, pc = self.e(s[1])
            tt = self.flow_block(s[2])
            te = self.flow_block(s[3]) if s[3] is not None else ".ok none"
            st = "Rs.iteM %s %s %s" % (self.m(tc, pc), self.atom(tt), self.atom(te))
            return self.seq(st, items, i)
        raise Unsupported("statement %s" % k)

    def seq(self, first, items, i):
        if i + 1 == len(items):
            return first
        return "Rs.seq %s %s" % (self.atom(first), self.atom(self.stmts(items, i + 1)))

    # a block in statement position (unit value): its tail, if any, must be an `if`/`for` statement
    def flow_block(self, b):
        _, st, tail = b
        items = list(st)
        if tail is not None:
            if tail[0] in ("if", "for"):
                items.append(tail)
            else:
                raise Unsupported("value in statement position")
        return self.stmts(items)

    # a block producing the function's result
    def fn_block(self, b):
        _, st, tail = b
        if tail is None:
            # every path must `return`
            return "Rs.fnBody %s .panic" % self.atom(self.stmts(list(st)))
        if not st:
            return self.ret(tail)
        return "Rs.fnBody %s %s" % (self.atom(self.stmts(list(st))), self.atom(self.ret(tail)))


def translate(src, fn):
    data, body = parse_fn(src, fn)
    t = T(data)
    term = t.fn_block(body)
    return "def %s (oc : Bool) (%s : List Byte) : Outcome Rs.DfRet :=\n  %s\n" % (fn, T.name(data), term)


HEADER = """/- GENERATED by tools/rs2lean.py from /repo's current sources on every run of check C05 — do not edit.
   Each definition is the translation of the Rust function of the same name (see the file named above it) into the
   combinators of FBV/Model/RsSem.lean; FBV/Props/C05gen.lean proves each equal to the hand-written model. -/
import FBV.Model.RsSem
namespace FBV.GenDf
open FBV

"""


def gen():
    parts, status = [HEADER], {}
    for path, fn in TARGETS:
        try:
            src = open(os.path.join(REPO, path)).read()
            parts.append("/-- translated from %s -/\n" % path + translate(src, fn) + "\ndef %s_translated : Bool := true\n\n" % fn)
            status[fn] = "translated"
        except (Unsupported, OSError, IndexError) as ex:
            # no guess: the function is declared untranslated; C05gen's obligations about it are then reported as unavailable
            parts.append("/-- NOT translated from %s: %s -/\ndef %s (_oc : Bool) (_d : List Byte) : Outcome Rs.DfRet := .panic\n"
                         "def %s_translated : Bool := false\n\n" % (path, str(ex).replace("-/", "- /"), fn, fn))
            status[fn] = "unsupported: %s" % ex
    parts.append("end FBV.GenDf\n")
    text = "".join(parts)
    old = open(OUT).read() if os.path.exists(OUT) else None
    if old != text:
        open(OUT, "w").write(text)
    print(json.dumps(status))
    return 0


if __name__ == "__main__":
    if len(sys.argv) >= 2 and sys.argv[1] == "--gen":
        sys.exit(gen())
    if len(sys.argv) == 4 and sys.argv[1] == "--show":
        print(translate(open(sys.argv[2]).read(), sys.argv[3]))
        sys.exit(0)
    print(__doc__)
    sys.exit(2)

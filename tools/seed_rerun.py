#!/usr/bin/env python3
"""seed_rerun.py [--only sNN,...] [--checks C01,...]  — re-apply every recorded seed to /repo, re-run its checks (default: the ones
recorded in meta.json), update meta.json, and rewrite the seeds table in DESIGN.md.  Sequential; /repo must be clean."""
import sys, os, json, subprocess, glob, time

def sh(cmd, cwd=None, timeout=3600):
    r = subprocess.run(cmd, shell=True, cwd=cwd, stdout=subprocess.PIPE, stderr=subprocess.STDOUT, text=True, timeout=timeout)
    return r.returncode, r.stdout

def table():
    rows = ["| seed | targets | what it needs to manifest (from the agent's notes) | reported by | silent | before strengthening |", "|---|---|---|---|---|---|"]
    for d in sorted(glob.glob("/verif/seeded/s*")):
        m = json.load(open(os.path.join(d, "meta.json")))
        need = m.get("needs", "")
        caught = ", ".join("%s%s" % (c, "" if not r.get("nfi") else " (no-failing-input-found)") for c, r in m["checks"].items() if r["exit"] == 1)
        silent = ", ".join(c for c, r in m["checks"].items() if r["exit"] == 0)
        pre = ""
        if "pre_boost_caught_by" in m:
            pre = ("reported by " + ", ".join(m["pre_boost_caught_by"]) if m["pre_boost_caught_by"] else "MISSED by all") + (" → added: " + m["strengthened"] if m.get("strengthened") else "")
        rows.append("| %s | %s | %s | %s | %s | %s |" % (os.path.basename(d), m["property"], need.replace("|", "/"), caught or "—", silent or "—", pre))
    return "\n".join(rows)

def main():
    only = None
    if "--only" in sys.argv:
        only = sys.argv[sys.argv.index("--only") + 1].split(",")
    override = None
    if "--checks" in sys.argv:
        override = sys.argv[sys.argv.index("--checks") + 1].split(",")
    if "--table-only" not in sys.argv:
        rc, o = sh("git -C /repo status --porcelain")
        if o.strip():
            print("refusing: /repo not clean"); return 2
        for d in sorted(glob.glob("/verif/seeded/s*")):
            name = os.path.basename(d)
            if only and not any(name.startswith(x) for x in only):
                continue
            mp = os.path.join(d, "meta.json")
            m = json.load(open(mp))
            checks = override or list(m["checks"].keys())
            rc, o = sh("git -C /repo apply %s" % os.path.join(d, "patch.diff"))
            if rc != 0:
                print(name, "patch does not apply:", o[:200]); continue
            try:
                for c in checks:
                    rc, o = sh("./check %s --tier quick" % c, cwd="/verif")
                    vio = [l for l in o.splitlines() if l.startswith("VIOLATION")]
                    m["checks"][c] = {"exit": rc, "violation_lines": vio[:3], "summary": [l for l in o.splitlines() if l.startswith("[")][-1:],
                                      "nfi": bool(vio) and all("no-failing-input-found" in v for v in vio)}
            finally:
                sh("git -C /repo checkout -- . && git -C /repo clean -fdq")
            m["caught_by"] = [c for c, r in m["checks"].items() if r["exit"] == 1]
            json.dump(m, open(mp, "w"), indent=1)
            print(name, {c: r["exit"] for c, r in m["checks"].items()})
    if "--table-only" not in sys.argv:
        sh("python3 /verif/tools/extract.py --gen; python3 /verif/tools/rs2lean.py --gen; python3 /verif/tools/rs2lean_buf.py --gen")   # the generated files must reflect the clean tree again
    s = open("/verif/DESIGN.md").read()
    b, e = "<!-- SEEDS:BEGIN -->", "<!-- SEEDS:END -->"
    if b in s:
        s = s[:s.index(b) + len(b)] + "\n" + table() + "\n" + s[s.index(e):]
    else:
        s = s.replace("SEED_TABLE", b + "\n" + table() + "\n" + e)
    open("/verif/DESIGN.md", "w").write(s)
    return 0

if __name__ == "__main__":
    sys.exit(main())

#!/usr/bin/env python3
"""
rs2lean_buf.py — second translator: the index-manipulating core of `impl FixedBuf` (fixed-buffer/src/lib.rs) into the
state-and-panic monad `M` of lean/FBV/Model/Buf.lean, using the SAME checked primitives as the hand model
(`usizeAdd`/`usizeSub` per profile, `slice`, `writeAt`, `panicM`).  On every run of checks C01 / C03 / C04 the methods

    len  is_empty  clear  readable  writable  read_bytes  wrote  shift  try_read_bytes  read_all  read_byte  try_read_byte

are re-translated from /repo's working tree into lean/FBV/Gen/BufMethods.lean and FBV/Props/BufGen.lean re-proves each
translated method equal, as a function of the state, to the hand-written model method the C01/C03/C04/C10/C11 theorems are
about (for every state, every argument, both overflow-check settings).

Subset: `let`, field reads / assignments (`=`, `-=`, `+=`) of read_index / write_index, `self.mem.as_ref()/as_mut().len()`,
`&self.mem.as_ref()[a..b]`, `&mut self.mem.as_mut()[a..]`, `self.mem.as_mut().copy_within(a..b, 0)`, calls of other translated
methods on `self`, usize `+`/`-`, comparisons, `assert!`, `if` / `else`, `return`, `None` / `Some(_)`.  Anything else raises
Unsupported and the method is DECLARED untranslated (never guessed).

usage: rs2lean_buf.py --gen        write lean/FBV/Gen/BufMethods.lean, print a JSON status line
       rs2lean_buf.py --show NAME  print one translation
"""
import sys, os, re, json
sys.path.insert(0, os.path.dirname(os.path.abspath(__file__)))
from rs2lean import lex, Unsupported, LEAN_KEYWORDS

REPO = os.environ.get("FBV_REPO", "/repo")
SRC = "fixed-buffer/src/lib.rs"
OUT = os.path.join(os.path.dirname(os.path.abspath(__file__)), "..", "lean", "FBV", "Gen", "BufMethods.lean")
# method -> (Lean return type, mutating?)
TARGETS = [("len", "Nat"), ("is_empty", "Bool"), ("clear", "Unit"), ("readable", "List Byte"), ("writable", "List Byte"),
           ("read_bytes", "List Byte"), ("wrote", "Unit"), ("shift", "Unit"), ("try_read_bytes", "Option (List Byte)"),
           ("read_all", "List Byte"), ("read_byte", "Byte"), ("try_read_byte", "Option Byte")]
RET = dict(TARGETS)
FIELDS = {"read_index": "ri", "write_index": "wi"}


class P:
    def __init__(self, toks, i):
        self.t, self.i = toks, i

    def peek(self, k=0):
        return self.t[self.i + k] if self.i + k < len(self.t) else ("eof", None)

    def at(self, *ps):
        return self.peek() in [("p", p) for p in ps]

    def at_id(self, n):
        return self.peek() == ("id", n)

    def next(self):
        t = self.peek()
        self.i += 1
        return t

    def expect(self, p):
        if self.peek() != ("p", p):
            raise Unsupported("expected %r, found %r" % (p, self.peek()))
        self.i += 1

    def ident(self, name=None):
        k, v = self.next()
        if k != "id" or (name and v != name):
            raise Unsupported("expected identifier %s, found %r" % (name or "", (k, v)))
        return v

    def block(self):
        self.expect("{")
        stmts, tail = [], None
        while not self.at("}"):
            if tail is not None:
                if tail[0] == "if":
                    stmts.append(tail)
                    tail = None
                else:
                    raise Unsupported("expression statement %s" % tail[0])
            if self.at_id("let"):
                self.next()
                if self.at_id("mut"):
                    raise Unsupported("let mut")
                n = self.ident()
                if self.at(":"):
                    raise Unsupported("typed let")
                self.expect("=")
                e = self.expr()
                self.expect(";")
                stmts.append(("let", n, e))
            elif self.at_id("return"):
                self.next()
                e = None if self.at(";") else self.expr()
                self.expect(";")
                stmts.append(("return", e))
            elif self.at_id("assert"):
                self.next()
                self.expect("!")
                self.expect("(")
                c = self.expr()
                if self.at(","):
                    self.next()
                    if self.peek()[0] != "str":
                        raise Unsupported("assert! message")
                    self.next()
                    if self.at(","):
                        self.next()
                self.expect(")")
                self.expect(";")
                stmts.append(("assert", c))
            else:
                e = self.expr()
                if self.at("=", "-=", "+="):
                    op = self.next()[1]
                    if e[0] != "field":
                        raise Unsupported("assignment to %s" % e[0])
                    rhs = self.expr()
                    self.expect(";")
                    stmts.append(("assign", e[1], op, rhs))
                elif self.at(";"):
                    self.next()
                    if e[0] in ("copy_within", "if"):
                        stmts.append(e if e[0] == "if" else ("do", e))
                    elif e[0] == "call":
                        stmts.append(("do", e))
                    else:
                        raise Unsupported("expression statement %s" % e[0])
                else:
                    tail = e
        self.expect("}")
        return (stmts, tail)

    def expr(self):
        a = self.additive()
        if self.at("==", "!=", "<", ">", "<=", ">="):
            op = self.next()[1]
            return ("cmp", op, a, self.additive())
        if self.at("&&", "||"):
            raise Unsupported("&& / ||")
        return a

    def additive(self):
        a = self.unary()
        while self.at("+", "-") :
            op = self.next()[1]
            a = ("arith", op, a, self.unary())
        if self.at("*", "/", "%", "<<", ">>", "^", "|"):
            raise Unsupported("operator %s" % self.peek()[1])
        return a

    def unary(self):
        if self.at("&"):
            self.next()
            if self.at_id("mut"):
                self.next()
            return self.unary()
        if self.at("!", "-", "*"):
            raise Unsupported("unary %s" % self.peek()[1])
        return self.primary()

    def range_in(self, close):
        lo = None if self.at("..") else self.additive()
        self.expect("..")
        hi = None if self.at(close, ",") else self.additive()
        return lo, hi

    def primary(self):
        k, v = self.peek()
        if k == "num":
            self.next()
            return ("int", v[0])
        if (k, v) == ("p", "("):
            self.next()
            if self.at(")"):
                self.next()
                return ("unit",)
            e = self.expr()
            self.expect(")")
            return e
        if k != "id":
            raise Unsupported("token %r" % ((k, v),))
        if v == "if":
            self.next()
            c = self.expr()
            t = self.block()
            e = None
            if self.at_id("else"):
                self.next()
                e = self.block()
            return ("if", c, t, e)
        if v == "None":
            self.next()
            return ("none",)
        if v == "Some":
            self.next()
            self.expect("(")
            e = self.expr()
            self.expect(")")
            return ("some", e)
        if v in ("match", "while", "loop", "for", "unsafe"):
            raise Unsupported(v)
        if v == "self":
            self.next()
            self.expect(".")
            name = self.ident()
            if name in FIELDS and not self.at("("):
                return ("field", name)
            if name == "mem":
                if self.at("."):
                    self.next()
                    m = self.ident()
                    if m in ("as_ref", "as_mut"):
                        self.expect("(")
                        self.expect(")")
                    elif m == "len":
                        self.expect("(")
                        self.expect(")")
                        return ("memlen",)
                    else:
                        raise Unsupported("self.mem.%s" % m)
                if self.at("["):
                    self.next()
                    lo, hi = self.range_in("]")
                    self.expect("]")
                    return ("slice", lo, hi)
                if self.at("."):
                    self.next()
                    m = self.ident()
                    self.expect("(")
                    if m == "len":
                        self.expect(")")
                        return ("memlen",)
                    if m == "copy_within":
                        lo, hi = self.range_in(",")
                        self.expect(",")
                        d = self.expr()
                        self.expect(")")
                        if lo is None or hi is None or d != ("int", 0):
                            raise Unsupported("copy_within form")
                        return ("copy_within", lo, hi)
                    raise Unsupported("self.mem….%s" % m)
                raise Unsupported("bare self.mem")
            # method call on self
            self.expect("(")
            args = []
            while not self.at(")"):
                args.append(self.expr())
                if self.at(","):
                    self.next()
            self.expect(")")
            e = ("call", name, args)
            if self.at("["):
                self.next()
                i = self.expr()
                if self.at(".."):
                    raise Unsupported("sub-slice of a method result")
                self.expect("]")
                return ("at", e, i)
            if self.at(".", "?"):
                raise Unsupported("postfix on a method result")
            return e
        self.next()
        if self.at("(", "::", "!", ".", "["):
            raise Unsupported("use of %s" % v)
        return ("var", v)


def find_method(toks, name):
    # inside `impl<const SIZE: usize> FixedBuf<SIZE> {`: the first `fn name` after it
    start = None
    for i in range(len(toks) - 8):
        if toks[i] == ("id", "impl") and ("id", "FixedBuf") in toks[i:i + 12] and ("id", "for") not in toks[i:i + 14]:
            start = i
            break
    if start is None:
        raise Unsupported("impl FixedBuf not found")
    for i in range(start, len(toks) - 1):
        if toks[i] == ("id", "fn") and toks[i + 1] == ("id", name):
            return i
    raise Unsupported("fn %s not found" % name)


def parse_method(toks, name):
    i = find_method(toks, name)
    p = P(toks, i + 2)
    p.expect("(")
    if p.at("&"):
        p.next()
    if p.at_id("mut"):
        p.next()
    p.ident("self")
    params = []
    while p.at(","):
        p.next()
        if p.at(")"):
            break
        n = p.ident()
        p.expect(":")
        ty = p.ident()
        if ty != "usize":
            raise Unsupported("parameter type %s" % ty)
        params.append(n)
    p.expect(")")
    while not p.at("{"):
        if p.peek()[0] == "eof" or p.at(";"):
            raise Unsupported("no body")
        p.i += 1
    return params, p.block()


class T:
    def __init__(self, name, params):
        self.name, self.params, self.k = name, params, 0

    def fresh(self, pfx="t"):
        self.k += 1
        return "%s%d" % (pfx, self.k)

    @staticmethod
    def nm(x):
        return "«%s»" % x if (x in LEAN_KEYWORDS or re.fullmatch(r"[tbs][0-9]+", x)) else x

    # evaluate x, then continue with k(value term); result: a Lean term of type M _
    def ev(self, x, k):
        t = x[0]
        if t == "int":
            return k(str(x[1]))
        if t == "var":
            return k(self.nm(x[1]))
        if t == "unit":
            return k("()")
        if t == "field":
            b = self.fresh("b")
            return "(getB >>= fun %s => %s)" % (b, k("%s.%s" % (b, FIELDS[x[1]])))
        if t == "memlen":
            b = self.fresh("b")
            return "(getB >>= fun %s => %s)" % (b, k("%s.mem.length" % b))
        if t == "arith":
            f = "usizeAdd" if x[1] == "+" else "usizeSub"
            v = self.fresh()
            return self.ev(x[2], lambda a: self.ev(x[3], lambda c: "(liftO (%s oc %s %s) >>= fun %s => %s)" % (f, a, c, v, k(v))))
        if t == "call":
            if x[1] not in RET:
                raise Unsupported("call of self.%s" % x[1])
            v = self.fresh()
            def go(i, acc):
                if i == len(x[2]):
                    return "(%s oc%s >>= fun %s => %s)" % (x[1], "".join(" " + a for a in acc), v, k(v))
                return self.ev(x[2][i], lambda a: go(i + 1, acc + [a]))
            return go(0, [])
        if t == "slice":
            b, s = self.fresh("b"), self.fresh("s")
            lo = x[1] if x[1] is not None else ("int", 0)
            def with_hi(a):
                if x[2] is None:
                    return "(getB >>= fun %s => (liftO (slice %s.mem %s %s.mem.length) >>= fun %s => %s))" % (b, b, a, b, s, k(s))
                return self.ev(x[2], lambda h: "(getB >>= fun %s => (liftO (slice %s.mem %s %s) >>= fun %s => %s))" % (b, b, a, h, s, k(s)))
            return self.ev(lo, with_hi)
        if t == "at":
            v = self.fresh()
            return self.ev(x[1], lambda sl: self.ev(x[2], lambda i:
                   "((match %s[%s]? with | some x => pure x | none => panicM) >>= fun %s => %s)" % (sl, i, v, k(v))))
        if t == "none":
            return k("none")
        if t == "some":
            return self.ev(x[1], lambda a: k("(some %s)" % a))
        if t == "cmp":
            op = {"==": "==", "!=": "!=", "<": "<", ">": ">", "<=": "≤", ">=": "≥"}[x[1]]
            if x[1] in ("==", "!="):
                return self.ev(x[2], lambda a: self.ev(x[3], lambda c: k("(%s %s %s)" % (a, op, c))))
            return self.ev(x[2], lambda a: self.ev(x[3], lambda c: k("(decide (%s %s %s))" % (a, op, c))))
        if t == "if":
            if x[3] is None:
                raise Unsupported("if without else as a value")
            return self.cond(x[1], lambda p: "(if %s then %s else %s)" % (p, self.block(x[2], k), self.block(x[3], k)))
        raise Unsupported("expression %s" % t)

    # condition as a Prop
    def cond(self, c, k):
        if c[0] != "cmp":
            return self.ev(c, lambda a: k("%s = true" % a))
        op = {"==": "=", "!=": "≠", "<": "<", ">": ">", "<=": "≤", ">=": "≥"}[c[1]]
        return self.ev(c[2], lambda a: self.ev(c[3], lambda b: k("%s %s %s" % (a, op, b))))

    @staticmethod
    def returns(block):
        stmts, tail = block
        return bool(stmts) and stmts[-1][0] == "return" and tail is None

    @staticmethod
    def has_return(block):
        stmts, tail = block
        for s in stmts:
            if s[0] == "return":
                return True
            if s[0] == "if" and (T.has_return(s[2]) or (s[3] and T.has_return(s[3]))):
                return True
        return bool(tail) and tail[0] == "if" and (T.has_return(tail[2]) or (tail[3] is not None and T.has_return(tail[3])))

    # block whose value is passed to k (k = the function's return continuation at top level)
    def block(self, blk, k):
        stmts, tail = blk
        return self.stmts(stmts, 0, tail, k)

    def stmts(self, ss, i, tail, k):
        if i == len(ss):
            if tail is None:
                return k("()")
            return self.ev(tail, k)
        s = ss[i]
        rest = lambda: self.stmts(ss, i + 1, tail, k)
        t = s[0]
        if t == "let":
            return self.ev(s[2], lambda a: "(pure %s >>= fun %s => %s)" % (a, self.nm(s[1]), rest()) if not re.fullmatch(r"[A-Za-z0-9_.«»]+", a)
                           else "(let %s := %s; %s)" % (self.nm(s[1]), a, rest()))
        if t == "return":
            return self.ret(s[1])
        if t == "assert":
            return self.cond(s[1], lambda p: "(if ¬ (%s) then panicM else %s)" % (p, rest()))
        if t == "assign":
            fld = FIELDS[s[1]]
            b = self.fresh("b")
            if s[2] == "=":
                return self.ev(s[3], lambda a: "(getB >>= fun %s => (setB { %s with %s := %s } >>= fun _ => %s))" % (b, b, fld, a, rest()))
            f = "usizeSub" if s[2] == "-=" else "usizeAdd"
            v = self.fresh()
            return self.ev(s[3], lambda a: "(getB >>= fun %s => (liftO (%s oc %s.%s %s) >>= fun %s => (setB { %s with %s := %s } >>= fun _ => %s)))"
                           % (b, f, b, fld, a, v, b, fld, v, rest()))
        if t == "do":
            e = s[1]
            if e[0] == "copy_within":
                b, src = self.fresh("b"), self.fresh("s")
                return self.ev(e[1], lambda lo: self.ev(e[2], lambda hi:
                       "(getB >>= fun %s => (liftO (slice %s.mem %s %s) >>= fun %s => (setB { %s with mem := writeAt %s.mem 0 %s } >>= fun _ => %s)))"
                       % (b, b, lo, hi, src, b, b, src, rest())))
            return self.ev(e, lambda _a: rest())
        if t == "if":
            thn, els = s[2], s[3]
            if els is None and self.returns(thn):
                return self.cond(s[1], lambda p: "(if %s then %s else %s)" % (p, self.stmts(thn[0], 0, None, self.retk), rest()))
            if not self.has_return(thn) and (els is None or not self.has_return(els)):
                unit = lambda _v: "pure ()"
                e = self.block(els, unit) if els is not None else "pure ()"
                return self.cond(s[1], lambda p: "((if %s then %s else %s) >>= fun _ => %s)" % (p, self.block(thn, unit), e, rest()))
            raise Unsupported("if with a return on some paths only")
        raise Unsupported("statement %s" % t)

    def ret(self, e):
        if e is None:
            return "pure ()"
        return self.ev(e, self.retk)

    def retk(self, v):
        return "pure %s" % v

    def method(self, blk):
        ps = "".join(" (%s : Nat)" % self.nm(p) for p in self.params)
        return "def %s (oc : Bool)%s : M (%s) :=\n  %s\n" % (self.name, ps, RET[self.name], self.block(blk, self.retk))


HEADER = """/- GENERATED by tools/rs2lean_buf.py from /repo's fixed-buffer/src/lib.rs on every run of checks C01 / C03 / C04 — do not edit.
   Each definition is the translation of the `impl FixedBuf` method of the same name into the state-and-panic monad of
   FBV/Model/Buf.lean; FBV/Props/BufGen.lean proves each equal to the hand-written model method. -/
import FBV.Model.Buf
namespace FBV.GenBuf
open FBV

"""


def translate_all():
    toks = lex(open(os.path.join(REPO, SRC)).read())
    out, status = [], {}
    for name, ret in TARGETS:
        try:
            params, blk = parse_method(toks, name)
            out.append("/-- translated from `FixedBuf::%s` -/\n%s" % (name, T(name, params).method(blk)))
            status[name] = "translated"
        except (Unsupported, IndexError) as ex:
            # declared untranslated: a stub that panics, with the model's signature (arity from the model)
            ar = {"read_bytes": 1, "wrote": 1, "try_read_bytes": 1}.get(name, 0)
            ps = "".join(" (_a%d : Nat)" % j for j in range(ar))
            out.append("/-- NOT translated (`FixedBuf::%s`): %s -/\ndef %s (_oc : Bool)%s : M (%s) := panicM\n" % (name, str(ex).replace("-/", "- /"), name, ps, ret))
            status[name] = "unsupported: %s" % ex
    return out, status


def gen():
    try:
        parts, status = translate_all()
    except OSError as ex:
        print(json.dumps({"error": str(ex)}))
        return 1
    text = HEADER + "\n".join(parts) + "\nend FBV.GenBuf\n"
    old = open(OUT).read() if os.path.exists(OUT) else None
    if old != text:
        open(OUT, "w").write(text)
    print(json.dumps(status))
    return 0


if __name__ == "__main__":
    if len(sys.argv) >= 2 and sys.argv[1] == "--gen":
        sys.exit(gen())
    if len(sys.argv) == 3 and sys.argv[1] == "--show":
        parts, status = translate_all()
        for p in parts:
            if ("def %s " % sys.argv[2]) in p:
                print(p)
        print(status.get(sys.argv[2]))
        sys.exit(0)
    print(__doc__)
    sys.exit(2)

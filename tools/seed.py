#!/usr/bin/env python3
"""
seed.py <seed-id> <worktree> <property> <demo-file-relative-to-worktree> [--release-demo] [--checks C01,C03,...]

Confirms a seeded change produced by a sub-agent and records it under /verif/seeded/<seed-id>/:
  1. in the scratch worktree: the existing suite passes WITH the change (demo moved aside),
     the demo FAILS with the change and PASSES without it;
  2. applies patch.diff to /repo, runs the listed checks (default: the property's own), reverts /repo;
  3. writes patch.diff, the demo, meta.json (what it breaks, what it needs, what was run, which checks caught it).
"""
import sys, os, subprocess, json, shutil, time

def sh(cmd, cwd=None, timeout=3600):
    r = subprocess.run(cmd, shell=True, cwd=cwd, stdout=subprocess.PIPE, stderr=subprocess.STDOUT, text=True, timeout=timeout,
                       env=dict(os.environ, CARGO_NET_OFFLINE="true"))
    return r.returncode, r.stdout

def main():
    sid, wt, prop, demo = sys.argv[1:5]
    release = "--release-demo" in sys.argv
    checks = [prop]
    if "--checks" in sys.argv:
        checks = sys.argv[sys.argv.index("--checks") + 1].split(",")
    out = os.path.join("/verif/seeded", sid)
    os.makedirs(out, exist_ok=True)
    meta = {"seed": sid, "property": prop, "ran": []}
    demo_path = os.path.join(wt, demo)
    crate = demo.split("/")[0]
    demo_name = os.path.splitext(os.path.basename(demo))[0]
    rel = " --release" if release else ""
    # source-only patch
    rc, diff = sh("git diff -- fixed-buffer/src fixed-buffer-tokio/src fixed-buffer/Cargo.toml fixed-buffer-tokio/Cargo.toml", cwd=wt)
    open(os.path.join(out, "patch.diff"), "w").write(diff)
    shutil.copy(demo_path, os.path.join(out, os.path.basename(demo)))
    if os.path.exists(os.path.join(wt, "notes.md")):
        shutil.copy(os.path.join(wt, "notes.md"), os.path.join(out, "agent_notes.md"))
    # 1a. suite passes with change (demo aside)
    aside = "/tmp/%s_demo_aside.rs" % sid
    shutil.move(demo_path, aside)
    rc, o = sh("cargo test --workspace --offline 2>&1 | grep -E '^test result|^error' | head -20", cwd=wt)
    suite_ok = ("FAILED" not in o) and ("error" not in o) and o.count("test result: ok") >= 6
    meta["ran"].append({"cmd": "cargo test --workspace --offline (with change, demo aside)", "ok": suite_ok, "tail": o[-600:]})
    shutil.move(aside, demo_path)
    # 1b. demo fails with change
    rc1, o1 = sh("cargo test --offline%s -p %s --test %s 2>&1 | tail -5" % (rel, crate, demo_name), cwd=wt)
    fails_with = "test result: FAILED" in o1 or "error: test failed" in o1
    meta["ran"].append({"cmd": "demo with change", "fails": fails_with, "tail": o1[-400:]})
    # 1c. demo passes without change
    # (no `git stash`: the stash is shared by all worktrees of a repository)
    sh("git checkout -- fixed-buffer/src fixed-buffer-tokio/src fixed-buffer/Cargo.toml fixed-buffer-tokio/Cargo.toml", cwd=wt)
    rc2, o2 = sh("cargo test --offline%s -p %s --test %s 2>&1 | tail -5" % (rel, crate, demo_name), cwd=wt)
    passes_without = "test result: ok" in o2
    sh("git apply %s" % os.path.join(out, "patch.diff"), cwd=wt)
    meta["ran"].append({"cmd": "demo without change", "passes": passes_without, "tail": o2[-400:]})
    meta["confirmed"] = bool(suite_ok and fails_with and passes_without)
    # 2. run the checks against /repo with the patch applied
    rc, o = sh("git -C /repo status --porcelain")
    if o.strip():
        print("refusing: /repo is not clean:", o)
        return 2
    rc, o = sh("git -C /repo apply %s" % os.path.join(out, "patch.diff"))
    if rc != 0:
        print("patch does not apply to /repo:", o)
        return 2
    results = {}
    try:
        for c in checks:
            t = time.time()
            rc, o = sh("./check %s --tier quick" % c, cwd="/verif", timeout=3600)
            vio = [l for l in o.splitlines() if l.startswith("VIOLATION")]
            results[c] = {"exit": rc, "violation_lines": vio[:3], "summary": [l for l in o.splitlines() if l.startswith("[")][-1:], "s": round(time.time() - t, 1)}
            # keep the first replay as an example
            if vio and "replay=" in vio[0]:
                rp = vio[0].split("replay=")[1].split()[0]
                if os.path.exists(rp):
                    shutil.copy(rp, os.path.join(out, "replay_%s.json" % c))
    finally:
        sh("git -C /repo checkout -- .")
        sh("python3 /verif/tools/extract.py --gen; python3 /verif/tools/rs2lean.py --gen; python3 /verif/tools/rs2lean_buf.py --gen")   # the generated files must reflect the clean tree again
    meta["checks"] = results
    meta["caught_by"] = [c for c, r in results.items() if r["exit"] == 1]
    json.dump(meta, open(os.path.join(out, "meta.json"), "w"), indent=1)
    print(json.dumps({"confirmed": meta["confirmed"], "caught_by": meta["caught_by"], "results": {c: (r["exit"], r["summary"]) for c, r in results.items()}}, indent=1))
    return 0

if __name__ == "__main__":
    sys.exit(main())

#!/usr/bin/env python3
"""benign_run.py [--only bNN,...] [--checks C01,...] [--table-only] — the false-alarm side of the validation: apply every
property-PRESERVING variant recorded under /verif/benign/ to /repo, confirm the pinned test suite passes with it, run the
quick checks (default: all 20), revert, record the outcome in benign/<id>/result.json and rewrite the table in DESIGN.md.
A check that exits non-zero on one of these is a false alarm (`no-failing-input-found` reports are listed separately: they
are permitted by the interface, but every one of them is a cost).  Sequential; /repo must be clean."""
import sys, os, json, subprocess, glob

ALL = ["C%02d" % i for i in range(1, 21)]

def sh(cmd, cwd=None, timeout=7200):
    r = subprocess.run(cmd, shell=True, cwd=cwd, stdout=subprocess.PIPE, stderr=subprocess.STDOUT, text=True, timeout=timeout)
    return r.returncode, r.stdout

def table():
    rows = ["| variant | what it changes | suite | checks that stay silent | `no-failing-input-found` reports | false UNSAT alarms |", "|---|---|---|---|---|---|"]
    for d in sorted(glob.glob("/verif/benign/b*")):
        rp = os.path.join(d, "result.json")
        if not os.path.exists(rp):
            continue
        m = json.load(open(rp))
        desc = open(os.path.join(d, "README.md")).read().strip().replace("(written by an independent sub-agent) ", "(sub-agent) ")
        desc = desc.split(". ")[0].split("; ")[0]
        if "  " in desc:   # agent notes start with a markdown heading
            desc = desc.replace("# ", "", 1)
        desc = desc if len(desc) <= 230 else desc[:227] + "..."
        silent = [c for c, r in m["checks"].items() if r["exit"] == 0]
        nfi = [c for c, r in m["checks"].items() if r["exit"] == 1 and r["nfi"]]
        bad = [c for c, r in m["checks"].items() if r["exit"] not in (0,) and not r["nfi"]]
        rows.append("| %s | %s | %s | %d of %d | %s | %s |" % (os.path.basename(d), desc.replace("|", "/"), m["suite"], len(silent), len(m["checks"]), ", ".join(nfi) or "—", ", ".join(bad) or "—"))
    return "\n".join(rows)

def main():
    only = sys.argv[sys.argv.index("--only") + 1].split(",") if "--only" in sys.argv else None
    checks = sys.argv[sys.argv.index("--checks") + 1].split(",") if "--checks" in sys.argv else ALL
    if "--table-only" not in sys.argv:
        rc, o = sh("git -C /repo status --porcelain")
        if o.strip():
            print("refusing: /repo not clean"); return 2
        base = json.load(open("/root/.vp/BASELINE.json"))
        test_cmd = base.get("test_cmd") or base.get("command") or "cargo test --offline --workspace"
        for d in sorted(glob.glob("/verif/benign/b*")):
            name = os.path.basename(d)
            if only and not any(name.startswith(x) for x in only):
                continue
            rp = os.path.join(d, "result.json")
            m = json.load(open(rp)) if os.path.exists(rp) else {"checks": {}}
            rc, o = sh("git -C /repo apply %s" % os.path.join(d, "patch.diff"))
            if rc != 0:
                print(name, "patch does not apply:", o[:200]); continue
            try:
                if "--no-suite" not in sys.argv or "suite" not in m:
                    rc, o = sh(test_cmd, cwd="/repo")
                    m["suite"] = "passes" if rc == 0 else "FAILS"
                    m["suite_cmd"] = test_cmd
                sh("git -C /repo checkout -- Cargo.lock 2>/dev/null")
                for c in checks:
                    rc, o = sh("./check %s --tier quick" % c, cwd="/verif")
                    vio = [l for l in o.splitlines() if l.startswith("VIOLATION")]
                    m["checks"][c] = {"exit": rc, "violation_lines": vio[:3], "summary": [l for l in o.splitlines() if l.startswith("[")][-1:],
                                      "nfi": bool(vio) and all("no-failing-input-found" in v for v in vio)}
                    for v in vio[:1]:
                        rp2 = v.split("replay=")[1].split()[0]
                        if os.path.exists(rp2):
                            sh("cp %s %s" % (rp2, os.path.join(d, "replay_%s.json" % c)))
            finally:
                sh("git -C /repo checkout -- . && git -C /repo clean -fdq")
            json.dump(m, open(rp, "w"), indent=1)
            print(name, m["suite"], {c: r["exit"] for c, r in m["checks"].items() if r["exit"] != 0} or "all silent")
    if "--table-only" not in sys.argv:
        sh("python3 /verif/tools/extract.py --gen; python3 /verif/tools/rs2lean.py --gen; python3 /verif/tools/rs2lean_buf.py --gen")   # the generated files must reflect the clean tree again
    s = open("/verif/DESIGN.md").read()
    b, e = "<!-- BENIGN:BEGIN -->", "<!-- BENIGN:END -->"
    if b in s:
        s = s[:s.index(b) + len(b)] + "\n" + table() + "\n" + s[s.index(e):]
        open("/verif/DESIGN.md", "w").write(s)
    else:
        print(table())
    return 0

if __name__ == "__main__":
    sys.exit(main())

#!/usr/bin/env python3
"""
extract.py — the translator for the two properties that are about program TEXT (C18 allocation sites, C20 unsafe
tokens and dependency tables).  It lexes the Rust sources of /repo (comments, strings, raw strings, char literals
and lifetimes handled; no Rust parser needed) and regenerates lean/FBV/Gen/SourceFacts.lean, over which the theorems
of FBV/Props/C18.lean and FBV/Props/C20.lean are re-checked by the kernel on every run.

  extract.py --gen            regenerate lean/FBV/Gen/SourceFacts.lean, print a JSON summary
  extract.py --lint           run rustc with -F unsafe_code on every target of both crates, print JSON
"""
import sys, os, re, json, subprocess, glob

REPO = "/repo"
VERIF = os.path.dirname(os.path.dirname(os.path.abspath(__file__)))
GEN = os.path.join(VERIF, "lean", "FBV", "Gen", "SourceFacts.lean")
CRATES = ["fixed-buffer", "fixed-buffer-tokio"]

# C18: files anchored by the property, and the functions excepted by its statement
C18_FILES = ["fixed-buffer/src/lib.rs", "fixed-buffer/src/read_write_chain.rs", "fixed-buffer/src/read_write_take.rs",
             "fixed-buffer/src/deframe_line.rs", "fixed-buffer/src/deframe_crlf.rs", "fixed-buffer/src/deframe_null.rs",
             "fixed-buffer/src/escape_ascii.rs"]
ALLOC_TOKENS = ["Vec", "vec", "to_vec", "String", "to_string", "to_owned", "format", "Box", "collect", "with_capacity",
                "Rc", "Arc", "push", "push_str", "extend", "extend_from_slice", "into_boxed_slice", "to_string_lossy",
                "BTreeMap", "HashMap", "VecDeque", "clone_into", "repeat", "join", "concat"]
ERR_CTORS = ["Error", "MalformedInputError"]


def lex(src):
    """yield (kind, text, line) with kind in ident/punct/num/str/char/lifetime; comments dropped"""
    i, n, line = 0, len(src), 1
    out = []
    while i < n:
        c = src[i]
        if c == "\n":
            line += 1
            i += 1
        elif c.isspace():
            i += 1
        elif src.startswith("//", i):
            while i < n and src[i] != "\n":
                i += 1
        elif src.startswith("/*", i):
            depth = 1
            i += 2
            while i < n and depth:
                if src.startswith("/*", i):
                    depth += 1
                    i += 2
                elif src.startswith("*/", i):
                    depth -= 1
                    i += 2
                else:
                    if src[i] == "\n":
                        line += 1
                    i += 1
        elif c == '"' or (c in "b" and src.startswith('b"', i)):
            start_line = line
            i += 2 if c == "b" else 1
            lit0 = i
            while i < n and src[i] != '"':
                if src[i] == "\\":
                    i += 1
                if i < n and src[i] == "\n":
                    line += 1
                i += 1
            lit = src[lit0:i]
            i += 1
            out.append(("str", "", start_line, lit))
        elif re.match(r'b?r#*"', src[i:i + 12]):
            m = re.match(r'b?r(#*)"', src[i:])
            hashes = m.group(1)
            i += len(m.group(0))
            end = src.find('"' + hashes, i)
            end = n if end < 0 else end
            line += src.count("\n", i, end)
            i = end + 1 + len(hashes)
            out.append(("str", "", line))
        elif c == "'" or src.startswith("b'", i):
            j = i + (2 if c == "b" else 1)
            # char literal: 'x' or '\..'; lifetime: 'ident not followed by '
            m = re.match(r"(\\.[^']*|[^\\'])'", src[j:j + 12])
            if m:
                i = j + len(m.group(0))
                out.append(("char", "", line, m.group(1)))
            else:
                m = re.match(r"[A-Za-z_][A-Za-z0-9_]*", src[j:])
                i = j + (len(m.group(0)) if m else 0)
                out.append(("lifetime", "", line))
        elif c.isalpha() or c == "_":
            m = re.match(r"[A-Za-z_][A-Za-z0-9_]*", src[i:])
            out.append(("ident", m.group(0), line))
            i += len(m.group(0))
        elif c.isdigit():
            m = re.match(r"[0-9][A-Za-z0-9_.]*", src[i:])
            out.append(("num", m.group(0), line))
            i += len(m.group(0))
        else:
            out.append(("punct", c, line))
            i += 1
    global LAST_LITERALS
    LAST_LITERALS = [(t[0], t[3], t[2]) for t in out if len(t) == 4]
    return [t[:3] for t in out]


LAST_LITERALS = []


def unescape(lit):
    """bytes denoted by the inside of a Rust string / byte-string / char literal (best effort)"""
    out = bytearray()
    i = 0
    while i < len(lit):
        c = lit[i]
        if c != "\\":
            out += c.encode("utf-8")
            i += 1
            continue
        i += 1
        if i >= len(lit):
            break
        e = lit[i]
        i += 1
        if e == "n":
            out.append(10)
        elif e == "r":
            out.append(13)
        elif e == "t":
            out.append(9)
        elif e == "0":
            out.append(0)
        elif e in "\\'\"":
            out += e.encode()
        elif e == "x" and i + 2 <= len(lit):
            try:
                out.append(int(lit[i:i + 2], 16))
            except ValueError:
                pass
            i += 2
        elif e == "u" and i < len(lit) and lit[i] == "{":
            j = lit.find("}", i)
            try:
                out += chr(int(lit[i + 1:j].replace("_", ""), 16)).encode("utf-8")
            except ValueError:
                pass
            i = j + 1 if j > 0 else len(lit)
        elif e == "\n":
            while i < len(lit) and lit[i].isspace():
                i += 1
    return bytes(out)


def dictionary():
    """byte strings the CURRENT source mentions as literals (string / byte-string / char literals, integer literals that
       fit a byte, and comma-separated runs of those) in the library sources of both crates — fed to the generators of
       the correspondence checks as a dictionary, so that constants the code under test special-cases are exercised"""
    toks = set()
    for c in CRATES:
        for f in sorted(glob.glob(os.path.join(REPO, c, "src", "**", "*.rs"), recursive=True)):
            src = open(f, encoding="utf-8", errors="replace").read()
            lx = lex(src)
            for kind, lit, _ in LAST_LITERALS:
                b = unescape(lit)
                if 1 <= len(b) <= 16:
                    toks.add(b)
            run = []

            def flush():
                if 2 <= len(run) <= 16:
                    toks.add(bytes(run))
                run.clear()
            prev_sep = True
            for kind, text, _ in lx:
                if kind == "num":
                    t = re.sub(r"_?(u8|i8|u16|u32|u64|usize|i16|i32|i64|isize)$", "", text).replace("_", "")
                    try:
                        tl = t.lower()
                        v = int(tl, 16) if tl.startswith("0x") else (int(tl[2:], 8) if tl.startswith("0o") else (int(tl[2:], 2) if tl.startswith("0b") else int(tl)))
                    except ValueError:
                        v = None
                    if v is not None and 0 <= v <= 255:
                        toks.add(bytes([v]))
                        if not prev_sep:
                            flush()
                        run.append(v)
                    else:
                        flush()
                    prev_sep = False
                elif kind == "punct" and text == ",":
                    prev_sep = True
                elif kind == "punct" and text in "[(":
                    flush()
                    prev_sep = True
                else:
                    flush()
                    prev_sep = False
            flush()
    return sorted(toks, key=lambda b: (len(b), b))


def rust_files():
    files = []
    for c in CRATES:
        for sub in ("src", "tests", "examples", "benches"):
            files += sorted(glob.glob(os.path.join(REPO, c, sub, "**", "*.rs"), recursive=True))
        b = os.path.join(REPO, c, "build.rs")
        if os.path.exists(b):
            files.append(b)
    return files


def unsafe_sites():
    sites = []
    files = rust_files()
    for fi, f in enumerate(files):
        toks = lex(open(f, encoding="utf-8", errors="replace").read())
        for k, (kind, text, line) in enumerate(toks):
            if kind == "ident" and text == "unsafe":
                sites.append((fi, line, "unsafe"))
            if kind == "ident" and text in ("no_mangle", "export_name", "link_section"):
                # only inside an attribute: look back for '#' '[' within a few tokens
                back = toks[max(0, k - 4):k]
                if any(t[1] == "#" for t in back) and any(t[1] == "[" for t in back):
                    sites.append((fi, line, text))
    for rel, line, text in doctest_unsafe_sites():
        full = os.path.join(REPO, rel)
        if full in files:
            sites.append((files.index(full), line, text))
    return files, sites


def dependencies():
    r = subprocess.run(["cargo", "metadata", "--offline", "--format-version", "1", "--no-deps", "--manifest-path", os.path.join(REPO, "Cargo.toml")],
                       stdout=subprocess.PIPE, stderr=subprocess.PIPE, text=True, env=dict(os.environ, CARGO_NET_OFFLINE="true"))
    deps = {}
    if r.returncode != 0:
        return None, r.stderr[-500:]
    md = json.loads(r.stdout)
    for p in md["packages"]:
        if p["name"] in CRATES:
            deps[p["name"]] = sorted({d["name"] for d in p["dependencies"] if d.get("kind") in (None, "normal", "build")})
    return deps, ""


def alloc_sites():
    """per anchored file: occurrences of allocating constructs with a context class.
       contexts: 0 SuccessPath, 1 ErrPath (inside Err(..) / map_err / an error constructor / a `?`-less return Err),
                 2 ErrConv (inside `impl From<..Error> for ..`), 3 StringHelper (escape_ascii / Debug::fmt / escape_ascii method),
                 4 TestOnly (#[cfg(test)] item), 5 TypePosition (a type, not a construct)"""
    sites = []
    defs = {}    # fn name -> list of is_pub, over all anchored files (tests excluded)
    calls = {}   # callee name -> list of (caller fn, caller is a String helper by the naming rule)
    for fi, rel in enumerate(C18_FILES):
        path = os.path.join(REPO, rel)
        if not os.path.exists(path):
            continue
        toks = lex(open(path, encoding="utf-8", errors="replace").read())
        # delimiter stack; each frame remembers the token before the opener and flags
        stack = []
        fn_name = None
        impl_ctx = None         # text of the current impl header
        pending_cfg_test = False
        k = 0
        while k < len(toks):
            kind, text, line = toks[k]
            if text == "#" and k + 1 < len(toks) and toks[k + 1][1] == "[":
                # attribute: collect until matching ]
                j = k + 2
                depth = 1
                body = []
                while j < len(toks) and depth:
                    if toks[j][1] == "[":
                        depth += 1
                    elif toks[j][1] == "]":
                        depth -= 1
                    if depth:
                        body.append(toks[j][1])
                    j += 1
                if "cfg" in body and "test" in body:
                    pending_cfg_test = True
                k = j
                continue
            if kind == "ident" and text == "impl" and not any(f["kind"] == "fn" for f in stack):
                # header up to '{'
                j = k
                hdr = []
                while j < len(toks) and toks[j][1] != "{":
                    hdr.append(toks[j][1])
                    j += 1
                impl_ctx = " ".join(hdr)
            if kind == "ident" and text == "fn" and k + 1 < len(toks):
                fn_name = toks[k + 1][1]
                if not any(f["test"] for f in stack) and not pending_cfg_test:
                    is_pub = False
                    for b in range(k - 1, max(-1, k - 12), -1):
                        if toks[b][1] in (";", "}", "{", "]"):
                            break
                        if toks[b][1] == "pub":
                            is_pub = True
                    in_trait_impl = any(f["kind"] == "impl" and f["impl"] and " for " in f["impl"] for f in stack)
                    defs.setdefault(fn_name, []).append(is_pub or in_trait_impl)
            if kind == "ident" and k + 1 < len(toks) and toks[k + 1][1] == "(" and k > 0 and toks[k - 1][1] != "fn" and not any(f["test"] for f in stack):
                c_fn = [f for f in stack if f["kind"] == "fn"]
                if c_fn:
                    c_impl = next((f["impl"] for f in reversed(stack) if f["kind"] == "impl"), None)
                    helper = c_fn[-1]["fn"] in ("escape_ascii", "fmt") or bool(c_impl and "Debug" in c_impl)
                    calls.setdefault(text, []).append((c_fn[-1]["fn"], helper))
            if text in "({[":
                prev = toks[k - 1][1] if k > 0 else ""
                prev2 = toks[k - 2][1] if k > 1 else ""
                frame = {"open": text, "prev": prev, "prev2": prev2, "kind": "other", "test": False, "fn": None, "impl": None}
                if text == "{":
                    # classify the block: fn body / impl body / mod body / other
                    back = [t[1] for t in toks[max(0, k - 400):k]]
                    # nearest of fn/impl/mod keyword not separated by ';' or '}' or '{'
                    for b in reversed(range(len(back))):
                        if back[b] in (";", "}"):
                            break
                        if back[b] == "fn":
                            frame["kind"] = "fn"
                            frame["fn"] = fn_name
                            break
                        if back[b] == "impl":
                            frame["kind"] = "impl"
                            frame["impl"] = impl_ctx
                            break
                        if back[b] == "mod":
                            frame["kind"] = "mod"
                            break
                    if pending_cfg_test and frame["kind"] in ("fn", "mod", "impl"):
                        frame["test"] = True
                    pending_cfg_test = False
                stack.append(frame)
            elif text in ")}]":
                if stack:
                    stack.pop()
            elif kind == "ident" and (text in ALLOC_TOKENS):
                nxt = toks[k + 1][1] if k + 1 < len(toks) else ""
                prv = toks[k - 1][1] if k > 0 else ""
                is_macro = nxt == "!"
                is_call = nxt == "(" or (nxt == ":" and k + 2 < len(toks) and toks[k + 2][1] == ":")
                is_method = prv == "."
                in_test = any(f["test"] for f in stack)
                in_fn = [f for f in stack if f["kind"] == "fn"]
                cur_fn = in_fn[-1]["fn"] if in_fn else None
                cur_impl = next((f["impl"] for f in reversed(stack) if f["kind"] == "impl"), None)
                construct = is_macro or is_call or is_method
                if text in ("vec", "format") and not is_macro:
                    construct = False
                if text in ("push", "push_str", "collect", "to_vec", "to_string", "to_owned", "extend", "extend_from_slice", "repeat", "join", "concat") and not is_method:
                    construct = False
                if not cur_fn:
                    ctx = 5
                elif not construct:
                    ctx = 5
                elif in_test:
                    ctx = 4
                elif cur_impl and re.search(r"From\s*<\s*\w*Error", cur_impl):
                    ctx = 2
                elif cur_fn in ("escape_ascii", "fmt") or (cur_impl and "Debug" in cur_impl):
                    ctx = 3
                elif cur_fn == "new" and cur_impl and "MalformedInputError" in cur_impl:
                    ctx = 2
                elif any(f["open"] == "(" and (f["prev"] in ("Err", "map_err") or f["prev"] in ERR_CTORS or (f["prev"] == "new" and f["prev2"] == ":")) for f in stack):
                    ctx = 1
                else:
                    ctx = 0
                sites.append((fi, line, text, ctx, cur_fn or "-"))
            elif kind == "ident" and text == "new" and k >= 3 and toks[k - 1][1] == ":" and toks[k - 3][1] in ERR_CTORS:
                # std::io::Error::new / MalformedInputError::new allocate: must be on an error path
                in_test = any(f["test"] for f in stack)
                in_fn = [f for f in stack if f["kind"] == "fn"]
                cur_fn = in_fn[-1]["fn"] if in_fn else None
                cur_impl = next((f["impl"] for f in reversed(stack) if f["kind"] == "impl"), None)
                if in_test:
                    ctx = 4
                elif cur_impl and re.search(r"From\s*<\s*\w*Error", cur_impl):
                    ctx = 2
                elif any(f["open"] == "(" and f["prev"] in ("Err", "map_err") for f in stack):
                    ctx = 1
                else:
                    # `return Err(...)` spans: look back for Err( on the same statement
                    back = [t[1] for t in toks[max(0, k - 12):k]]
                    ctx = 1 if "Err" in back or "map_err" in back else 0
                if cur_fn:
                    sites.append((fi, line, toks[k - 3][1] + "::new", ctx, cur_fn))
            k += 1
    # private helpers of the String-producing functions: a function defined exactly once, not `pub` and not a trait
    # method, that is called at least once and only from `escape_ascii` / `Debug::fmt` (or from other such helpers)
    # shares their exemption; any other caller removes it
    exempt = set()
    changed = True
    while changed:
        changed = False
        for name, pubs in defs.items():
            if name in exempt or len(pubs) != 1 or pubs[0]:
                continue
            cs = calls.get(name, [])
            if cs and all(h or c in exempt for c, h in cs):
                exempt.add(name)
                changed = True
    sites = [(fi, line, text, (3 if ctx == 0 and fn in exempt else ctx), fn) for fi, line, text, ctx, fn in sites]
    return sites



INT_MAX_CONSTS = {"u8": 255, "i8": 127, "u16": 65535, "i16": 32767, "u32": 2 ** 32 - 1, "i32": 2 ** 31 - 1}


def int_of(text):
    t = re.sub(r"_?(u8|i8|u16|u32|u64|u128|usize|i16|i32|i64|i128|isize)$", "", text).replace("_", "")
    try:
        tl = t.lower()
        return int(tl, 16) if tl.startswith("0x") else (int(tl[2:], 8) if tl.startswith("0o") else (int(tl[2:], 2) if tl.startswith("0b") else int(tl)))
    except ValueError:
        return None


def numbers():
    """numbers the library sources of both crates name (comments and strings excluded), 2 <= v <= 2^33: integer literals,
       products / shifts / sums / differences of two adjacent literals (`64 * 1024`, `1 << 20`), and `uN::MAX` / `iN::MAX`"""
    vals = set()
    for c in CRATES:
        for f in sorted(glob.glob(os.path.join(REPO, c, "src", "**", "*.rs"), recursive=True)):
            toks = lex(open(f, encoding="utf-8", errors="replace").read())
            for k, (kind, text, _) in enumerate(toks):
                if kind == "num":
                    v = int_of(text)
                    if v is None:
                        continue
                    vals.add(v)
                    # `a op b` with b a literal too (`<<` is two `<` tokens)
                    if k + 2 < len(toks):
                        op = toks[k + 1][1]
                        j = k + 2
                        if op == "<" and toks[k + 2][1] == "<":
                            op, j = "<<", k + 3
                        if j < len(toks) and toks[j][0] == "num":
                            b = int_of(toks[j][1])
                            if b is not None:
                                try:
                                    r = {"*": v * b, "+": v + b, "-": v - b, "<<": (v << b) if b < 40 else None}.get(op)
                                except Exception:
                                    r = None
                                if r is not None:
                                    vals.add(r)
                elif kind == "ident" and text in INT_MAX_CONSTS and k + 3 < len(toks) and toks[k + 1][1] == ":" and toks[k + 2][1] == ":" and toks[k + 3][1] in ("MAX", "BITS"):
                    vals.add(INT_MAX_CONSTS[text] if toks[k + 3][1] == "MAX" else int(text[1:]))
    return sorted(v for v in vals if 2 <= v <= 2 ** 33)


STATIC_SIZES = {0, 1, 2, 3, 4, 5, 6, 7, 8, 9, 13, 16, 17, 32, 33, 48, 64, 96, 128, 130, 200, 255, 300, 512, 4096, 4200, 8192}


def dict_sizes(nums):
    """buffer SIZEs to instantiate in addition to the fixed ones: every integer literal of the source between 16 and 10000,
       with its neighbours (a special case keyed on `SIZE == 1024` or `len >= 1500` is otherwise never reached)"""
    out = []
    for v in nums:
        if 16 <= v <= 10000:
            for x in (v, v + 1, v - 1):
                if x not in STATIC_SIZES and x not in out:
                    out.append(x)
    # literals of the code proper come before those of its tests only by accident of sorting; keep the list bounded
    return sorted(out)[:36]


def big_sizes(nums):
    """buffer SIZEs beyond 10000 (up to 2^21 + 64) named by the source: each with a little room (+64), and its successor"""
    out = []
    for v in nums:
        if 10000 < v <= 2 ** 21:
            for x in (v + 1, v + 64):
                if x not in out:
                    out.append(x)
    return sorted(out)[:8]



# ---------------------------------------------------------------- tie precondition: no ambient state
# The correspondence checks compare the implementation with a model that is a FUNCTION of the buffer / adapter state and
# the call's arguments.  That is only meaningful while the library's behaviour cannot depend on anything else: process
# environment, time, thread identity or unwinding state, statics / thread-locals shared between values, addresses,
# properties of type parameters (size, name, TypeId), the tokio runtime.  These tokens in non-test library code void it.
AMBIENT_IDENTS = {
    "thread_local": "thread-local state shared between values",
    "lazy_static": "global state", "OnceCell": "global state", "OnceLock": "global state", "LazyLock": "global state", "LazyCell": "global state",
    "Mutex": "shared mutable state", "RwLock": "shared mutable state", "Condvar": "shared mutable state",
    "panicking": "depends on the thread's unwinding state",
    "Instant": "depends on time", "SystemTime": "depends on time", "UNIX_EPOCH": "depends on time",
    "size_of": "depends on the size of a type (parameter)", "size_of_val": "depends on the size of a value's type",
    "align_of": "depends on the alignment of a type", "align_of_val": "depends on alignment", "align_offset": "depends on an address",
    "type_name": "depends on a type's name", "TypeId": "depends on a type's identity", "type_id": "depends on a type's identity",
    "as_ptr": "address of a buffer", "as_mut_ptr": "address of a buffer", "addr_of": "address", "addr_of_mut": "address", "addr": "address",
    "RandomState": "randomised hashing", "DefaultHasher": "hashing with process-wide keys", "HashMap": "iteration order of a hash map", "HashSet": "iteration order of a hash set",
    "var_os": "process environment", "vars_os": "process environment", "set_var": "process environment", "remove_var": "process environment",
    "yield_now": "scheduler", "spawn": "spawns a task / thread", "block_on": "runtime", "sleep": "time",
    "File": "file system", "OpenOptions": "file system", "TcpStream": "network", "UdpSocket": "network", "stdin": "process I/O",
}
for _a in ("AtomicBool", "AtomicU8", "AtomicU16", "AtomicU32", "AtomicU64", "AtomicUsize", "AtomicI8", "AtomicI16", "AtomicI32", "AtomicI64", "AtomicIsize", "AtomicPtr"):
    AMBIENT_IDENTS[_a] = "shared mutable state"
AMBIENT_PATH_HEADS = {"env": "process environment", "thread": "thread identity / state", "time": "time", "process": "process state", "fs": "file system", "net": "network"}
TOKIO_ALLOWED = {"tokio", "io", "AsyncRead", "AsyncWrite", "AsyncReadExt", "AsyncWriteExt", "AsyncBufRead", "ReadBuf", "self",
                 "macros", "support", "Pin", "Poll"}   # `tokio::macros::support::{Pin, Poll}`: re-exports of core types, used by the pinned tree


PRIMS = {"usize", "isize", "u8", "u16", "u32", "u64", "u128", "i8", "i16", "i32", "i64", "i128", "bool", "char"}


def prim_generic(toks, k):
    """`size_of :: < usize > ( )` with a primitive type argument"""
    t = [x[1] for x in toks[k + 1:k + 7]]
    return len(t) >= 5 and t[0] == ":" and t[1] == ":" and t[2] == "<" and t[3] in PRIMS and t[4] == ">"


def ambient_sites():
    """(file, line, token, why) for every ambient-state token in NON-TEST library code of both crates"""
    out = []
    for c in CRATES:
        for f in sorted(glob.glob(os.path.join(REPO, c, "src", "**", "*.rs"), recursive=True)):
            if os.path.basename(f) == "test_utils.rs":
                continue
            toks = lex(open(f, encoding="utf-8", errors="replace").read())
            rel = os.path.relpath(f, REPO)
            # skip #[cfg(test)] items: track brace depth of test regions
            depth = 0
            test_depths = []
            pending_test = False
            in_const = False
            paren = 0
            k = 0
            while k < len(toks):
                kind, text, line = toks[k]
                if text == "#" and k + 1 < len(toks) and toks[k + 1][1] == "[":
                    j = k + 2
                    d = 1
                    body = []
                    while j < len(toks) and d:
                        if toks[j][1] == "[":
                            d += 1
                        elif toks[j][1] == "]":
                            d -= 1
                        if d:
                            body.append(toks[j][1])
                        j += 1
                    if "cfg" in body and "test" in body:
                        pending_test = True
                    elif body[:1] == ["test"]:
                        pending_test = True
                    k = j
                    continue
                if text == "{":
                    depth += 1
                    if pending_test:
                        test_depths.append(depth)
                        pending_test = False
                elif text == "}":
                    if test_depths and test_depths[-1] == depth:
                        test_depths.pop()
                    depth -= 1
                elif text == ";" and pending_test and not test_depths:
                    pending_test = False   # `#[cfg(test)] mod x;` / `use` item without a body
                in_test = bool(test_depths) or pending_test
                # inside the initialiser of a `const` item (`const _: () = assert!(..);`): evaluated at compile time
                if kind == "ident" and text == "const" and k + 1 < len(toks) and toks[k + 1][1] != "fn" and toks[k + 1][0] in ("ident",) :
                    in_const = True
                elif text == ";" and in_const and paren == 0:
                    in_const = False
                if text in "([":
                    paren += 1
                elif text in ")]":
                    paren = max(0, paren - 1)
                if not in_test and kind == "ident":
                    nxt = toks[k + 1][1] if k + 1 < len(toks) else ""
                    nxt2 = toks[k + 2][1] if k + 2 < len(toks) else ""
                    prv = toks[k - 1][1] if k > 0 else ""
                    if text in ("size_of", "size_of_val", "align_of", "align_of_val") and (in_const or prim_generic(toks, k)):
                        pass   # a compile-time assertion, or the size of a concrete primitive type: no dependence on a type parameter
                    elif text in AMBIENT_IDENTS:
                        out.append((rel, line, text, AMBIENT_IDENTS[text]))
                    elif text in AMBIENT_PATH_HEADS and ((nxt == ":" and nxt2 == ":") or (prv == ":" and k > 1 and toks[k - 2][1] == ":" and k > 2 and toks[k - 3][1] in ("std", "core"))):
                        out.append((rel, line, text + "::", AMBIENT_PATH_HEADS[text]))
                    elif text == "static" and nxt == "mut":
                        # an immutable `static` table of constants is harmless; interior mutability is caught by the type names above
                        out.append((rel, line, "static mut", "mutable state outside any buffer value"))
                    elif text == "tokio" and nxt == ":" and nxt2 == ":":
                        # a path `tokio :: seg :: seg ...` (also `{a, b}` groups right after it)
                        j = k + 1
                        segs = ["tokio"]
                        while j + 2 < len(toks) and toks[j][1] == ":" and toks[j + 1][1] == ":":
                            if toks[j + 2][0] == "ident":
                                segs.append(toks[j + 2][1])
                                j += 3
                            elif toks[j + 2][1] == "{":
                                j += 3
                                while j < len(toks) and toks[j][1] != "}":
                                    if toks[j][0] == "ident":
                                        segs.append(toks[j][1])
                                    j += 1
                                break
                            else:
                                break
                        # modules and types must be on the allow-list; a lower-case segment after a trait is one of its methods
                        bad = []
                        for i, x in enumerate(segs):
                            if x in TOKIO_ALLOWED:
                                continue
                            if x[:1].islower() and i > 0 and segs[i - 1][:1].isupper():
                                continue
                            bad.append(x)
                        if bad:
                            out.append((rel, line, "::".join(segs), "tokio API beyond the AsyncRead / AsyncWrite traits (runtime / scheduler state)"))
                k += 1
    return out


def doctest_unsafe_sites():
    """`unsafe` (and the lint's attributes) inside fenced code blocks of doc comments: rustdoc compiles and runs them as tests"""
    out = []
    for f in rust_files():
        rel = os.path.relpath(f, REPO)
        in_block = False
        skip = False
        block = []
        start = 0
        for ln, raw in enumerate(open(f, encoding="utf-8", errors="replace").read().split("\n"), 1):
            t = raw.strip()
            if not (t.startswith("///") or t.startswith("//!")):
                in_block = False
                block = []
                continue
            body = t[3:]
            if body.strip().startswith("```"):
                if not in_block:
                    info = body.strip()[3:].strip().lower()
                    skip = any(x in info.split(",") for x in ("text", "ignore", "sh", "bash", "toml", "console", "plain"))
                    in_block = True
                    block = []
                    start = ln
                else:
                    if not skip:
                        for kind, text, l2 in lex("\n".join(block)):
                            if kind == "ident" and text in ("unsafe", "no_mangle", "export_name", "link_section"):
                                out.append((rel, start + l2, text + " (doc test)"))
                    in_block = False
                continue
            if in_block:
                block.append(body)
    return out


def lean_str(s):
    return '"' + s.replace("\\", "\\\\").replace('"', '\\"') + '"'


def gen():
    files, usites = unsafe_sites()
    deps, err = dependencies()
    asites = alloc_sites()
    known = {"fixed-buffer": 1, "tokio": 2}
    def codes(names):
        return [known.get(n, 100 + i) for i, n in enumerate(names)]
    d1 = deps.get("fixed-buffer", ["<cargo-metadata-failed>"]) if deps is not None else ["<cargo-metadata-failed>"]
    d2 = deps.get("fixed-buffer-tokio", ["<cargo-metadata-failed>"]) if deps is not None else ["<cargo-metadata-failed>"]
    rel = [os.path.relpath(f, REPO) for f in files]
    lines = []
    lines.append("/- GENERATED by tools/extract.py from /repo's current sources on every run — do not edit.")
    lines.append("   Tables over which FBV/Props/C18.lean and FBV/Props/C20.lean are re-checked by the kernel. -/")
    lines.append("namespace FBV.Gen")
    lines.append("")
    lines.append("/-- every Rust source file of both crates (src, tests, examples, benches, build.rs) -/")
    lines.append("def files : List String := [" + ", ".join(lean_str(r) for r in rel) + "]")
    lines.append("")
    lines.append("/-- (file index, line) of every token the `unsafe_code` lint is about: the `unsafe` keyword and the")
    lines.append("    `no_mangle` / `export_name` / `link_section` attributes (comments, strings and char literals excluded) -/")
    lines.append("def unsafeSites : List (Nat × Nat) := [" + ", ".join("(%d, %d)" % (f, l) for f, l, _ in usites) + "]")
    lines.append("")
    lines.append("/-- non-dev dependencies as resolved by `cargo metadata`; codes: 1 = fixed-buffer, 2 = tokio, >= 100 = anything else -/")
    lines.append("def depNamesFixedBuffer : List String := [" + ", ".join(lean_str(x) for x in d1) + "]")
    lines.append("def depNamesTokio : List String := [" + ", ".join(lean_str(x) for x in d2) + "]")
    lines.append("def depsFixedBuffer : List Nat := [" + ", ".join(str(c) for c in codes(d1)) + "]")
    lines.append("def depsTokio : List Nat := [" + ", ".join(str(c) for c in codes(d2)) + "]")
    lines.append("")
    lines.append("/-- C18: (file index into allocFiles, line, context) of every allocating construct in the anchored files;")
    lines.append("    contexts: 0 SuccessPath, 1 ErrPath, 2 ErrConv, 3 StringHelper, 4 TestOnly, 5 TypePosition/not a construct -/")
    lines.append("def allocFiles : List String := [" + ", ".join(lean_str(x) for x in C18_FILES) + "]")
    lines.append("def allocSites : List (Nat × Nat × Nat) := [" + ", ".join("(%d, %d, %d)" % (f, l, c) for f, l, _, c, _ in asites) + "]")
    lines.append("def allocSiteNames : List String := [" + ", ".join(lean_str("%s@%s" % (t, fn)) for _, _, t, _, fn in asites) + "]")
    lines.append("")
    lines.append("end FBV.Gen")
    new = "\n".join(lines) + "\n"
    os.makedirs(os.path.dirname(GEN), exist_ok=True)
    old = open(GEN).read() if os.path.exists(GEN) else None
    if old != new:
        open(GEN, "w").write(new)
    summary = {
        "files": len(rel), "unsafe_sites": [(rel[f], l, t) for f, l, t in usites],
        "deps": {"fixed-buffer": d1, "fixed-buffer-tokio": d2}, "cargo_metadata_error": err,
        "alloc_sites": [{"file": C18_FILES[f], "line": l, "token": t, "ctx": c, "fn": fn} for f, l, t, c, fn in asites],
        "changed": old != new,
    }
    print(json.dumps(summary))


def lint():
    """rustc's own verdict: every lib / unit-test / integration-test target with the unsafe_code lint forbidden"""
    tdir = os.path.join(VERIF, ".cache", "target-c20")
    env = dict(os.environ, CARGO_NET_OFFLINE="true", CARGO_TARGET_DIR=tdir)
    results = []
    for crate in CRATES:
        targets = [["--lib"], ["--lib", "--profile", "test"]]
        for t in sorted(glob.glob(os.path.join(REPO, crate, "tests", "*.rs"))):
            targets.append(["--test", os.path.splitext(os.path.basename(t))[0]])
        for t in sorted(glob.glob(os.path.join(REPO, crate, "examples", "*.rs"))):
            targets.append(["--example", os.path.splitext(os.path.basename(t))[0]])
        for tg in targets:
            cmd = ["cargo", "rustc", "--offline", "--quiet", "--manifest-path", os.path.join(REPO, "Cargo.toml"), "-p", crate] + tg + ["--", "-F", "unsafe_code"]
            r = subprocess.run(cmd, stdout=subprocess.PIPE, stderr=subprocess.PIPE, text=True, env=env)
            results.append({"crate": crate, "target": " ".join(tg), "ok": r.returncode == 0,
                            "unsafe_error": "unsafe" in r.stderr, "stderr": r.stderr[-600:] if r.returncode != 0 else ""})
    print(json.dumps(results))


if __name__ == "__main__":
    if "--gen" in sys.argv:
        gen()
    elif "--dict" in sys.argv:
        d = dictionary()
        k = sys.argv.index("--dict")
        out = sys.argv[k + 1] if k + 1 < len(sys.argv) else os.path.join(VERIF, ".cache", "dict.txt")
        os.makedirs(os.path.dirname(out), exist_ok=True)
        open(out, "w").write("".join(t.hex() + "\n" for t in d))
        print(json.dumps({"dict": out, "tokens": len(d), "multi_byte": [t.hex() for t in d if len(t) > 1][:80]}))
    elif "--ambient" in sys.argv:
        print(json.dumps([{"file": f, "line": l, "token": t, "why": w} for f, l, t, w in ambient_sites()]))
    elif "--nums" in sys.argv:
        k = sys.argv.index("--nums")
        out = sys.argv[k + 1]
        ns = numbers()
        os.makedirs(os.path.dirname(out), exist_ok=True)
        body = "".join("%d\n" % v for v in ns)
        if not os.path.exists(out) or open(out).read() != body:
            open(out, "w").write(body)
        sz = out + ".sizes"
        body = "".join("%d\n" % v for v in dict_sizes(ns)) + "".join("big %d\n" % v for v in big_sizes(ns))
        if not os.path.exists(sz) or open(sz).read() != body:   # unchanged file = no rebuild of the harness
            open(sz, "w").write(body)
        print(json.dumps({"nums": out, "count": len(ns), "sizes": dict_sizes(ns), "big_sizes": big_sizes(ns)}))
    elif "--lint" in sys.argv:
        lint()
    else:
        print(__doc__)

#!/usr/bin/env python3
"""Regenerates /verif/MANIFEST.json from tools/props.py (so the two cannot drift apart)."""
import json, os, sys
sys.path.insert(0, os.path.dirname(os.path.abspath(__file__)))
import props as P

VERIF = os.path.dirname(os.path.dirname(os.path.abspath(__file__)))
ALL = ["C%02d" % i for i in range(1, 21)]
checks = []
for pid in ALL:
    if pid not in P.PROPS or not P.PROPS[pid].get("claimed", True):
        continue
    sp = P.PROPS[pid]
    checks.append({
        "property_id": pid,
        "quick_cmd": "./check %s --tier quick" % pid,
        "thorough_cmd": "./check %s --tier thorough" % pid,
        "evidence_file": "/verif/evidence/%s.json" % pid,
        "replay_cmd_template": "./check --replay {path}",
        "engine": "lean4-proof+correspondence",
        "level_claimed": {
            "category": sp.get("level", "proof"),
            "text": sp.get("level_text", ""),
            "design_ref": "DESIGN.md section 5, " + pid,
        },
        "level_note": sp.get("level_note", "Lean kernel + audited axioms; model tied to the code by the correspondence run (see evidence.trusted_base)"),
        "technique": sp.get("technique", "Lean 4 theorem over a hand-written model + differential correspondence check"),
    })
na = [{"property_id": pid, "reason": P.NOT_CLAIMED.get(pid, "not yet claimed: machinery for this property is not built yet")}
      for pid in ALL if pid not in [c["property_id"] for c in checks]]
m = {
    "version": 1,
    "setup_cmd": "./check --setup",
    "hooks": {
        "guard": "none",
        "enable": "no hooks: every observable the properties name is public API; harness crates path-depend on /repo and are rebuilt from its working tree on every run",
        "baseline_off_cmd": "cd /repo && cargo test --workspace --no-fail-fast --offline",
        "source_commits": [],
        "add_only": True,
    },
    "engines": [{
        "name": "lean4-proof+correspondence",
        "path": "/verif/check",
        "serves_properties": [c["property_id"] for c in checks],
        "kind_free_text": "Lean 4 theorems about a hand-written executable model (lean/FBV), tied to the Rust source on every run by a differential correspondence check (Rust harness running the real code vs compiled Lean driver running the model and the executable property statements)",
    }],
    "checks": checks,
    "not_applicable": na,
    "notes": "See DESIGN.md. fix: commits in /repo are recorded in known_findings.txt.",
}
json.dump(m, open(os.path.join(VERIF, "MANIFEST.json"), "w"), indent=1)
print("claimed:", [c["property_id"] for c in checks])

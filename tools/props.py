"""Property table: which proof module / theorems and which correspondence jobs decide each property."""


NOT_CLAIMED = {}


def t1_jobs(profiles):
    def f(tier):
        return [{"which": "sync", "profile": p, "args": ["t1"], "oc": p == "dev"} for p in profiles]
    return f


T1_RULE = ("every state of the real FixedBuf<N> reachable from every constructor (breadth-first, N<=4 quick / N<=5 thorough, "
           "small write alphabet) x every public call with every argument that can matter at that size (counts 0..N+1, usize::MAX-k, "
           "wrap-around counts, all reader responses, 6 deframers, try_parse scripts), plus seeded random walks at N in "
           "{4,7,8,16,64,255,4096}; a case is one (state, call); distinct = distinct (state, call) strings; non-trivial = the call "
           "changes the state or returns bytes")

def tokio_jobs(*modes):
    # both profiles: `debug_assert!`s with side effects, overflow checks and anything else behind cfg(debug_assertions)
    # differ between what the test suite runs (dev) and what users ship (release)
    def f(tier):
        return [{"which": "tokio", "profile": p, "args": [m], "oc": p == "dev"} for m in modes for p in ("dev", "release")]
    return f


def sync_jobs(mode, profiles=("dev", "release")):
    def f(tier):
        return [{"which": "sync", "profile": p, "args": [mode], "oc": p == "dev"} for p in profiles]
    return f


AD_RULE = ("scripted reader pairs (<=2-3 actions each from data-chunk/short read/scribbling read/EOF/error, streams of 0-3 bytes) x every "
           "destination schedule of <=3 lengths from {0,1,4} (chain) / {0,1,2,4} (take) x limits {0,1,2,3,5,u64::MAX}, first = a real FixedBuf "
           "at every read offset, plus seeded random scenarios with interleaved writes/flushes and scripted writer results "
           "(full/partial/zero/error); three-way: implementation, real std::io::Chain/Take over twin readers, Lean model; "
           "distinct = distinct scenario line; non-trivial = more than one call")

RF_RULE = ("every byte stream over {a,CR,LF,NUL} of length <=4 (quick; <=6 thorough; one shorter when faults are injected) x EVERY composition "
           "of the stream into read chunks x SIZE in {0..4,6} (quick) / {0..8} x 4 contract-honouring deframers (line, crlf, null, "
           "length-prefixed), buffers starting empty; plus seeded scenarios with pre-loaded buffers at a non-zero read offset, SIZE up to 64, "
           "streams up to 120 bytes, scribbling short reads and rejecting deframers; rfe additionally injects an error of each of 5 kinds or a "
           "panic before every reader call (pairs in thorough). Each scenario is a whole sequence of read_frame calls until the terminal result "
           "has repeated; distinct = distinct scenario; non-trivial = more than two calls")

PROPS = {
    "C07": {
        "module": "FBV.Props.C07b",
        "theorems": ["FBV.C07.serveW_spec", "FBV.C07.serveW_eq", "FBV.C07.serveZ_spec", "FBV.C07.drainZ_spec", "FBV.C07.serve_spec", "FBV.C07.drain_spec", "FBV.C07.chain_read_spec", "FBV.C07.ab_read_spec", "FBV.C02.read_frame_spec"],
        "jobs": (lambda tier: [{"which": w, "profile": p, "args": [m], "oc": p == "dev"} for (w, m) in (("sync", "pl"), ("tokio", "apl"), ("sync", "big")) for p in ("dev", "release")]),
        "tie": "T2 the loop of tests/server.rs re-expressed over a scripted transport (library calls are the real ones), blocking and tokio (hand-driven polls, Pending on reads and writes)",
        "rule": ("connections of 1-3 requests `[len byte][extra][CR]LF payload` with payload lengths {0,1,2,3,5,9} (payload bytes include LF/CR), truncated at random "
                 "points or followed by undelimited garbage; short connections x EVERY chunking x SIZE {4,6,8} x 6 destination-size schedules incl. zero-length "
                 "destinations; seeded longer connections with random chunkings, scribbling short reads, SIZE up to 64; the tokio variant with Pending at any "
                 "read or write poll; distinct = distinct scenario; non-trivial = more than one request"),
        "level_text": ("Kernel-checked composition: for every connection stream, every chunking, every schedule of positive destination sizes, every lenOf (lengths 0, "
                       "> SIZE, EOF inside a payload), every SIZE and contract-honouring deframer, the request loop returns exactly the consecutive segments of the "
                       "stream (serve_spec = read_frame_spec + drain_spec over chain/take, with over-read buffer bytes delivered before any stream byte and the "
                       "rest left for the next read_frame); serveZ_spec extends this to every destination schedule incl. zero-length destinations, and serveW_spec to "
                       "the responses: the transport's write log grows by exactly resp(header, payload) per request, in request order, and the write-through "
                       "does not disturb the read side (writes are modelled as forwarded unchanged, which is C13's statement). The async variant rests on "
                       "C14/C16 and is tied by hand-driven polls."),
    },
    "C02": {
        "module": "FBV.Props.C02",
        "theorems": ["FBV.pollLoop_outcome", "FBV.C02.read_frame_spec", "FBV.C02.read_frames_all", "FBV.C02.chunking_independent",
                     "FBV.C02.terminal_cases", "FBV.C02.line_instance", "FBV.C02.crlf_instance", "FBV.C02.null_instance",
                     "FBV.readFrameC_refines", "FBV.readFrameC_spec"],
        "jobs": (lambda tier: sync_jobs("rf")(tier) + sync_jobs("big")(tier)),
        "tie": "T2 whole read_frame scenarios: concrete model vs implementation call by call, and the specification evaluated on the implementation's results",
        "rule": RF_RULE,
        "level_text": ("Kernel-checked for every stream, every chunk schedule, every SIZE>=0, every deframer honouring the documented contract (the three "
                       "provided ones do: C05) and any starting buffer: each read_frame call returns specNext(SIZE, deframer, unread++undelivered) — a function "
                       "in which no chunk schedule occurs — and leaves exactly what it names pending; repeated calls return the stream's frames in order then "
                       "the terminal outcome (InvalidData / Ok(None) / UnexpectedEof as the property states them). Proved on the abstract buffer (capacity, read "
                       "offset, unread bytes); the CONCRETE loop model over the checked buffer methods (mem, read_index, write_index, both overflow-check settings, "
                       "scribbling readers) is proved to be simulated step for step by the abstract loop (readFrameC_refines), so the specification holds of the "
                       "concrete model too (readFrameC_spec); that concrete model is what the driver compares with the real read_frame call by call over every "
                       "composition of every small stream."),
    },
    "C06": {
        "module": "FBV.Props.C06",
        "theorems": ["FBV.pollLoop_outcome", "FBV.C06.reader_error_loses_nothing", "FBV.C06.error_erasure", "FBV.C06.own_errors_stable"],
        "jobs": (lambda tier: sync_jobs("rfe")(tier) + sync_jobs("big")(tier)),
        "tie": "T2 as C02 with a reader error (5 kinds) or panic injected before every reader call",
        "rule": RF_RULE,
        "level_text": ("Kernel-checked for ARBITRARY scripts mixing chunks with reader errors of any kind at any position: an error return carries a kind "
                       "the reader produced, consumes nothing and keeps unread++undelivered intact (bytes of earlier reads of the same call included); a "
                       "caller that re-calls after every error obtains exactly the error-free specification's frames and outcome (error erasure, by "
                       "induction on the number of errors); read_frame's own errors leave the pending stream untouched and therefore repeat. Tied by "
                       "fault injection at every reader call, including panics after which the buffer is inspected and used again."),
        "assumptions": ["An Interrupted read is returned like any other error (today's behaviour); a transparent retry, which the property also allows, would show as model drift"],
    },
    "C12": {
        "module": "FBV.Props.C12",
        "theorems": ["FBV.C12.no_call_when_frame_buffered", "FBV.C12.no_call_when_rejected", "FBV.C12.no_call_when_full", "FBV.C12.offers_ok", "FBV.C12.call_discipline", "FBV.C12.trace_log",
                     "FBV.C12.copy_once_from_spec", "FBV.pollLoop_outcome"],
        "jobs": (lambda tier: [{"which": "sync", "profile": p, "args": [m], "oc": p == "dev"} for m in ("rf", "rfe", "t1", "big") for p in ("dev", "release")]),
        "tie": "T2 reader call logs of every read_frame call + T1 copy_once_from with every reader response 0..=offered, errors, panics, scribbling",
        "rule": RF_RULE + "; plus the T1 exploration for copy_once_from",
        "level_text": ("Kernel-checked: read_frame does not touch the reader when a complete frame or rejected data is buffered or the buffer is full; every "
                       "destination it offers is non-empty and within the buffer; unread++undelivered is conserved (exactly what the reader reports is "
                       "committed); copy_once_from makes exactly one call offering the whole free space, commits exactly the reported count, and a reader "
                       "error/panic changes nothing, none (InvalidData) when full. The clauses are evaluated on the implementation's own reader logs; "
                       "scribbling readers make stale/uninitialised commits visible."),
    },
    "C08": {
        "module": "FBV.Props.C08b",
        "theorems": ["FBV.C08.chain_bisim", "FBV.C08.chain_eq_std", "FBV.C08.rel_new", "FBV.C08.second_not_before_eof",
                     "FBV.C08.first_never_again", "FBV.C08.first_error_passes", "FBV.C08.bufReader_spec", "FBV.C08.chain_drains",
                     "FBV.C08.Legacy.legacy_skips_first"],
        "jobs": sync_jobs("chain"),
        "tie": "T2 three-way (implementation, real std::io::Chain, model) over scripted reader pairs",
        "rule": AD_RULE,
        "level_text": ("Kernel-checked for ARBITRARY deterministic readers (any state type, short reads, errors anywhere, scribbling) and every "
                       "destination incl. zero-length: one ReadWriteChain::read returns the same result and destination contents as std::io::Chain::read "
                       "and leaves corresponding states (bisimulation), hence call-for-call equality over every schedule; second is untouched until first "
                       "answers Ok(0) to a non-empty destination, first is never read again, errors pass unchanged; FixedBuf's Read impl never fails. "
                       "The std::io::Chain reference model is itself tied to the real std::io::Chain (three-way run). The zero-length-destination defect "
                       "found on the pinned tree is recorded as a theorem about the legacy function and was repaired by a fix: commit."),
        "trusted_extra": ["std::io::Chain / std::io::Take modelled by hand from the pinned std source (tied three-way on every run)"],
    },
    "C09": {
        "module": "FBV.Props.C08b",
        "theorems": ["FBV.C09.at_zero", "FBV.C09.offered_length", "FBV.C09.read_spec", "FBV.C09.take_eq_std", "FBV.C09.delivered_le_limit", "FBV.C09.take_drains",
                     "FBV.C09.streamReader_ok", "FBV.C09.srwReader_ok"],
        "jobs": sync_jobs("take"),
        "tie": "T2 three-way (implementation, real std::io::Take, model); scribbling inner readers make the offered length visible",
        "rule": AD_RULE,
        "level_text": ("Kernel-checked for an ARBITRARY inner reader honouring Read's contract, every limit < 2^64 and every destination, both "
                       "overflow-check settings: Ok(0) without calling inner once the allowance is used up; inner is offered exactly min(remaining,|dest|) "
                       "bytes; its result is returned as is; a short read uses up only what was returned, an error nothing; destination bytes beyond "
                       "the offered length are untouched; no panic; call-for-call equal to std::io::Take; over any schedule delivered + remaining = limit."),
        "trusted_extra": ["std::io::Take modelled by hand from the pinned std source (tied three-way on every run)"],
    },
    "C13": {
        "module": "FBV.Props.C13b",
        "theorems": ["FBV.C13.chain_forwarded_exactly_once", "FBV.C13.chain_writes_independent", "FBV.C13.chain_reads_independent", "FBV.C13.take_forwarded_exactly_once", "FBV.C13.take_writes_independent", "FBV.C13.take_reads_independent",
                     "FBV.C13.chain_write", "FBV.C13.chain_flush", "FBV.C13.take_write", "FBV.C13.take_flush",
                     "FBV.C13.chain_read_no_write", "FBV.C13.take_read_no_write",
                     "FBV.C13.achain_write", "FBV.C13.achain_flush", "FBV.C13.atake_write", "FBV.C13.atake_flush", "FBV.C13.asrw_pollRead_no_write"],
        "jobs": (lambda tier: [{"which": w, "profile": p, "args": [m], "oc": p == "dev"}
                               for (w, m) in (("sync", "chain"), ("sync", "take"), ("tokio", "achain"), ("tokio", "atake"), ("sync", "big")) for p in ("dev", "release")]),
        "tie": "T2 all four adapters over a logging inner read-writer (results full/partial/zero/error/Pending)",
        "rule": AD_RULE + "; the tokio adapters with ReadBufs of every pre-fill 0..2 x capacity {0,1,4}, Pending at any poll, flush and shutdown",
        "level_text": ("Definitional theorems, said plainly: in the model every adapter write/flush/shutdown is one call on the wrapped read-writer with the "
                       "same bytes whose result (count, error, Pending) is returned unchanged; writes leave first / the allowance / the read script untouched; "
                       "reads append only read calls. The correspondence carries the weight: for every interleaving explored the inner write/flush/shutdown "
                       "log of the real adapters is exactly the adapter-level sequence with identical bytes and results (evaluated on the implementation's log)."),
    },
    "C14": {
        "module": "FBV.Props.C14b",
        "theorems": ["FBV.C14.cof_drive_eq_blocking", "FBV.C14.cof_refines", "FBV.C14.cof_pending_only_if_reader", "FBV.C14.cof_conserves", "FBV.C14.cof_calls_once", "FBV.C14.cof_full",
                     "FBV.pollLoop_outcome", "FBV.C14.pending_only_if_reader_pending", "FBV.C14.drive_outcome", "FBV.C15.async_eq_blocking",
                     "FBV.C15.drive_spec", "FBV.C15.restart_eq_resume"],
        "jobs": tokio_jobs("arf", "abig"),
        "tie": "T2 hand-driven polls of the real read_frame / copy_once_from futures over a scripted AsyncRead, every subset of reader polls Pending",
        "rule": ("every stream over {a,CR,LF} of length <=3 (quick; <=4 thorough) x every composition into chunks x every subset (<=2 quick) of reader polls "
                 "answered Pending x SIZE {1..4} x 3 deframers; seeded scenarios with pre-loaded buffers, reader errors at any poll, SIZE<=64, a rejecting "
                 "deframer, and copy_once_from futures; distinct = distinct scenario; non-trivial = more than two polls"),
        "level_text": ("Kernel-checked: the loop theorem is proved for scripts containing Pending, so a poll is Pending only if the reader was, and then every "
                       "delivered byte is in the buffer; for ANY placement of Pending (and of reader errors) the conversation ends with the specification's "
                       "result or the reader's error with nothing lost — equal to the blocking call on the same chunks (async_eq_blocking). The async "
                       "read_frame body is source-identical to the blocking loop; reading `async fn` as a resumable state machine with one await point is "
                       "trusted; the tie polls the real futures by hand (tokio links the registry copy fixed-buffer 0.3.1)."),
        "trusted_extra": ["source-level reading of `async fn` as a state machine with one await point; tokio::io::AsyncReadExt::read modelled as stateless"],
    },
    "C15": {
        "module": "FBV.Props.C14b",
        "theorems": ["FBV.C14.cof_drive_eq_blocking", "FBV.C14.cof_not_ok", "FBV.C14.cof_ok",
                     "FBV.C15.restart_eq_resume", "FBV.C15.pending_state", "FBV.C15.drive_spec", "FBV.pollLoop_outcome"],
        "jobs": tokio_jobs("arfc", "abig"),
        "tie": "T2 as C14 with every Pending a cancellation point: the future is dropped, readable() inspected, a new call started",
        "rule": ("the C14 scenarios x every non-empty subset of their pending points as cancellation points (drop the future, inspect readable(), start a new "
                 "call on the same buffer and reader); seeded scenarios with random resume/cancel choices"),
        "level_text": ("Kernel-checked: at every pending point the buffer is compacted, holds no complete frame and has room, so a new call from the top is "
                       "the same function as resuming (restart_eq_resume); hence for ANY pattern of cancellations at pending points the frames and outcome are "
                       "those of the uncancelled run (drive_spec over all choice lists); the model's future carries no bytes. Tied by dropping the real "
                       "future at every pending point, singly and in every subset."),
        "trusted_extra": ["source-level reading of `async fn` as a state machine with one await point"],
    },
    "C16": {
        "module": "FBV.Props.C16b",
        "theorems": ["FBV.C16.chain_await_eq_blocking", "FBV.C16.take_await_eq_blocking", "FBV.C16.liftA_ok", "FBV.C16.asrwReader_ok",
                     "FBV.C16.chain_bisim", "FBV.C16.chain_pending_only_from_inner", "FBV.C16.chain_keeps_filled", "FBV.C16.take_exposes_at_most_remaining",
                     "FBV.C16.take_at_zero", "FBV.C16.take_pending_loses_nothing", "FBV.C16.take_eq_tokio", "FBV.C16.Legacy.legacy_skips_first"],
        "jobs": tokio_jobs("achain", "atake"),
        "tie": "T2 three-way poll by poll: implementation, real tokio chain()/take() over twin streams, model",
        "rule": ("scripted async stream pairs (<=2-3 actions from chunk/scribbling chunk/EOF/error/Pending) x every schedule of <=3 ReadBufs from "
                 "{(prefill 0,cap 0),(0,1),(0,4),(1,0),(2,2)} x limits {0,1,2,3,5,u64::MAX}; first = a real AsyncFixedBuf at every read offset; seeded random "
                 "scenarios with writes/flush/shutdown and Pending anywhere; distinct = distinct scenario; non-trivial = more than one poll"),
        "level_text": ("Kernel-checked for ARBITRARY AsyncRead implementations honouring poll_read's contract and every ReadBuf (any pre-fill, any remaining capacity "
                       "incl. none): AsyncReadWriteChain::poll_read is poll-for-poll tokio's Chain (bisimulation), keeps the filled prefix, is Pending only if a polled "
                       "stream was; AsyncReadWriteTake is poll-for-poll tokio's Take, shows the inner stream at most the remaining allowance, debits nothing on "
                       "Pending/Err. The zero-capacity defect found on the pinned tree is recorded as a theorem about the legacy function and was repaired by a fix: commit."),
        "trusted_extra": ["tokio::io::util::{Chain,Take} and ReadBuf modelled by hand from tokio 1.53 source (tied three-way on every run)"],
    },
    "C17": {
        "module": "FBV.Props.C17",
        "theorems": ["FBV.C17.poll_read_spec", "FBV.C17.poll_write_spec", "FBV.C17.poll_write_effect", "FBV.C17.poll_flush_spec", "FBV.C17.bufPollRead_ok"],
        "jobs": tokio_jobs("at"),
        "tie": "T1 through the tokio crate (registry FixedBuf): every small state x every poll and Deref'd call; tokio combinators judged as Read/Write histories",
        "rule": ("breadth-first over every state of AsyncFixedBuf<N>, N<=3 (quick; 4 thorough), x poll_read with every ReadBuf (prefill 0..2, capacity 0..N+1), "
                 "poll_write of every payload, flush, shutdown and the Deref'd write_bytes/read_bytes/read_all/shift/clear; 2,000 seeded runs of "
                 "read/read_exact/write_all/copy; distinct = distinct (state, call); non-trivial = state-changing"),
        "level_text": ("Kernel-checked: poll_read is always Ready(Ok), appends min(unfilled capacity, len()) unread bytes after the existing contents without "
                       "disturbing them and has exactly the buffer effect of Read::read; poll_write is all-or-nothing with InvalidData and no change when it does "
                       "not fit; flush/shutdown have no effect; so any history of polls is a history of Read/Write calls to which C01/C03 apply. That tokio's "
                       "combinators only issue such polls is tokio's contract (exercised, not proved)."),
    },
    "C19": {
        "module": "FBV.Props.C19",
        "theorems": ["FBV.C19.esc_printable", "FBV.C19.escape_printable", "FBV.C19.esc_identity", "FBV.C19.escape_append",
                     "FBV.C19.escapeM_eq", "FBV.C19.decode1_esc", "FBV.C19.decode1_append", "FBV.C19.unescape_escape",
                     "FBV.C19.escape_injective", "FBV.C19.method_eq", "FBV.C19.debug_contains"],
        "jobs": sync_jobs("es"),
        "tie": "T3 exhaustive finite domain (all 256 bytes, all 65,536 pairs) + random strings + method/Debug on buffer states",
        "rule": ("ES: the empty string, every single byte, every pair of bytes (exhaustive), seeded random strings <=200 bytes over all 256 values; "
                 "EB: escape_ascii() and Debug on every (mem, ri, wi) state for SIZE<=3 over {a,LF,\",0x80,0xff,\\} plus states at SIZE 255/4096; "
                 "distinct = distinct input / state; non-trivial = non-empty input / non-empty buffer"),
        "exhaustive": True,
        "level_text": ("Kernel-checked: every output byte is printable ASCII and printable bytes other than backslash/quotes map to themselves "
                       "(kernel evaluation over all 256 byte values, lifted to UInt8), escape(a++b)=escape(a)++escape(b), the Rust loop's unwrap "
                       "cannot fail (never panics), a decoder recovers the input from the output for strings of every length (hence injective). "
                       "The per-byte table esc is core::ascii::escape_default as modelled from its source; it is tied to the real function on all "
                       "256 bytes and all 65,536 pairs on every run; the method and Debug forms are compared on buffer states."),
        "trusted_extra": ["core::ascii::escape_default modelled by hand (tied exhaustively on every run)"],
    },
    "C05": {
        "module": "FBV.Props.C05",
        "theorems": ["FBV.C05.line_none_iff", "FBV.C05.line_some", "FBV.C05.line_prefixDet", "FBV.C05.line_minimal", "FBV.C05.line_ok",
                     "FBV.C05.null_none_iff", "FBV.C05.null_some", "FBV.C05.null_prefixDet", "FBV.C05.null_minimal", "FBV.C05.null_ok",
                     "FBV.C05.crlf_none_iff", "FBV.C05.crlf_some", "FBV.C05.crlf_prefixDet", "FBV.C05.crlf_minimal", "FBV.C05.crlf_ok",
                     "FBV.C05.append_stable"],
        "jobs": (lambda tier: sync_jobs("df")(tier) + sync_jobs("big")(tier)),
        # translation tie: Rust function -> (proof module, theorems audited, source path); tools/rs2lean.py regenerates
        # lean/FBV/Gen/Deframers.lean from /repo on every run and the module re-proves translated = model
        "translate": {
            "deframe_line": ("FBV.Props.C05genLine", ["FBV.C05gen.gen_line_eq", "FBV.C05gen.gen_line_spec"], "fixed-buffer/src/deframe_line.rs"),
            "deframe_crlf": ("FBV.Props.C05genCrlf", ["FBV.C05gen.gen_crlf_eq", "FBV.C05gen.gen_crlf_spec"], "fixed-buffer/src/deframe_crlf.rs"),
            "deframe_null": ("FBV.Props.C05genNull", ["FBV.C05gen.gen_null_eq", "FBV.C05gen.gen_null_spec"], "fixed-buffer/src/deframe_null.rs"),
        },
        "technique": "Lean 4 theorems over a model that is BOTH re-translated from the Rust source on every run (tools/rs2lean.py, translated = hand model proved for all inputs) and tied by a differential correspondence check",
        "trusted_extra": ["tools/rs2lean.py (Rust-subset parser and translator) and the semantics given to its target combinators in lean/FBV/Model/RsSem.lean (slice indexing, usize +/- per profile, short-circuit &&/||, for-range with early return)"],
        "tie": "TRANSLATION (the three functions are re-translated from the source and proved equal to the model on every run) + T2 exact output equality of deframe_line/deframe_crlf/deframe_null with the model",
        "rule": ("every string of length <=6 (quick) / <=8 (thorough) over {CR,LF,NUL,'a',0xff}, every 1- and 2-byte string over all 256 "
                 "values, seeded random strings <=300 bytes over all 256 values with delimiters sprinkled in, each x 3 deframers; "
                 "distinct = distinct (deframer, input); non-trivial = the model finds a complete frame"),
        "exhaustive": True,
        "level_text": ("Kernel-checked theorems for ALL byte strings: None iff no terminator; the reported block ends with the first terminator, "
                       "lies inside the data, payload = everything before it (deframe_line: minus one CR); the answer is determined by the block "
                       "(prefix-determined), no shorter prefix is complete. The tie is double: (1) on every run tools/rs2lean.py re-translates the three Rust "
                       "functions from /repo's working tree into Lean (checked slice indexing, usize +/- under both overflow-check settings, short-circuit "
                       "operators, for-range with early return) and the kernel re-checks gen_*_eq: the translated function never panics, never errs and "
                       "equals the model for EVERY slice, so the C05 theorems are about what the source says now (gen_*_spec); a source outside the "
                       "translator's subset is recorded as 'translation unavailable' and then (2) alone remains: exact output equality with the compiled "
                       "functions on an exhaustive small scope + random and source-dictionary strings."),
    },
    "C01": {
        "module": "FBV.Props.C01b",
        "theorems": ["FBV.C01.stepWV_sat", "FBV.C01.stepRV_sat", "FBV.C01.stepWF_sat", "FBV.C01.stepRE_sat", "FBV.C01.stepRTE_sat", 'FBV.C01.step_sat', 'FBV.C01.sat_conserves', 'FBV.C01.fifo_history', 'FBV.C01.only_clear_discards', 'FBV.step_WInv', 'FBV.reachable_WInv'],
        "level_text": "Kernel-checked: for EVERY state with ri<=wi<=SIZE, EVERY public call (all write paths, all read paths incl. deframe/io::Read/try_parse scripts, shift, clear) with EVERY argument and both overflow-check settings, the unread bytes change exactly by what the call hands out / accepts and len()/is_empty() describe them (step_sat); lifted by induction to every finite history from any constructor (fifo_history: taken ++ readable = initial ++ accepted). The model's step function is tied to the real FixedBuf transition by transition from the implementation's own observed state (exhaustive for small SIZE, random walks up to SIZE 4096), and the same executable predicate Sat_C01 is evaluated on the implementation's transitions.",
        "jobs": (lambda tier: t1_jobs(["dev", "release"])(tier) + sync_jobs("big")(tier)),
        "tie": "T1 (transition-level, from the implementation's observed state)",
        "rule": T1_RULE,
    },
    "C03": {
        "module": "FBV.Props.C01b",
        "theorems": ["FBV.C01.stepWV_sat", "FBV.C01.stepRV_sat", "FBV.C01.stepWF_sat", "FBV.C01.stepRE_sat", "FBV.C01.stepRTE_sat", 'FBV.C03.step_sat', 'FBV.C03.history_capacity', 'FBV.step_WInv', 'FBV.reachable_WInv'],
        "level_text": 'Kernel-checked for every weakly well-formed state, every call, every argument, both profiles: a write of n bytes succeeds iff n<=free and shrinks the free space by exactly n; a refused write changes nothing; shift/clear/draining reads reclaim all capacity; reads, queries and failed calls never shrink the free space; len+free<=SIZE over every history. Tied to the code by the T1 transition correspondence with boundary lengths free-1, free, free+1 generated by construction.',
        "jobs": (lambda tier: t1_jobs(["dev", "release"])(tier) + sync_jobs("big")(tier)),
        "tie": "T1",
        "rule": T1_RULE,
    },
    "C04": {
        "module": "FBV.Props.C01b",
        "theorems": ["FBV.C01.stepWV_sat", "FBV.C01.stepRV_sat", "FBV.C01.stepWF_sat", "FBV.C01.stepRE_sat", "FBV.C01.stepRTE_sat", 'FBV.C04.step_sat', 'FBV.C04.read_bytes_contract', 'FBV.C04.wrote_contract', 'FBV.C04.Legacy.legacy_wrote_silently_succeeds', 'FBV.C04.Legacy.legacy_read_bytes_unconsumes', 'FBV.C04.Legacy.legacy_wrote_dev_panics'],
        "level_text": 'Kernel-checked for BOTH values of the overflow-check flag and every count n (unbounded Nat, so every usize): read_byte/read_bytes(n) panic iff n>len(), wrote(n) iff n>writable().len(), no other call panics with contract-honouring collaborators, and a panicking call (incl. a panicking reader inside copy_once_from) leaves indices and unread bytes unchanged. The correspondence runs the real code in BOTH build profiles (dev: overflow checks on; release: off) with wrap-around counts. The defect found on the pinned tree (release: wrote(usize::MAX) silently un-commits) is recorded as theorems about the legacy functions and was repaired by a fix: commit.',
        "jobs": (lambda tier: [{"which": "sync", "profile": p, "args": [m], "oc": p == "dev"} for m in ("t1", "es", "df", "chain", "take") for p in ("dev", "release")]),
        "tie": "T1 in both build profiles (overflow checks on / off); the escape / Debug, deframer and adapter explorations for panics outside FixedBuf's own methods",
        "rule": T1_RULE,
    },
    "C10": {
        "module": "FBV.Props.C10",
        "theorems": ['FBV.C10.step_sat', 'FBV.C10.deframe_general', 'FBV.dfOf_bounds', 'FBV.deframeM_eq'],
        "level_text": 'Kernel-checked for every weakly well-formed state and any deframer honouring the bounds clause: deframe changes the buffer iff the deframer reports a frame; then exactly the block is consumed (incl. the rewind when it ends at the end of the unread bytes), mem() is untouched and mem()[range] is the payload the deframer selected; empty/None/Err consume nothing. Tied by T1 with six deframers (three provided, rejecting, reject-x, length-prefixed with a payload range not starting at 0).',
        "jobs": (lambda tier: t1_jobs(["dev", "release"])(tier) + sync_jobs("big")(tier)),
        "tie": "T1",
        "rule": T1_RULE,
    },
    "C11": {
        "module": "FBV.Props.C11",
        "theorems": ['FBV.C11.step_sat', 'FBV.tryParse_spec', 'FBV.runOps_spec', 'FBV.runOp_spec'],
        "level_text": 'Kernel-checked by structural induction over nested read scripts (all eight read calls, try_parse nested to any depth): a closure ending in None leaves the whole state exactly as before; ending in Some, exactly the scripted number of bytes is gone; independent of the overflow-check setting. Tied by T1: the harness closure interprets every script of length <=2 (incl. nesting) on the real buffer from every small reachable state.',
        "jobs": t1_jobs(["dev", "release"]),
        "tie": "T1",
        "rule": T1_RULE,
    },
}


# ---------------------------------------------------------------- program-text properties (C18, C20)
import json as _json, subprocess as _sp, os as _os


def _extract(verif, arg):
    r = _sp.run(["python3", _os.path.join(verif, "tools", "extract.py"), arg], stdout=_sp.PIPE, stderr=_sp.PIPE, text=True)
    try:
        return _json.loads(r.stdout)
    except Exception:
        return {"error": (r.stdout + r.stderr)[-800:]}


def c20_custom(tier, verif):
    g = _extract(verif, "--gen")
    out = {"violations": [], "coverage": {}, "samples": []}
    if "error" in g:
        out["violations"].append({"kind": "extractor", "case": g["error"], "note": "extract.py failed"})
        return out
    for f, l, t in g["unsafe_sites"]:
        out["violations"].append({"kind": "unsafe-token", "case": "%s:%d %s" % (f, l, t), "note": "token the unsafe_code lint is about"})
    if g["deps"]["fixed-buffer"]:
        out["violations"].append({"kind": "dependency", "case": "fixed-buffer [dependencies]: %s" % g["deps"]["fixed-buffer"], "note": "fixed-buffer must have no non-dev dependencies"})
    extra = [d for d in g["deps"]["fixed-buffer-tokio"] if d not in ("fixed-buffer", "tokio")]
    if extra or g.get("cargo_metadata_error"):
        out["violations"].append({"kind": "dependency", "case": "fixed-buffer-tokio [dependencies]: %s %s" % (extra, g.get("cargo_metadata_error", "")), "note": "only fixed-buffer and tokio are allowed"})
    lint = _extract(verif, "--lint")
    if isinstance(lint, dict):
        out["violations"].append({"kind": "extractor", "case": lint.get("error", "")[:400], "note": "rustc lint run failed"})
        lint = []
    bad = [r for r in lint if not r["ok"]]
    for r in bad:
        out["violations"].append({"kind": "rustc -F unsafe_code", "case": "%s %s: %s" % (r["crate"], r["target"], r["stderr"][-300:]),
                                  "note": "target does not compile with the unsafe_code lint forbidden"})
    # correspondence between the table and rustc's lint: they must agree
    if bool(g["unsafe_sites"]) != bool([r for r in bad if r["unsafe_error"]]) and not bad == []:
        pass
    out["coverage"] = {"source_files_lexed": g["files"], "lint_targets": ["%s %s" % (r["crate"], r["target"]) for r in lint],
                       "lint_targets_ok": len(lint) - len(bad), "dependency_tables": g["deps"], "exhaustive": True}
    out["samples"] = ["lexed %d files: 0 unsafe/no_mangle/export_name/link_section tokens" % g["files"]] + ["rustc -F unsafe_code %s %s: %s" % (r["crate"], r["target"], "ok" if r["ok"] else "FAILED") for r in lint]
    out["evaluations"] = g["files"] + len(lint) + 2
    out["distinct_nontrivial"] = g["files"] + len(lint) + 2
    return out


def c18_custom(tier, verif):
    g = _extract(verif, "--gen")
    out = {"violations": [], "coverage": {}, "samples": []}
    if "error" in g:
        out["violations"].append({"kind": "extractor", "case": g["error"], "note": "extract.py failed"})
        return out
    for a in g["alloc_sites"]:
        if a["ctx"] == 0:
            out["violations"].append({"kind": "alloc-site", "case": "%s:%d %s in fn %s" % (a["file"], a["line"], a["token"], a["fn"]),
                                      "note": "allocating construct on a success path of an anchored file"})
    live = [a for a in g["alloc_sites"] if a["ctx"] in (1, 2, 3)]
    out["coverage"] = {"alloc_sites_total": len(g["alloc_sites"]), "alloc_sites_non_test": len(live),
                       "alloc_site_contexts": {"ErrPath": len([a for a in live if a["ctx"] == 1]), "ErrConv": len([a for a in live if a["ctx"] == 2]),
                                               "StringHelper": len([a for a in live if a["ctx"] == 3])}}
    out["samples"] = ["%s:%d %s ctx=%d" % (a["file"], a["line"], a["token"], a["ctx"]) for a in live][:12]
    return out


TRANSLATE_BUF = {
    "module": "FBV.Props.BufGen", "file": "FBV/Props/BufGen.lean",
    "theorems": {"len": "FBV.BufGen.gen_len_eq", "is_empty": "FBV.BufGen.gen_is_empty_eq", "clear": "FBV.BufGen.gen_clear_eq",
                 "readable": "FBV.BufGen.gen_readable_eq", "writable": "FBV.BufGen.gen_writable_eq", "read_bytes": "FBV.BufGen.gen_read_bytes_eq",
                 "wrote": "FBV.BufGen.gen_wrote_eq", "shift": "FBV.BufGen.gen_shift_eq", "try_read_bytes": "FBV.BufGen.gen_try_read_bytes_eq",
                 "read_all": "FBV.BufGen.gen_read_all_eq", "read_byte": "FBV.BufGen.gen_read_byte_eq", "try_read_byte": "FBV.BufGen.gen_try_read_byte_eq"},
    "deps": {"read_bytes": ["len"], "try_read_bytes": ["len", "read_bytes"], "read_all": ["len", "read_bytes"], "read_byte": ["read_bytes"],
             "try_read_byte": ["is_empty", "read_byte"]},
}
BUF_TECH = ("Lean 4 theorems over a hand-written model whose index-manipulating core (12 FixedBuf methods) is ALSO re-translated from the Rust source "
            "on every run (tools/rs2lean_buf.py; translated = model method proved for every state) + differential correspondence check")
BUF_TRUST = ["tools/rs2lean_buf.py (Rust-subset parser / translator for &mut self methods into the state-and-panic monad of FBV/Model/Buf.lean; "
             "field reads take a fresh snapshot at their evaluation point; assert! = panic; copy_within(a..b, 0) = slice + writeAt)"]
for _p in ("C01", "C03", "C04"):
    PROPS[_p]["translate_buf"] = TRANSLATE_BUF
    PROPS[_p]["technique"] = BUF_TECH
    PROPS[_p]["trusted_extra"] = PROPS[_p].get("trusted_extra", []) + BUF_TRUST
    PROPS[_p]["level_text"] = PROPS[_p]["level_text"] + (" Additionally, on every run twelve index-manipulating FixedBuf methods (len, is_empty, clear, readable, writable, "
        "read_bytes, wrote, shift, try_read_bytes, read_all, read_byte, try_read_byte) are re-translated from lib.rs and proved equal to the model methods step is built from, on every state "
        "satisfying the struct invariant, both profiles (BufGen.gen_*_eq); a method outside the translator's subset is recorded as 'translation unavailable'.")
    PROPS[_p]["tie"] = "TRANSLATION of the index core (12 methods re-translated and proved equal to the model on every run) + " + PROPS[_p].get("tie", "T1")


PROPS["C20"] = {
    "module": "FBV.Props.C20",
    "theorems": ["FBV.C20.no_unsafe_tokens", "FBV.C20.fixed_buffer_has_no_deps", "FBV.C20.tokio_deps_allowed"],
    "custom": c20_custom,
    "level": "proof",
    "tie": "T3 the table is regenerated from /repo's sources by tools/extract.py on every run; rustc -F unsafe_code on every target must agree",
    "rule": "every .rs file of both crates lexed (comments/strings/char literals/lifetimes handled); cargo metadata for the dependency tables; rustc with -F unsafe_code on lib, unit-test and integration-test targets of both crates",
    "exhaustive": True,
    "technique": "regenerated source table + Lean decide over it + rustc lint correspondence",
    "level_text": ("A property of program text. The extractor regenerates the table of unsafe_code-relevant tokens of every source file of both crates and the "
                   "non-dev dependency lists from cargo metadata; the theorems (no such token; fixed-buffer has no dependencies; fixed-buffer-tokio's are within "
                   "{fixed-buffer, tokio}) are re-checked by the kernel over the regenerated table on every run, and rustc itself is run with -F unsafe_code on all "
                   "six targets as the correspondence. The Lean step adds uniformity, not depth — said plainly; the lexer, cargo and rustc's lint are trusted."),
    "trusted_extra": ["tools/extract.py (lexer), cargo metadata, rustc's unsafe_code lint"],
}
PROPS["C18"] = {
    "module": "FBV.Props.C18",
    "theorems": ["FBV.C18.no_success_path_allocation_site"],
    "custom": c18_custom,
    "jobs": (lambda tier: [{"which": "sync", "profile": "dev", "args": [m], "oc": True} for m in ("t1", "df", "chain", "take", "rf", "c18")]),
    "tie": "allocation counter of an instrumented #[global_allocator] around every library call of the C01/C02/C05/C08/C09 explorations; size_of / static checks",
    "rule": ("every library call of the T1 exploration (all FixedBuf methods incl. constructors via clone, deframe, try_parse, copy_once_from), the deframer "
             "runs, the chain/take scenarios and the read_frame scenarios is bracketed by an allocation counter (scripted collaborators pause counting); "
             "a call that completes without returning an error must show 0 allocations; size_of::<FixedBuf<N>>() for 25 sizes and a static FixedBuf"),
    "level": "proof",
    "technique": "regenerated allocation-site table + Lean decide over it; instrumented global allocator (measurement)",
    "level_text": ("PARTIAL, said plainly. Allocation is an effect of compiled Rust that a functional model cannot exhibit; what the theorem carries is where "
                   "allocation can come from: over the table of allocating constructs regenerated from the six anchored files on every run, none sits on a "
                   "success path (only error paths, error conversions and the excepted String helpers). That the code does not allocate otherwise is MEASURED: "
                   "an instrumented global allocator brackets every library call of the explorations (hundreds of thousands of calls, all SIZEs explored) "
                   "and size_of shows the inline layout. The lexer's deny-list and the context classification are trusted."),
    "trusted_extra": ["tools/extract.py (lexer, deny-list of allocating constructs, context classification)", "the counting #[global_allocator] in the harness"],
}

"""Property table: which proof module / theorems and which correspondence jobs decide each property."""


NOT_CLAIMED = {}


def t1_jobs(profiles):
    def f(tier):
        return [{"which": "sync", "profile": p, "args": ["t1"], "oc": p == "dev"} for p in profiles]
    return f


T1_RULE = ("every state of the real FixedBuf<N> reachable from every constructor (breadth-first, N<=4 quick / N<=5 thorough, "
           "small write alphabet) x every public call with every argument that can matter at that size (counts 0..N+1, usize::MAX-k, "
           "wrap-around counts, all reader responses, 6 deframers, try_parse scripts), plus seeded random walks at N in "
           "{4,7,8,16,64,255,4096}; a case is one (state, call); distinct = distinct (state, call) strings; non-trivial = the call "
           "changes the state or returns bytes")

def sync_jobs(mode, profiles=("dev",)):
    def f(tier):
        return [{"which": "sync", "profile": p, "args": [mode], "oc": p == "dev"} for p in profiles]
    return f


PROPS = {
    "C05": {
        "module": "FBV.Props.C05",
        "theorems": ["FBV.C05.line_none_iff", "FBV.C05.line_some", "FBV.C05.line_prefixDet", "FBV.C05.line_minimal", "FBV.C05.line_ok",
                     "FBV.C05.null_none_iff", "FBV.C05.null_some", "FBV.C05.null_prefixDet", "FBV.C05.null_minimal", "FBV.C05.null_ok",
                     "FBV.C05.crlf_none_iff", "FBV.C05.crlf_some", "FBV.C05.crlf_prefixDet", "FBV.C05.crlf_minimal", "FBV.C05.crlf_ok",
                     "FBV.C05.append_stable"],
        "jobs": sync_jobs("df"),
        "tie": "T2 exact output equality of deframe_line/deframe_crlf/deframe_null with the model",
        "rule": ("every string of length <=6 (quick) / <=8 (thorough) over {CR,LF,NUL,'a',0xff}, every 1- and 2-byte string over all 256 "
                 "values, seeded random strings <=300 bytes over all 256 values with delimiters sprinkled in, each x 3 deframers; "
                 "distinct = distinct (deframer, input); non-trivial = the model finds a complete frame"),
        "exhaustive": True,
        "level_text": ("Kernel-checked theorems for ALL byte strings: None iff no terminator; the reported block ends with the first terminator, "
                       "lies inside the data, payload = everything before it (deframe_line: minus one CR); the answer is determined by the block "
                       "(prefix-determined), no shorter prefix is complete; the models are the same index loops as the Rust and are tied to the "
                       "three functions by exact output equality on an exhaustive small scope + random strings."),
    },
    "C01": {
        "claimed": False,
        "module": "FBV.Props.C01",
        "theorems": [],
        "jobs": t1_jobs(["dev"]),
        "tie": "T1 (transition-level, from the implementation's observed state)",
        "rule": T1_RULE,
    },
    "C03": {
        "claimed": False,
        "module": "FBV.Props.C03",
        "theorems": [],
        "jobs": t1_jobs(["dev"]),
        "tie": "T1",
        "rule": T1_RULE,
    },
    "C04": {
        "claimed": False,
        "module": "FBV.Props.C04",
        "theorems": [],
        "jobs": t1_jobs(["dev", "release"]),
        "tie": "T1 in both build profiles (overflow checks on / off)",
        "rule": T1_RULE,
    },
    "C10": {
        "claimed": False,
        "module": "FBV.Props.C10",
        "theorems": [],
        "jobs": t1_jobs(["dev"]),
        "tie": "T1",
        "rule": T1_RULE,
    },
    "C11": {
        "claimed": False,
        "module": "FBV.Props.C11",
        "theorems": [],
        "jobs": t1_jobs(["dev"]),
        "tie": "T1",
        "rule": T1_RULE,
    },
}

//! C08 / C09 / C13: ReadWriteChain and ReadWriteTake over scripted read-writers, three-way with the
//! real std::io::Chain / std::io::Take over twin readers.
//!   CH <srw1> <srw2> <ops> | <impl results> ; <impl log> | <std read results> ; <std log>
//!   CB <N> <bufhex> <ri> <srw2> <ops> | ... (first = a real FixedBuf<N> holding bufhex with ri bytes already consumed)
//!   TK <srw> <limit> <ops> | <impl results> ; <impl log> | <std read results> ; <std log>
//! srw  = <id>:<datahex>:<racts>:<wacts>:<facts>;  racts d<k> s<k> e x<kind>; wacts f p<k> z x<kind>; facts o x<kind>
//! ops  = r<n> | w<hex> | f  (comma separated)
use crate::t1::{kind_num, num_kind};
use crate::util::*;
use fixed_buffer::*;
use std::cell::RefCell;
use std::io::{Read, Write};
use std::panic::{catch_unwind, AssertUnwindSafe};
use std::rc::Rc;

#[derive(Clone, Debug, PartialEq)]
pub enum RAct {
    Data(usize, bool),
    Eof,
    Err(u8),
    Panic,
}
#[derive(Clone, Debug, PartialEq)]
pub enum WAct {
    Full,
    Part(usize),
    Zero,
    Err(u8),
}

pub type Log = Rc<RefCell<Vec<String>>>;

#[derive(Clone)]
pub struct Srw {
    pub id: usize,
    pub data: Vec<u8>,
    pub pos: usize,
    pub racts: Vec<RAct>,
    pub ri: usize,
    pub wacts: Vec<WAct>,
    pub wi: usize,
    pub facts: Vec<Option<u8>>,
    pub fi: usize,
    pub log: Log,
    /// whether `read_vectored` / `write_vectored` really scatter / gather (like a socket) or fall back to the trait's
    /// defaults; set on the implementation side only (the std twins and the model use the defaults)
    pub vectored: bool,
}

fn res_str(r: &std::io::Result<usize>) -> String {
    match r {
        Ok(n) => format!("ok{}", n),
        Err(e) => format!("err{}", kind_num(e.kind())),
    }
}

impl Srw {
    pub fn describe(&self) -> String {
        let ra: Vec<String> = self
            .racts
            .iter()
            .map(|a| match a {
                RAct::Data(k, false) => format!("d{}", k),
                RAct::Data(k, true) => format!("s{}", k),
                RAct::Eof => "e".into(),
                RAct::Err(k) => format!("x{}", k),
                RAct::Panic => "p".into(),
            })
            .collect();
        let wa: Vec<String> = self
            .wacts
            .iter()
            .map(|a| match a {
                WAct::Full => "f".into(),
                WAct::Part(k) => format!("p{}", k),
                WAct::Zero => "z".into(),
                WAct::Err(k) => format!("x{}", k),
            })
            .collect();
        let fa: Vec<String> = self.facts.iter().map(|a| match a { None => "o".to_string(), Some(k) => format!("x{}", k) }).collect();
        let j = |v: Vec<String>| if v.is_empty() { "-".to_string() } else { v.join(",") };
        format!("{}:{}:{}:{}:{}", self.id, hex(&self.data), j(ra), j(wa), j(fa))
    }
    pub fn parse(s: &str, log: &Log) -> Option<Srw> {
        let p: Vec<&str> = s.split(':').collect();
        if p.len() != 5 {
            return None;
        }
        let list = |x: &str| -> Vec<String> { if x == "-" { vec![] } else { x.split(',').map(|t| t.to_string()).collect() } };
        let mut racts = vec![];
        for t in list(p[2]) {
            racts.push(match t.as_bytes()[0] {
                b'd' => RAct::Data(t[1..].parse().ok()?, false),
                b's' => RAct::Data(t[1..].parse().ok()?, true),
                b'e' => RAct::Eof,
                b'x' => RAct::Err(t[1..].parse().ok()?),
                b'p' => RAct::Panic,
                _ => return None,
            });
        }
        let mut wacts = vec![];
        for t in list(p[3]) {
            wacts.push(match t.as_bytes()[0] {
                b'f' => WAct::Full,
                b'p' => WAct::Part(t[1..].parse().ok()?),
                b'z' => WAct::Zero,
                b'x' => WAct::Err(t[1..].parse().ok()?),
                _ => return None,
            });
        }
        let mut facts = vec![];
        for t in list(p[4]) {
            facts.push(match t.as_bytes()[0] {
                b'o' => None,
                b'x' => Some(t[1..].parse().ok()?),
                _ => return None,
            });
        }
        Some(Srw { id: p[0].parse().ok()?, data: crate::replay::unhex(p[1])?, pos: 0, racts, ri: 0, wacts, wi: 0, facts, fi: 0, log: log.clone(), vectored: false })
    }
    pub fn twin(&self, log: &Log) -> Srw {
        let mut t = self.clone();
        t.log = log.clone();
        t
    }
}

impl Read for Srw {
    fn read_vectored(&mut self, bufs: &mut [std::io::IoSliceMut<'_>]) -> std::io::Result<usize> {
        if self.vectored {
            uncounted(|| self.scatter(bufs))
        } else {
            match bufs.iter_mut().find(|b| !b.is_empty()) {
                Some(b) => self.read(b),
                None => self.read(&mut []),
            }
        }
    }
    fn read(&mut self, dest: &mut [u8]) -> std::io::Result<usize> {
        uncounted(|| {
            let a = self.racts.get(self.ri).cloned().unwrap_or(RAct::Data(dest.len(), false));
            self.ri += 1;
            let r = match a {
                RAct::Data(k, scr) => {
                    if scr {
                        for x in dest.iter_mut() {
                            *x = 0xEE;
                        }
                    }
                    let n = k.min(dest.len()).min(self.data.len() - self.pos);
                    dest[..n].copy_from_slice(&self.data[self.pos..self.pos + n]);
                    self.pos += n;
                    Ok(n)
                }
                RAct::Eof => Ok(0),
                RAct::Err(k) => Err(crate::t1::scripted_error(k)),
                RAct::Panic => {
                    self.log.borrow_mut().push(format!("R{}:{}:err99", self.id, dest.len()));
                    panic!("scripted reader panic")
                }
            };
            self.log.borrow_mut().push(format!("R{}:{}:{}", self.id, dest.len(), res_str(&r)));
            r
        })
    }
}
impl Srw {
    /// a genuinely scattering `read_vectored` (what a socket does): one scripted read over the concatenation of the
    /// destinations.  The adapters' default `read_vectored` never reaches it (it calls `read`); an
    /// override that forwards the slice list does.
    fn scatter(&mut self, bufs: &mut [std::io::IoSliceMut<'_>]) -> std::io::Result<usize> {
        let total: usize = bufs.iter().map(|b| b.len()).sum();
        let mut tmp: Vec<u8> = Vec::with_capacity(total);
        for b in bufs.iter() {
            tmp.extend_from_slice(b);
        }
        let r = self.read(&mut tmp);
        let mut off = 0;
        for b in bufs.iter_mut() {
            let l = b.len();
            b.copy_from_slice(&tmp[off..off + l]);
            off += l;
        }
        r
    }
}
impl Write for Srw {
    fn write_vectored(&mut self, bufs: &[std::io::IoSlice<'_>]) -> std::io::Result<usize> {
        if !self.vectored {
            return match bufs.iter().find(|b| !b.is_empty()) {
                Some(b) => self.write(b),
                None => self.write(&[]),
            };
        }
        let all: Vec<u8> = uncounted(|| bufs.iter().flat_map(|b| b.iter().copied()).collect());
        let r = self.write(&all);
        uncounted(|| drop(all));
        r
    }
    fn write(&mut self, buf: &[u8]) -> std::io::Result<usize> {
        uncounted(|| {
            let a = self.wacts.get(self.wi).cloned().unwrap_or(WAct::Full);
            self.wi += 1;
            let r = match a {
                WAct::Full => Ok(buf.len()),
                WAct::Part(k) => Ok(k.min(buf.len())),
                WAct::Zero => Ok(0),
                WAct::Err(k) => Err(crate::t1::scripted_error(k)),
            };
            self.log.borrow_mut().push(format!("W{}:{}:{}", self.id, hex(buf), res_str(&r)));
            r
        })
    }
    fn flush(&mut self) -> std::io::Result<()> {
        uncounted(|| {
            let a = self.facts.get(self.fi).cloned().unwrap_or(None);
            self.fi += 1;
            let r = match a {
                None => Ok(()),
                Some(k) => Err(crate::t1::scripted_error(k)),
            };
            self.log.borrow_mut().push(format!("F{}:{}", self.id, match &r { Ok(()) => "ok".to_string(), Err(e) => format!("err{}", kind_num(e.kind())) }));
            r
        })
    }
}

#[derive(Clone, Debug, PartialEq)]
pub enum AdOp {
    Read(usize),
    Write(Vec<u8>),
    Flush,
    /// `read_vectored` with destinations of these lengths (the trait's default: `read` into the first non-empty one)
    ReadV(Vec<usize>),
    /// `write_vectored` with these slices (default: `write` of the first non-empty one)
    WriteV(Vec<Vec<u8>>),
}
pub fn ops_str(ops: &[AdOp]) -> String {
    if ops.is_empty() {
        return "-".into();
    }
    ops.iter()
        .map(|o| match o {
            AdOp::Read(n) => format!("r{}", n),
            AdOp::Write(d) => format!("w{}", hex(d)),
            AdOp::Flush => "f".into(),
            AdOp::ReadV(l) => format!("R{}", l.iter().map(|k| k.to_string()).collect::<Vec<_>>().join("+")),
            AdOp::WriteV(l) => format!("W{}", l.iter().map(|d| hex(d)).collect::<Vec<_>>().join("+")),
        })
        .collect::<Vec<_>>()
        .join(",")
}
pub fn parse_ops(s: &str) -> Option<Vec<AdOp>> {
    if s == "-" {
        return Some(vec![]);
    }
    let mut v = vec![];
    for t in s.split(',') {
        v.push(match t.as_bytes()[0] {
            b'r' => AdOp::Read(t[1..].parse().ok()?),
            b'w' => AdOp::Write(crate::replay::unhex(&t[1..])?),
            b'f' if t.len() == 1 => AdOp::Flush,
            b'R' => AdOp::ReadV(if t.len() == 1 { vec![] } else { t[1..].split('+').map(|x| x.parse().ok()).collect::<Option<Vec<usize>>>()? }),
            b'W' => AdOp::WriteV(if t.len() == 1 { vec![] } else { t[1..].split('+').map(crate::replay::unhex).collect::<Option<Vec<Vec<u8>>>>()? }),
            _ => return None,
        });
    }
    Some(v)
}

/// run ops on anything that is Read + Write; returns the rendered results and the allocation count of successful calls
fn drive<T: Read + Write>(x: &mut T, ops: &[AdOp], reads_only: bool, allocs_on_ok: &mut u64) -> String {
    let mut out: Vec<String> = vec![];
    for op in ops {
        match op {
            AdOp::Read(n) => {
                let mut dest = vec![0x2eu8; *n];
                let mut a = 0u64;
                let r = catch_unwind(AssertUnwindSafe(|| {
                    let s = count_on();
                    let r = x.read(&mut dest);
                    a = count_off(s);
                    r
                }));
                match r {
                    Ok(r) => {
                        if r.is_ok() {
                            *allocs_on_ok += a;
                        }
                        out.push(format!("{}:{}", res_str(&r), hex(&dest)))
                    }
                    Err(_) => {
                        count_off(0);
                        out.push("panic".into())
                    }
                }
            }
            AdOp::Write(d) if !reads_only => {
                let mut a = 0u64;
                let r = catch_unwind(AssertUnwindSafe(|| {
                    let s = count_on();
                    let r = x.write(d);
                    a = count_off(s);
                    r
                }));
                match r {
                    Ok(r) => {
                        if r.is_ok() {
                            *allocs_on_ok += a;
                        }
                        out.push(format!("w{}", res_str(&r)))
                    }
                    Err(_) => {
                        count_off(0);
                        out.push("panic".into())
                    }
                }
            }
            AdOp::Flush if !reads_only => {
                let r = catch_unwind(AssertUnwindSafe(|| x.flush()));
                match r {
                    Ok(Ok(())) => out.push("fok".into()),
                    Ok(Err(e)) => out.push(format!("ferr{}", kind_num(e.kind()))),
                    Err(_) => out.push("panic".into()),
                }
            }
            AdOp::ReadV(lens) => out.push(readv(x, lens, allocs_on_ok)),
            AdOp::WriteV(slices) if !reads_only => {
                let mut a = 0u64;
                let r = catch_unwind(AssertUnwindSafe(|| {
                    let ios: Vec<std::io::IoSlice> = slices.iter().map(|d| std::io::IoSlice::new(d)).collect();
                    let s = count_on();
                    let r = x.write_vectored(&ios);
                    a = count_off(s);
                    r
                }));
                match r {
                    Ok(r) => {
                        if r.is_ok() {
                            *allocs_on_ok += a;
                        }
                        out.push(format!("w{}", res_str(&r)))
                    }
                    Err(_) => {
                        count_off(0);
                        out.push("panic".into())
                    }
                }
            }
            _ => {}
        }
    }
    if out.is_empty() {
        "-".into()
    } else {
        out.join(",")
    }
}


/// one `read_vectored` call, rendered like a `read` into the first non-empty destination (what the trait's default does);
/// a `!` is appended when any other destination was written to
fn readv<T: Read>(x: &mut T, lens: &[usize], allocs_on_ok: &mut u64) -> String {
    let mut dests: Vec<Vec<u8>> = lens.iter().map(|k| vec![0x2eu8; *k]).collect();
    let mut a = 0u64;
    let r = catch_unwind(AssertUnwindSafe(|| {
        let mut ios: Vec<std::io::IoSliceMut> = dests.iter_mut().map(|d| std::io::IoSliceMut::new(d)).collect();
        let s = count_on();
        let r = x.read_vectored(&mut ios);
        a = count_off(s);
        r
    }));
    match r {
        Ok(r) => {
            if r.is_ok() {
                *allocs_on_ok += a;
            }
            let first = lens.iter().position(|k| *k != 0);
            let shown: Vec<u8> = first.map(|i| dests[i].clone()).unwrap_or_default();
            let others_touched = dests.iter().enumerate().any(|(i, d)| Some(i) != first && d.iter().any(|b| *b != 0x2e));
            format!("{}:{}{}", res_str(&r), hex(&shown), if others_touched { "!" } else { "" })
        }
        Err(_) => {
            count_off(0);
            "panic".into()
        }
    }
}

/// reads only, for the std adapters (they do not implement Write)
fn drive_reads<T: Read>(x: &mut T, ops: &[AdOp]) -> String {
    let mut out: Vec<String> = vec![];
    for op in ops {
        if let AdOp::Read(n) = op {
            let mut dest = vec![0x2eu8; *n];
            let r = catch_unwind(AssertUnwindSafe(|| x.read(&mut dest)));
            match r {
                Ok(r) => out.push(format!("{}:{}", res_str(&r), hex(&dest))),
                Err(_) => out.push("panic".into()),
            }
        }
        if let AdOp::ReadV(lens) = op {
            let mut dummy = 0u64;
            out.push(readv(x, lens, &mut dummy));
        }
    }
    if out.is_empty() {
        "-".into()
    } else {
        out.join(",")
    }
}

fn logstr(l: &Log) -> String {
    let v = l.borrow();
    if v.is_empty() {
        "-".into()
    } else {
        v.join(",")
    }
}

pub fn chain_line(s1: &Srw, s2: &Srw, ops: &[AdOp], w: &mut impl std::io::Write) {
    let log = Log::default();
    let (mut a, mut b) = (s1.twin(&log), s2.twin(&log));
    a.vectored = true;
    b.vectored = true;
    let mut allocs = 0u64;
    let impl_res = {
        let mut chain = ReadWriteChain::new(&mut a, &mut b);
        drive(&mut chain, ops, false, &mut allocs)
    };
    let slog = Log::default();
    let (sa, sb) = (s1.twin(&slog), s2.twin(&slog));
    let std_res = {
        let mut chain = sa.chain(sb);
        drive_reads(&mut chain, ops)
    };
    // second reference: std's adapter over twins that really scatter / gather (what a forwarding implementation meets)
    let slog2 = Log::default();
    let (mut ta, mut tb) = (s1.twin(&slog2), s2.twin(&slog2));
    ta.vectored = true;
    tb.vectored = true;
    let std2_res = {
        let mut chain = ta.chain(tb);
        drive_reads(&mut chain, ops)
    };
    let rl = |l: &Log| -> String {
        let v: Vec<String> = l.borrow().iter().filter(|e| e.starts_with('R')).cloned().collect();
        if v.is_empty() { "-".into() } else { v.join(",") }
    };
    writeln!(w, "CH {} {} {} | {} ; {} ; {} | {} ; {} | {} ; {}", s1.describe(), s2.describe(), ops_str(ops), impl_res, logstr(&log), allocs, std_res, logstr(&slog), std2_res, rl(&slog2)).unwrap();
}

pub fn chainbuf_line<const N: usize>(content: &[u8], ri: usize, s2: &Srw, ops: &[AdOp], w: &mut impl std::io::Write) -> bool {
    if content.len() > N || ri > content.len() {
        return false;
    }
    let mk = || {
        let mut b: FixedBuf<N> = FixedBuf::new();
        b.write_bytes(content).unwrap();
        if ri > 0 && ri < content.len() {
            b.read_bytes(ri);
        }
        b
    };
    if ri > 0 && ri == content.len() {
        return false;
    }
    let log = Log::default();
    let mut first = mk();
    let mut b = s2.twin(&log);
    let mut allocs = 0u64;
    let impl_res = {
        let mut chain = ReadWriteChain::new(&mut first, &mut b);
        drive(&mut chain, ops, false, &mut allocs)
    };
    let left = first.readable().to_vec();
    let slog = Log::default();
    let sfirst = mk();
    let sb = s2.twin(&slog);
    let std_res = {
        let mut chain = sfirst.chain(sb);
        drive_reads(&mut chain, ops)
    };
    writeln!(w, "CB {} {} {} {} {} | {} ; {} ; {} ; {} | {} ; {}", N, hex(content), ri, s2.describe(), ops_str(ops), impl_res, logstr(&log), allocs, hex(&left), std_res, logstr(&slog)).unwrap();
    true
}

pub fn take_line(s: &Srw, limit: u64, ops: &[AdOp], w: &mut impl std::io::Write) {
    let log = Log::default();
    let mut a = s.twin(&log);
    a.vectored = true;
    let mut allocs = 0u64;
    let impl_res = {
        let mut take = ReadWriteTake::new(&mut a, limit);
        drive(&mut take, ops, false, &mut allocs)
    };
    let slog = Log::default();
    let sa = s.twin(&slog);
    let std_res = {
        let mut take = sa.take(limit);
        drive_reads(&mut take, ops)
    };
    let slog2 = Log::default();
    let mut ta = s.twin(&slog2);
    ta.vectored = true;
    let std2_res = {
        let mut take = ta.take(limit);
        drive_reads(&mut take, ops)
    };
    let rl = |l: &Log| -> String {
        let v: Vec<String> = l.borrow().iter().filter(|e| e.starts_with('R')).cloned().collect();
        if v.is_empty() { "-".into() } else { v.join(",") }
    };
    writeln!(w, "TK {} {} {} | {} ; {} ; {} | {} ; {} | {} ; {}", s.describe(), limit, ops_str(ops), impl_res, logstr(&log), allocs, std_res, logstr(&slog), std2_res, rl(&slog2)).unwrap();
}

fn seqs<T: Clone>(alpha: &[T], maxlen: usize) -> Vec<Vec<T>> {
    let mut out = vec![vec![]];
    let mut cur: Vec<Vec<T>> = vec![vec![]];
    for _ in 0..maxlen {
        let mut nxt = vec![];
        for s in &cur {
            for a in alpha {
                let mut t = s.clone();
                t.push(a.clone());
                nxt.push(t);
            }
        }
        out.extend(nxt.iter().cloned());
        cur = nxt;
    }
    out
}

pub fn mk(id: usize, data: &[u8], racts: Vec<RAct>) -> Srw {
    Srw { id, data: data.to_vec(), pos: 0, racts, ri: 0, wacts: vec![], wi: 0, facts: vec![], fi: 0, log: Log::default(), vectored: false }
}

fn random_srw(rng: &mut Rng, id: usize) -> Srw {
    let dl = if rng.chance(1, 4) { 9 + rng.below(40) } else { rng.below(9) };
    let data = rng.bytes(dl, b"abcdefgh\n\r\x80\xff");
    let n = rng.below(8);
    let racts = (0..n)
        .map(|_| match rng.below(10) {
            0 => RAct::Eof,
            1 => RAct::Err([2u8, 3, 4, 5, 6, 1, 0][rng.below(7)]),
            2 => RAct::Data(1 + rng.below(4), true),
            3 => RAct::Data(8 + rng.below(10), false),
            _ => RAct::Data(1 + rng.below(5), false),
        })
        .collect();
    let m = rng.below(5);
    let wacts = (0..m)
        .map(|_| match rng.below(6) {
            0 => WAct::Zero,
            1 => WAct::Err([2u8, 3, 5, 6, 1, 0][rng.below(6)]),
            2 => WAct::Part([1usize, 2, 3, 8, 15, 16, 63][rng.below(7)]),
            _ => WAct::Full,
        })
        .collect();
    let f = rng.below(3);
    let facts = (0..f).map(|_| if rng.chance(1, 3) { Some(5) } else { None }).collect();
    Srw { id, data, pos: 0, racts, ri: 0, wacts, wi: 0, facts, fi: 0, log: Log::default(), vectored: false }
}

fn random_ops(rng: &mut Rng, writes: bool) -> Vec<AdOp> {
    let n = 1 + rng.below(10);
    (0..n)
        .map(|_| {
            if writes && rng.chance(1, 3) {
                if rng.chance(1, 4) {
                    AdOp::Flush
                } else {
                    let l = [0usize, 1, 2, 4, 9, 16, 17, 64, 65][rng.below(9)];
                    AdOp::Write(rng.bytes(l, b"XYZ\n"))
                }
            } else {
                AdOp::Read([0usize, 0, 1, 2, 3, 4, 8, 9, 16, 33][rng.below(10)])
            }
        })
        .collect()
}


/// a writer that records only the LENGTH of what it is handed (payloads beyond 2 GiB cannot be logged byte by byte)
struct LenRw {
    acts: Vec<WAct>,
    calls: Vec<usize>,
}
impl Read for LenRw {
    fn read(&mut self, _d: &mut [u8]) -> std::io::Result<usize> {
        Ok(0)
    }
}
impl Write for LenRw {
    fn write(&mut self, buf: &[u8]) -> std::io::Result<usize> {
        self.calls.push(buf.len());
        match if self.acts.is_empty() { WAct::Full } else { self.acts.remove(0) } {
            WAct::Full => Ok(buf.len()),
            WAct::Part(k) => Ok(k.min(buf.len())),
            WAct::Zero => Ok(0),
            WAct::Err(k) => Err(crate::t1::scripted_error(k)),
        }
    }
    fn flush(&mut self) -> std::io::Result<()> {
        Ok(())
    }
}

/// payloads around 2^31 and 2^32 bytes (platform limits such as INT_MAX) through the adapters' write side, with every
/// result the wrapped writer can give: `BW <adapter> <len> <act> | <lengths the inner writer saw> ; <result>`
pub fn big_writes(mode: &str, w: &mut impl std::io::Write) -> usize {
    let mut n = 0;
    let lens: [usize; 4] = [(1usize << 31) - 1, 1usize << 31, (1usize << 31) + 5, (1usize << 32) + 1];
    let big: Vec<u8> = vec![0u8; lens[3]]; // zero pages, never touched
    let mut acts: Vec<WAct> = vec![WAct::Full, WAct::Part(7), WAct::Zero];
    acts.extend((0u8..=38).map(WAct::Err));
    for &len in &lens {
        for a in &acts {
            let astr = match a {
                WAct::Full => "f".to_string(),
                WAct::Part(k) => format!("p{}", k),
                WAct::Zero => "z".to_string(),
                WAct::Err(k) => format!("x{}", k),
            };
            let mut inner = LenRw { acts: vec![a.clone()], calls: vec![] };
            let r = if mode == "chain" {
                let mut first = LenRw { acts: vec![], calls: vec![] };
                let mut chain = ReadWriteChain::new(&mut first, &mut inner);
                chain.write(&big[..len])
            } else {
                let mut take = ReadWriteTake::new(&mut inner, 5);
                take.write(&big[..len])
            };
            writeln!(w, "BW {} {} {} | {} ; {}", mode, len, astr, nums(&inner.calls), res_str(&r)).unwrap();
            n += 1;
        }
    }
    n
}


/// the other provided methods of `Read` on chain / take — `read_to_end`, `read_to_string`, `read_exact` — compared with std's
/// adapters over twin readers: what is appended / filled, the result, and what the reads after it return (an error or an
/// early EOF in the middle must neither lose data nor un-charge the allowance; UTF-8 is validated over the whole, not per part).
///   RTE <adapter> <method> <srw1> <srw2|limit> | <impl: got ; res ; then> | <std: got ; res ; then>
pub fn read_to_end_lines(mode: &str, w: &mut impl std::io::Write) -> usize {
    let mut n = 0;
    let scripts: Vec<Vec<RAct>> = vec![
        vec![],
        vec![RAct::Data(2, false), RAct::Err(4), RAct::Data(2, false)],
        vec![RAct::Data(3, false), RAct::Err(3), RAct::Data(5, false)],
        vec![RAct::Err(5)],
        vec![RAct::Data(1, false), RAct::Eof, RAct::Data(2, false)],
        vec![RAct::Data(2, false), RAct::Err(2), RAct::Data(9, false)],
        vec![RAct::Data(2, false), RAct::Eof, RAct::Eof, RAct::Data(9, false)],
    ];
    fn after<T: Read>(x: &mut T) -> Vec<String> {
        let mut v = vec![];
        for _ in 0..3 {
            let mut d = [0x2eu8; 4];
            let r = x.read(&mut d);
            v.push(format!("{}:{}", res_str(&r), hex(&d)));
        }
        v
    }
    /// one provided method on anything that reads; rendered result: what it produced ; its result ; the three reads after it
    fn call<T: Read>(x: &mut T, method: &str) -> String {
        let (got, res): (Vec<u8>, String) = match method {
            "read_to_end" => {
                let mut v = vec![];
                let r = x.read_to_end(&mut v);
                (v, res_str(&r))
            }
            "read_to_string" => {
                let mut st = String::from("<");
                let r = x.read_to_string(&mut st);
                (st.into_bytes(), res_str(&r))
            }
            m => {
                let k: usize = m.trim_start_matches("read_exact").parse().unwrap_or(1);
                let mut d = vec![0x2eu8; k];
                let r = x.read_exact(&mut d);
                (d, match r { Ok(()) => "ok".to_string(), Err(e) => format!("err{}", kind_num(e.kind())) })
            }
        };
        let t = after(x);
        format!("{} ; {} ; {}", hex(&got), res, t.join(","))
    }
    let methods = ["read_to_end", "read_to_string", "read_exact1", "read_exact3", "read_exact5", "read_exact9"];
    // first / second streams: ASCII, and a two-byte and a three-byte UTF-8 character straddling the boundary / a chunk
    let datas: [(&[u8], &[u8]); 3] = [(b"ABCD", b"cdefgh"), (b"caf\xC3", b"\xA9! \xE2\x82\xAC"), (b"a\xE2\x82", b"\xACz\xFF")];
    for s1 in &scripts {
        for method in methods {
            for (d1, d2) in datas {
                if mode == "chain" {
                    for s2 in [&scripts[0], &scripts[1], &scripts[4]] {
                        let (a, b) = (mk(1, d1, s1.clone()), mk(2, d2, s2.clone()));
                        let log = Log::default();
                        let (mut ia, mut ib) = (a.twin(&log), b.twin(&log));
                        let imp = {
                            let mut chain = ReadWriteChain::new(&mut ia, &mut ib);
                            call(&mut chain, method)
                        };
                        let slog = Log::default();
                        let stdr = {
                            let mut chain = a.twin(&slog).chain(b.twin(&slog));
                            call(&mut chain, method)
                        };
                        writeln!(w, "RTE chain {} {} {} | {} | {}", method, a.describe(), b.describe(), imp, stdr).unwrap();
                        n += 1;
                    }
                }
                if mode == "take" {
                    let both: Vec<u8> = [d1, d2].concat();
                    for limit in [0u64, 1, 4, 5, 100] {
                        let a = mk(1, &both, s1.clone());
                        let log = Log::default();
                        let mut ia = a.twin(&log);
                        let imp = {
                            let mut take = ReadWriteTake::new(&mut ia, limit);
                            call(&mut take, method)
                        };
                        let slog = Log::default();
                        let stdr = {
                            let mut take = a.twin(&slog).take(limit);
                            call(&mut take, method)
                        };
                        writeln!(w, "RTE take {} {} {} | {} | {}", method, a.describe(), limit, imp, stdr).unwrap();
                        n += 1;
                    }
                }
            }
        }
    }
    n
}

/// operation lists that go through the vectored entry points of the Read / Write traits
fn vectored_ops() -> Vec<Vec<AdOp>> {
    use AdOp::*;
    vec![
        vec![ReadV(vec![]), Read(4), Read(4)],
        vec![ReadV(vec![0]), Read(4), Read(4)],
        vec![ReadV(vec![0, 0]), Read(4), Read(4)],
        vec![ReadV(vec![2, 2]), ReadV(vec![2, 2]), Read(4)],
        vec![ReadV(vec![0, 3]), ReadV(vec![1, 1, 1]), Read(4)],
        vec![ReadV(vec![1, 4]), ReadV(vec![4, 1]), ReadV(vec![9])],
        vec![Read(1), ReadV(vec![3, 3]), Read(0), ReadV(vec![0]), Read(4)],
        vec![WriteV(vec![]), WriteV(vec![vec![]]), WriteV(vec![b"xy".to_vec(), b"z".to_vec()]), Flush],
        vec![WriteV(vec![vec![], b"pq".to_vec(), b"rst".to_vec()]), ReadV(vec![2, 2]), Write(b"u".to_vec()), ReadV(vec![0, 1])],
    ]
}

pub fn run(mode: &str, thorough: bool, seed: u64, w: &mut impl std::io::Write) {
    let mut rng = Rng(seed ^ 0xad);
    let mut n = 0usize;
    // the vectored calls of the trait surface, on chain and take
    if mode == "chain" {
        let a = [RAct::Data(1, false), RAct::Data(3, false), RAct::Eof, RAct::Err(5)];
        for r1 in seqs(&a, 2) {
            for d1 in [&b""[..], b"AB", b"ABCDE"] {
                for r2 in seqs(&a, 1) {
                    let (mut s1, mut s2) = (mk(1, d1, r1.clone()), mk(2, b"cdefgh", r2.clone()));
                    s1.wacts = vec![WAct::Part(1)];
                    s2.wacts = vec![WAct::Full, WAct::Part(1), WAct::Err(4)];
                    for ops in vectored_ops() {
                        chain_line(&s1, &s2, &ops, w);
                        n += 1;
                    }
                }
            }
        }
    }
    // limits, destination lengths and payload lengths named by integer literals of the source under test
    {
        let nd = nums_dict();
        let mut nn = 0usize;
        for &v in nd.iter().filter(|v| **v >= 2 && **v <= 70000).take(40) {
            let data: Vec<u8> = (0..v + 3).map(|i| b'a' + (i % 26) as u8).collect();
            let payload: Vec<u8> = (0..v).map(|i| b'A' + (i % 26) as u8).collect();
            let ops = vec![AdOp::Read(v), AdOp::Write(payload.clone()), AdOp::Read(v - 1), AdOp::Read(v + 1), AdOp::Read(4)];
            if mode == "chain" {
                chain_line(&mk(1, &data[..v], vec![]), &mk(2, &data, vec![]), &ops, w);
                chain_line(&mk(1, &data[..1], vec![]), &mk(2, &data, vec![RAct::Data(v, false), RAct::Data(v - 1, false)]), &ops, w);
                nn += 2;
            }
            if mode == "take" {
                for limit in [v as u64 - 1, v as u64, v as u64 + 1] {
                    take_line(&mk(1, &data, vec![]), limit, &ops, w);
                    take_line(&mk(1, &data, vec![]), limit, &[AdOp::Read(4), AdOp::Read(v + 5), AdOp::Read(1)], w);
                    nn += 2;
                }
            }
        }
        eprintln!("STAT ad numeric_dictionary={} scenarios={}", nd.len(), nn);
        n += nn;
    }
    let rte = read_to_end_lines(mode, w);
    eprintln!("STAT ad read_to_end_scenarios={}", rte);
    n += rte;
    let bw = big_writes(mode, w);
    eprintln!("STAT ad big_writes={} lengths=2^31-1,2^31,2^31+5,2^32+1", bw);
    n += bw;
    // every error kind std::io knows — InvalidData and UnexpectedEof (kinds 0, 1: the library's OWN error kinds, which a
    // collaborator may produce just as well) included: from first, from second / inner, on reads, writes and flushes
    for kind in 0u8..=38 {
        let ops = vec![AdOp::Read(4), AdOp::Write(b"xy".to_vec()), AdOp::Flush, AdOp::Read(4), AdOp::Write(b"z".to_vec()), AdOp::Read(4)];
        if mode == "chain" {
            let mut s1 = mk(1, b"AB", vec![RAct::Err(kind), RAct::Data(1, false)]);
            let mut s2 = mk(2, b"cdef", vec![RAct::Data(2, false), RAct::Err(kind)]);
            s1.wacts = vec![WAct::Err(kind)];
            s2.wacts = vec![WAct::Err(kind), WAct::Full];
            s2.facts = vec![Some(kind)];
            chain_line(&s1, &s2, &ops, w);
            n += 1;
        }
        if mode == "take" {
            let mut s = mk(1, b"abcdefgh", vec![RAct::Err(kind), RAct::Data(3, false), RAct::Err(kind)]);
            s.wacts = vec![WAct::Err(kind), WAct::Part(1)];
            s.facts = vec![Some(kind)];
            take_line(&s, 5, &ops, w);
            n += 1;
        }
    }
    // long runs of calls on ONE adapter value (call counters that wrap, budgets)
    {
        let d1: Vec<u8> = (0..150u32).map(|i| b'A' + (i % 26) as u8).collect();
        let d2: Vec<u8> = (0..250u32).map(|i| b'a' + (i % 26) as u8).collect();
        let reads: Vec<AdOp> = (0..330).map(|_| AdOp::Read(1)).collect();
        let mut mixed: Vec<AdOp> = vec![];
        for i in 0..300 {
            mixed.push(AdOp::Read(1));
            mixed.push(AdOp::Write(vec![b'0' + (i % 10) as u8]));
            if i % 50 == 49 {
                mixed.push(AdOp::Flush);
            }
        }
        if mode == "chain" {
            chain_line(&mk(1, &d1, vec![]), &mk(2, &d2, vec![]), &reads, w);
            chain_line(&mk(1, &d1, vec![]), &mk(2, &d2, vec![]), &mixed, w);
            n += 2;
        }
        if mode == "take" {
            for limit in [280u64, 1000] {
                take_line(&mk(1, &d2, vec![]), limit, &reads, w);
                take_line(&mk(1, &d2, vec![]), limit, &mixed, w);
                n += 2;
            }
        }
    }
    if mode == "take" {
        let a = [RAct::Data(1, false), RAct::Data(3, false), RAct::Data(100, false), RAct::Eof, RAct::Err(5)];
        for r in seqs(&a, 2) {
            for limit in [0u64, 1, 3, 5, 100, u64::MAX] {
                let mut s = mk(1, b"abcdefgh", r.clone());
                s.wacts = vec![WAct::Full, WAct::Part(1), WAct::Err(4)];
                for ops in vectored_ops() {
                    take_line(&s, limit, &ops, w);
                    n += 1;
                }
            }
        }
    }
    let dests: Vec<Vec<AdOp>> = seqs(&[0usize, 1, 4], 3).into_iter().filter(|s| !s.is_empty()).map(|s| s.into_iter().map(AdOp::Read).collect()).collect();
    if mode == "chain" {
        let a1 = [RAct::Data(1, false), RAct::Data(2, false), RAct::Eof, RAct::Err(5), RAct::Data(2, true)];
        let a2 = [RAct::Data(1, false), RAct::Data(3, false), RAct::Eof, RAct::Err(5)];
        let l1 = if thorough { 3 } else { 2 };
        for r1 in seqs(&a1, l1) {
            for d1 in [&b""[..], b"AB", b"ABC"] {
                for r2 in seqs(&a2, 2) {
                    for d2 in [&b""[..], b"cd"] {
                        let (s1, s2) = (mk(1, d1, r1.clone()), mk(2, d2, r2.clone()));
                        for ops in &dests {
                            chain_line(&s1, &s2, ops, w);
                            n += 1;
                        }
                    }
                }
            }
        }
        // larger destinations, every error kind, short reads relative to the destination
        let a3 = [RAct::Data(3, false), RAct::Data(20, false), RAct::Eof, RAct::Err(2), RAct::Err(3), RAct::Err(5), RAct::Data(9, true)];
        let big: Vec<u8> = (0..40u8).map(|i| 0x41 + i % 26).collect();
        let dests4: Vec<Vec<AdOp>> = seqs(&[16usize, 4, 33], 4).into_iter().filter(|s| s.len() == 4 || s.len() == 2).map(|s| s.into_iter().map(AdOp::Read).collect()).collect();
        for r1 in seqs(&a3, 3) {
            if r1.is_empty() {
                continue;
            }
            for r2 in [vec![], vec![RAct::Data(3, false)], vec![RAct::Err(2), RAct::Data(17, false)]] {
                let (s1, s2) = (mk(1, &big, r1.clone()), mk(2, b"SECONDsecondSECONDsecond", r2.clone()));
                for ops in &dests4 {
                    chain_line(&s1, &s2, ops, w);
                    n += 1;
                }
            }
        }
        // write pass-through: larger payloads, every inner write result in every position, interleaved with reads
        {
            let wa = [WAct::Full, WAct::Part(1), WAct::Part(15), WAct::Part(16), WAct::Zero, WAct::Err(2), WAct::Err(5)];
            let p16: Vec<u8> = (0..16u8).map(|i| b'A' + i).collect();
            let p64: Vec<u8> = (0..64u8).map(|i| b'a' + i % 26).collect();
            let wops = vec![AdOp::Write(p16.clone()), AdOp::Read(4), AdOp::Write(p64.clone()), AdOp::Flush, AdOp::Write(b"123456789".to_vec()), AdOp::Read(16)];
            for ws in seqs(&wa, 3) {
                for fa in [vec![], vec![Some(5u8)]] {
                    let mut s2 = mk(2, b"cdcdcdcdcdcdcdcdcdcd", vec![RAct::Data(3, false)]);
                    s2.wacts = ws.clone();
                    s2.facts = fa.clone();
                    let s1 = mk(1, b"AB", vec![]);
                    chain_line(&s1, &s2, &wops, w);
                    n += 1;
                }
            }
        }
        // first = a real FixedBuf (the documented use)
        for content in [&b""[..], b"A", b"AB", b"ABCD"] {
            for ri in 0..=content.len() {
                for r2 in seqs(&a2, 2) {
                    let s2 = mk(2, b"cd", r2);
                    for ops in &dests {
                        if chainbuf_line::<4>(content, ri, &s2, ops, w) {
                            n += 1;
                        }
                    }
                }
            }
        }
        let cases = if thorough { 40000 } else { 4000 };
        for _ in 0..cases {
            let (s1, s2) = (random_srw(&mut rng, 1), random_srw(&mut rng, 2));
            let ops = random_ops(&mut rng, true);
            chain_line(&s1, &s2, &ops, w);
            n += 1;
            if rng.chance(1, 4) {
                let cl = rng.below(9);
                let content = rng.bytes(cl, b"ABCDEFG\n");
                let ri = if cl > 1 { rng.below(cl) } else { 0 };
                if chainbuf_line::<8>(&content, ri, &s2, &ops, w) {
                    n += 1;
                }
            }
        }
    } else {
        let a = [RAct::Data(1, false), RAct::Data(2, false), RAct::Data(3, false), RAct::Data(2, true), RAct::Data(3, true), RAct::Eof, RAct::Err(5)];
        let l = if thorough { 3 } else { 2 };
        let dests: Vec<Vec<AdOp>> = seqs(&[0usize, 1, 2, 4], 3).into_iter().filter(|s| !s.is_empty()).map(|s| s.into_iter().map(AdOp::Read).collect()).collect();
        for r in seqs(&a, l) {
            for d in [&b""[..], b"ab", b"abcde"] {
                let s = mk(1, d, r.clone());
                for limit in [0u64, 1, 2, 3, 5, u64::MAX] {
                    for ops in &dests {
                        take_line(&s, limit, ops, w);
                        n += 1;
                    }
                }
            }
        }
        // larger destinations and limits around powers of two, every error kind
        let a3 = [RAct::Data(3, false), RAct::Data(20, false), RAct::Eof, RAct::Err(2), RAct::Err(5), RAct::Data(9, true)];
        let big: Vec<u8> = (0..40u8).map(|i| 0x41 + i % 26).collect();
        let dests4: Vec<Vec<AdOp>> = seqs(&[16usize, 4, 33], 4).into_iter().filter(|s| s.len() == 4 || s.len() == 2).map(|s| s.into_iter().map(AdOp::Read).collect()).collect();
        for r in seqs(&a3, 3) {
            let s = mk(1, &big, r.clone());
            for limit in [8u64, 16, 17, 32, 33, (1 << 32) - 1, 1 << 32, (1 << 32) + 1, u64::MAX - 1] {
                for ops in &dests4 {
                    take_line(&s, limit, ops, w);
                    n += 1;
                }
            }
        }
        // write pass-through: larger payloads, every inner write result in every position, interleaved with reads
        {
            let wa = [WAct::Full, WAct::Part(1), WAct::Part(15), WAct::Part(16), WAct::Zero, WAct::Err(2), WAct::Err(5)];
            let p16: Vec<u8> = (0..16u8).map(|i| b'A' + i).collect();
            let p64: Vec<u8> = (0..64u8).map(|i| b'a' + i % 26).collect();
            let wops = vec![AdOp::Write(p16.clone()), AdOp::Read(4), AdOp::Write(p64.clone()), AdOp::Flush, AdOp::Write(b"123456789".to_vec()), AdOp::Read(16)];
            for ws in seqs(&wa, 3) {
                for fa in [vec![], vec![Some(5u8)]] {
                    let mut s2 = mk(2, b"cdcdcdcdcdcdcdcdcdcd", vec![RAct::Data(3, false)]);
                    s2.wacts = ws.clone();
                    s2.facts = fa.clone();
                    s2.id = 1;
                    take_line(&s2, 7, &wops, w);
                    n += 1;
                }
            }
        }
        // destinations and limits around 2^16 (casts / narrow integer types); the offered length is in the inner log
        for limit in [65535u64, 65536, 65537, 70000, (1 << 32) + 5] {
            for d in [65535usize, 65536, 65537, 70001] {
                for r in [vec![], vec![RAct::Data(3, false)], vec![RAct::Err(2)], vec![RAct::Data(70000, true)]] {
                    let s = mk(1, &big, r);
                    take_line(&s, limit, &[AdOp::Read(d), AdOp::Read(4)], w);
                    n += 1;
                }
            }
        }
        let cases = if thorough { 40000 } else { 4000 };
        for _ in 0..cases {
            let s = random_srw(&mut rng, 1);
            let ops = random_ops(&mut rng, true);
            let limit = match rng.below(10) {
                0 => 0,
                1 => u64::MAX,
                2 => u64::MAX - 1,
                3 => (1u64 << 32) + rng.below(3) as u64,
                4 => (1u64 << 32) - 1,
                5 => 9 + rng.below(30) as u64,
                _ => rng.below(10) as u64,
            };
            take_line(&s, limit, &ops, w);
            n += 1;
        }
    }
    eprintln!("STAT ad mode={} scenarios={}", mode, n);
}

pub fn replay_line(l: &str, w: &mut impl std::io::Write) -> bool {
    let parts: Vec<&str> = l.split(" | ").collect();
    let head: Vec<&str> = parts[0].split(' ').collect();
    let log = Log::default();
    match head[0] {
        "CH" if head.len() == 4 => match (Srw::parse(head[1], &log), Srw::parse(head[2], &log), parse_ops(head[3])) {
            (Some(a), Some(b), Some(ops)) => {
                chain_line(&a, &b, &ops, w);
                true
            }
            _ => false,
        },
        "CB" if head.len() == 6 => {
            let n: usize = head[1].parse().unwrap_or(0);
            match (crate::replay::unhex(head[2]), head[3].parse::<usize>(), Srw::parse(head[4], &log), parse_ops(head[5])) {
                (Some(c), Ok(ri), Some(b), Some(ops)) => match n {
                    4 => chainbuf_line::<4>(&c, ri, &b, &ops, w),
                    8 => chainbuf_line::<8>(&c, ri, &b, &ops, w),
                    _ => false,
                },
                _ => false,
            }
        }
        "TK" if head.len() == 4 => match (Srw::parse(head[1], &log), head[2].parse::<u64>(), parse_ops(head[3])) {
            (Some(a), Ok(limit), Some(ops)) => {
                take_line(&a, limit, &ops, w);
                true
            }
            _ => false,
        },
        _ => false,
    }
}

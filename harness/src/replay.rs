//! replay: re-run recorded cases (one per stdin line) against the current tree and print the fresh lines
use crate::t1::*;
use crate::util::*;
use fixed_buffer::*;

pub fn unhex(s: &str) -> Option<Vec<u8>> {
    if s == "-" {
        return Some(vec![]);
    }
    if s.len() % 2 != 0 {
        return None;
    }
    (0..s.len() / 2).map(|i| u8::from_str_radix(&s[2 * i..2 * i + 2], 16).ok()).collect()
}

fn parse_rops(s: &str) -> Option<Vec<ROp>> {
    if s == "-" {
        return Some(vec![]);
    }
    let mut stack: Vec<Vec<ROp>> = vec![vec![]];
    for t in s.split(',') {
        let arg = |p: &str| t.strip_prefix(p).and_then(|x| x.parse::<usize>().ok());
        let op = match t {
            "rbyte" => ROp::ReadByte,
            "trbyte" => ROp::TryReadByte,
            "rall" => ROp::ReadAll,
            "B" => {
                stack.push(vec![]);
                continue;
            }
            "E0" | "E1" => {
                let inner = stack.pop()?;
                if stack.is_empty() {
                    return None;
                }
                ROp::TryParse(inner, t == "E1")
            }
            _ => {
                if let Some(n) = arg("rb:") {
                    ROp::ReadBytes(n)
                } else if let Some(n) = arg("trb:") {
                    ROp::TryReadBytes(n)
                } else if let Some(n) = arg("rac:") {
                    ROp::ReadAndCopy(n)
                } else if let Some(n) = arg("tre:") {
                    ROp::TryReadExact(n)
                } else {
                    return None;
                }
            }
        };
        stack.last_mut()?.push(op);
    }
    if stack.len() == 1 {
        stack.pop()
    } else {
        None
    }
}

pub fn parse_op(t: &[&str]) -> Option<Op> {
    Some(match t {
        ["wb", d] => Op::WriteBytes(unhex(d)?),
        ["ws", d] => Op::WriteStr(unhex(d)?),
        ["iow", d] => Op::IoWrite(unhex(d)?),
        ["iofl"] => Op::IoFlush,
        ["pw", d, n] => Op::PokeWrote(unhex(d)?, n.parse().ok()?),
        ["cof", "d", d, s] => Op::CopyOnce(Resp::Data(unhex(d)?, *s == "1")),
        ["cof", "e", k] => Op::CopyOnce(Resp::Err(k.parse().ok()?)),
        ["cof", "p"] => Op::CopyOnce(Resp::Panic),
        ["rb", n] => Op::ReadBytes(n.parse().ok()?),
        ["trb", n] => Op::TryReadBytes(n.parse().ok()?),
        ["rbyte"] => Op::ReadByte,
        ["trbyte"] => Op::TryReadByte,
        ["rall"] => Op::ReadAll,
        ["rac", d] => Op::ReadAndCopy(d.parse().ok()?),
        ["tre", d] => Op::TryReadExact(d.parse().ok()?),
        ["ior", d] => Op::IoRead(d.parse().ok()?),
        ["shift"] => Op::Shift,
        ["clear"] => Op::Clear,
        ["dfr", f] => Op::Deframe(Df::from_name(f)?),
        ["tp", s, sm] => Op::TryParse(parse_rops(s)?, *sm == "1"),
        _ => return None,
    })
}

/// rebuild a buffer in state (mem, ri, wi) through the public API only
fn rebuild<const N: usize>(mem: &[u8], ri: usize, wi: usize) -> Option<FixedBuf<N>> {
    if mem.len() != N || ri > wi || wi > N {
        return None;
    }
    let mut a = [0u8; N];
    a.copy_from_slice(mem);
    let mut b = FixedBuf::empty(a);
    b.wrote(wi);
    if ri > 0 {
        if ri == wi {
            return None; // not reachable through the API on a correct tree (an empty buffer is rewound)
        }
        b.read_bytes(ri);
    }
    Some(b)
}

fn replay_t1<const N: usize>(mem: &[u8], ri: usize, wi: usize, op: &Op, w: &mut impl std::io::Write) -> bool {
    match rebuild::<N>(mem, ri, wi) {
        Some(b) => match observe(&b) {
            Some(s) if s.ri == ri && s.wi == wi && s.mem == mem => {
                transition(&b, &s, op, w);
                true
            }
            _ => false,
        },
        None => false,
    }
}

macro_rules! dispatch_t1 {
    ($n:expr, $mem:expr, $ri:expr, $wi:expr, $op:expr, $w:expr, $($lit:literal),*) => {
        match $n { $( $lit => replay_t1::<$lit>($mem, $ri, $wi, $op, $w), )* _ => false }
    };
}

pub fn run(w: &mut impl std::io::Write) {
    let stdin = std::io::stdin();
    let mut line = String::new();
    while {
        line.clear();
        stdin.read_line(&mut line).unwrap_or(0) > 0
    } {
        let l = line.trim();
        if l.is_empty() {
            continue;
        }
        let parts: Vec<&str> = l.split(" | ").collect();
        let head: Vec<&str> = parts[0].split(' ').collect();
        let ok = match head[0] {
            "T1" if parts.len() >= 2 && head.len() == 5 => {
                let n: usize = head[1].parse().unwrap_or(usize::MAX);
                let mem = unhex(head[2]);
                let ri = head[3].parse::<usize>().ok();
                let wi = head[4].parse::<usize>().ok();
                let opt: Vec<&str> = parts[1].split(' ').collect();
                match (mem, ri, wi, parse_op(&opt)) {
                    (Some(mem), Some(ri), Some(wi), Some(op)) => {
                        dispatch_t1!(n, &mem, ri, wi, &op, w, 0, 1, 2, 3, 4, 5, 6, 7, 8, 9, 16, 17, 32, 33, 40, 48, 64, 96, 128, 130, 200, 255, 4096)
                    }
                    _ => false,
                }
            }
            "DF" if head.len() == 3 => match (Df::from_name(head[1]), unhex(head[2])) {
                (Some(f), Some(d)) => {
                    crate::df::line(f, &d, w);
                    true
                }
                _ => false,
            },
            "ES" if head.len() == 2 => match unhex(head[1]) {
                Some(d) => {
                    crate::es::es_line(&d, w);
                    true
                }
                None => false,
            },
            "EB" if head.len() == 5 => {
                let n: usize = head[1].parse().unwrap_or(usize::MAX);
                match (unhex(head[2]), head[3].parse::<usize>(), head[4].parse::<usize>()) {
                    (Some(mem), Ok(ri), Ok(wi)) if mem.len() == n && ri <= wi && wi <= n => match n {
                        0 => crate::es::eb_line::<0>(&mem, ri, wi, w),
                        1 => crate::es::eb_line::<1>(&mem, ri, wi, w),
                        2 => crate::es::eb_line::<2>(&mem, ri, wi, w),
                        3 => crate::es::eb_line::<3>(&mem, ri, wi, w),
                        4 => crate::es::eb_line::<4>(&mem, ri, wi, w),
                        9 => crate::es::eb_line::<9>(&mem, ri, wi, w),
                        10 => crate::es::eb_line::<10>(&mem, ri, wi, w),
                        33 => crate::es::eb_line::<33>(&mem, ri, wi, w),
                        99 => crate::es::eb_line::<99>(&mem, ri, wi, w),
                        100 => crate::es::eb_line::<100>(&mem, ri, wi, w),
                        101 => crate::es::eb_line::<101>(&mem, ri, wi, w),
                        1000 => crate::es::eb_line::<1000>(&mem, ri, wi, w),
                        255 => crate::es::eb_line::<255>(&mem, ri, wi, w),
                        4096 => crate::es::eb_line::<4096>(&mem, ri, wi, w),
                        _ => false,
                    },
                    _ => false,
                }
            }
            _ => crate::replay_other(l, w),
        };
        if !ok {
            writeln!(w, "CANNOT-REPLAY {}", l).unwrap();
        }
    }
    let _ = hex(&[]);
}

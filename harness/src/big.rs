//! Buffers beyond 64 KiB (u16 limits, thresholds at 64 KiB / 1 MiB, sizes the source names): far too large to print and
//! to replay on the list-based Lean model call by call, so these scenarios carry their own oracle — the stream is known,
//! hence so are the frames — and print one verdict line each:
//!   NO <property> <N> <scenario> | ok        NO <property> <N> <scenario> | FAIL <what>
use crate::util::*;
use fixed_buffer::*;
use std::io::Read;
use std::panic::{catch_unwind, AssertUnwindSafe};

/// a reader that hands out `data` in chunks of at most `chunk` bytes and counts its calls
struct Chunked<'a> {
    data: &'a [u8],
    pos: usize,
    chunk: usize,
    calls: usize,
}
impl<'a> Read for Chunked<'a> {
    fn read(&mut self, dest: &mut [u8]) -> std::io::Result<usize> {
        self.calls += 1;
        let n = self.chunk.min(dest.len()).min(self.data.len() - self.pos);
        dest[..n].copy_from_slice(&self.data[self.pos..self.pos + n]);
        self.pos += n;
        Ok(n)
    }
}

fn verdict(w: &mut impl std::io::Write, prop: &str, n: usize, scenario: &str, r: Result<Result<(), String>, ()>) {
    match r {
        Ok(Ok(())) => writeln!(w, "NO {} {} {} | ok", prop, n, scenario).unwrap(),
        Ok(Err(e)) => writeln!(w, "NO {} {} {} | FAIL {}", prop, n, scenario, e.replace(' ', "_")).unwrap(),
        Err(()) => writeln!(w, "NO {} {} {} | FAIL panic", prop, n, scenario).unwrap(),
    }
}

fn frame(len: usize) -> Vec<u8> {
    (0..len).map(|i| b'a' + (i % 23) as u8).collect()
}

pub fn run_size<const N: usize>(w: &mut impl std::io::Write) -> usize {
    let mut n = 0;
    // frame lengths: nearly the whole buffer, around 64 KiB, half
    // ... and frames that fit only after the bytes consumed before them have been reclaimed (N-1, N-3, N-6)
    let mut lens: Vec<usize> = vec![N - 70, N / 2, 65535, 65536, 65537, 1 << 20, (1 << 20) + 1, N - 1, N - 3, N - 6];
    lens.retain(|l| *l + 1 <= N);
    lens.sort();
    lens.dedup();
    for &fl in &lens {
        let f = frame(fl);
        let mut stream = b"hello\n".to_vec();
        stream.extend_from_slice(&f);
        stream.extend_from_slice(b"\ntail\n");
        // C02 / C12: read_frame, the reader handing over as much as it is asked for / 6 bytes first / 4096-byte chunks
        for (name, chunk, first) in [("greedy", usize::MAX, usize::MAX), ("first6", usize::MAX, 6usize), ("chunks4096", 4096, 4096)] {
            let r = catch_unwind(AssertUnwindSafe(|| -> Result<(), String> {
                let mut buf: Box<FixedBuf<N>> = Box::new(FixedBuf::new());
                let mut rd = Chunked { data: &stream, pos: 0, chunk: first, calls: 0 };
                let mut have: Vec<u64> = vec![];
                loop {
                    let st = count_on();
                    let r = buf.read_frame(&mut rd, deframe_line).map(|o| o.map(|p| p.len()));
                    let al = count_off(st);
                    rd.chunk = chunk;
                    match r {
                        Ok(Some(l)) => {
                            if al != 0 {
                                return Err(format!("allocated {} times", al));
                            }
                            have.push(l as u64);
                            if have.len() > 5 {
                                return Err("too many frames".into());
                            }
                        }
                        Ok(None) => break,
                        Err(e) => return Err(format!("frame {} error {:?}", have.len(), e.kind())),
                    }
                }
                let want: Vec<u64> = vec![5, fl as u64, 4];
                if have != want {
                    return Err(format!("frame lengths {:?} expected {:?}", have, want));
                }
                Ok(())
            }))
            .map_err(|_| ());
            verdict(w, "C02", N, &format!("read_frame_{}_{}", name, fl), r);
            n += 1;
        }
        // C10: deframe on a buffer that holds the frame and a leftover: the returned range indexes mem()
        if fl + 6 > N {
            continue;
        }
        let r = catch_unwind(AssertUnwindSafe(|| -> Result<(), String> {
            let mut buf: Box<FixedBuf<N>> = Box::new(FixedBuf::new());
            buf.write_bytes(&f).map_err(|_| "write refused".to_string())?;
            buf.write_bytes(b"\ntail\n").map_err(|_| "write refused".to_string())?;
            let r = buf.deframe(deframe_line).map_err(|e| format!("{:?}", e))?;
            let range = r.ok_or("no frame")?;
            if &buf.mem()[range.clone()] != &f[..] {
                return Err(format!("payload mismatch at range {:?} (first bytes {:?})", range, &buf.mem()[range.start..range.start + 5.min(range.len())]));
            }
            if buf.readable() != b"tail\n" {
                return Err("leftover mismatch".into());
            }
            Ok(())
        }))
        .map_err(|_| ());
        verdict(w, "C10", N, &format!("deframe_{}", fl), r);
        n += 1;
    }
    // C12 / C14's blocking side: copy_once_from offered the whole free space commits what the reader gives
    let r = catch_unwind(AssertUnwindSafe(|| -> Result<(), String> {
        let data = frame(N);
        let mut buf: Box<FixedBuf<N>> = Box::new(FixedBuf::new());
        let mut rd = Chunked { data: &data, pos: 0, chunk: usize::MAX, calls: 0 };
        let k = buf.copy_once_from(&mut rd).map_err(|e| format!("{:?}", e.kind()))?;
        if k != N || rd.calls != 1 || buf.len() != N {
            return Err(format!("copied {} in {} calls, len {}", k, rd.calls, buf.len()));
        }
        Ok(())
    }))
    .map_err(|_| ());
    verdict(w, "C12", N, "copy_once_from_full", r);
    n += 1;
    // C07 / C02: a header longer than 64 KiB arriving one byte per read (call counters, read budgets)
    if N <= 140000 && N >= 65536 + 16 {
        let fl = 65536usize.min(N - 16);
        let f = frame(fl);
        let mut stream = f.clone();
        stream.extend_from_slice(b"\nxy\n");
        let r = catch_unwind(AssertUnwindSafe(|| -> Result<(), String> {
            let mut buf: Box<FixedBuf<N>> = Box::new(FixedBuf::new());
            let mut rd = Chunked { data: &stream, pos: 0, chunk: 1, calls: 0 };
            let a = buf.read_frame(&mut rd, deframe_null_free_line).map_err(|e| format!("first frame: {:?} after {} reads", e.kind(), rd.calls))?.map(|p| p.len());
            if a != Some(fl) {
                return Err(format!("first frame {:?}", a));
            }
            let b = buf.read_frame(&mut rd, deframe_null_free_line).map_err(|e| format!("{:?}", e.kind()))?.map(|p| p.to_vec());
            if b != Some(b"xy".to_vec()) {
                return Err("second frame".into());
            }
            Ok(())
        }))
        .map_err(|_| ());
        verdict(w, "C07", N, &format!("drip_{}", fl), r);
        n += 1;
    }
    n
}

/// `deframe_line` without the quadratic rescans hurting the drip scenario too much: look only at the last byte first
fn deframe_null_free_line(data: &[u8]) -> Result<Option<(core::ops::Range<usize>, usize)>, MalformedInputError> {
    if data.last() != Some(&b'\n') {
        return Ok(None);
    }
    deframe_line(data)
}

/// C05: inputs of half a gigabyte (32-bit bit / byte offsets overflow at 2^26 words, 2^29 bytes)
pub fn huge_inputs(w: &mut impl std::io::Write) -> usize {
    let len: usize = (1 << 29) + 24;
    let mut data: Vec<u8> = vec![b'x'; len];
    let mut n = 0;
    for (name, term, pos) in [("line", &b"\n"[..], len - 7), ("crlf", &b"\r\n"[..], len - 13), ("null", &b"\0"[..], len - 5)] {
        data[pos..pos + term.len()].copy_from_slice(term);
        let r = catch_unwind(AssertUnwindSafe(|| -> Result<(), String> {
            let got = match name {
                "line" => deframe_line(&data),
                "crlf" => deframe_crlf(&data),
                _ => deframe_null(&data),
            }
            .map_err(|e| format!("{:?}", e))?;
            let want = Some((0..pos, pos + term.len()));
            if got != want {
                return Err(format!("{:?} expected {:?}", got, want));
            }
            Ok(())
        }))
        .map_err(|_| ());
        verdict(w, "C05", len, &format!("deframe_{}_{}", name, pos), r);
        for x in data[pos..pos + term.len()].iter_mut() {
            *x = b'x';
        }
        n += 1;
    }
    n
}

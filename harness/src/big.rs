//! Buffers beyond 64 KiB (u16 limits, thresholds at 64 KiB / 1 MiB, sizes the source names): far too large to print and
//! to replay on the list-based Lean model call by call, so these scenarios carry their own oracle — the stream is known,
//! hence so are the frames — and print one verdict line each:
//!   NO <property> <N> <scenario> | ok        NO <property> <N> <scenario> | FAIL <what>
use crate::util::*;
use fixed_buffer::*;
use std::io::Read;
use std::panic::{catch_unwind, AssertUnwindSafe};

/// a reader that hands out `data` in chunks of at most `chunk` bytes and counts its calls
struct Chunked<'a> {
    data: &'a [u8],
    pos: usize,
    chunk: usize,
    calls: usize,
}
impl<'a> Read for Chunked<'a> {
    fn read(&mut self, dest: &mut [u8]) -> std::io::Result<usize> {
        self.calls += 1;
        let n = self.chunk.min(dest.len()).min(self.data.len() - self.pos);
        dest[..n].copy_from_slice(&self.data[self.pos..self.pos + n]);
        self.pos += n;
        Ok(n)
    }
}

fn verdict(w: &mut impl std::io::Write, prop: &str, n: usize, scenario: &str, r: Result<Result<(), String>, ()>) {
    match r {
        Ok(Ok(())) => writeln!(w, "NO {} {} {} | ok", prop, n, scenario).unwrap(),
        Ok(Err(e)) => writeln!(w, "NO {} {} {} | FAIL {}", prop, n, scenario, e.replace(' ', "_")).unwrap(),
        Err(()) => writeln!(w, "NO {} {} {} | FAIL panic", prop, n, scenario).unwrap(),
    }
}

fn frame(len: usize) -> Vec<u8> {
    (0..len).map(|i| b'a' + (i % 23) as u8).collect()
}

pub fn run_size<const N: usize>(w: &mut impl std::io::Write) -> usize {
    let mut n = 0;
    // frame lengths: nearly the whole buffer, around 64 KiB, half
    // ... and frames that fit only after the bytes consumed before them have been reclaimed (N-1, N-3, N-6)
    let mut lens: Vec<usize> = vec![N - 70, N / 2, 65535, 65536, 65537, 1 << 20, (1 << 20) + 1, N - 1, N - 3, N - 6];
    lens.retain(|l| *l + 1 <= N);
    lens.sort();
    lens.dedup();
    for &fl in &lens {
        let f = frame(fl);
        let mut stream = b"hello\n".to_vec();
        stream.extend_from_slice(&f);
        stream.extend_from_slice(b"\ntail\n");
        // C02 / C12: read_frame, the reader handing over as much as it is asked for / 6 bytes first / 4096-byte chunks
        for (name, chunk, first) in [("greedy", usize::MAX, usize::MAX), ("first6", usize::MAX, 6usize), ("chunks4096", 4096, 4096)] {
            let r = catch_unwind(AssertUnwindSafe(|| -> Result<(), String> {
                let mut buf: Box<FixedBuf<N>> = Box::new(FixedBuf::new());
                let mut rd = Chunked { data: &stream, pos: 0, chunk: first, calls: 0 };
                let mut have: Vec<u64> = vec![];
                loop {
                    let st = count_on();
                    let r = buf.read_frame(&mut rd, deframe_line).map(|o| o.map(|p| p.len()));
                    let al = count_off(st);
                    rd.chunk = chunk;
                    match r {
                        Ok(Some(l)) => {
                            if al != 0 {
                                return Err(format!("allocated {} times", al));
                            }
                            have.push(l as u64);
                            if have.len() > 5 {
                                return Err("too many frames".into());
                            }
                        }
                        Ok(None) => break,
                        Err(e) => return Err(format!("frame {} error {:?}", have.len(), e.kind())),
                    }
                }
                let want: Vec<u64> = vec![5, fl as u64, 4];
                if have != want {
                    return Err(format!("frame lengths {:?} expected {:?}", have, want));
                }
                Ok(())
            }))
            .map_err(|_| ());
            verdict(w, "C02", N, &format!("read_frame_{}_{}", name, fl), r);
            n += 1;
        }
        // C10: deframe on a buffer that holds the frame and a leftover: the returned range indexes mem()
        if fl + 6 > N {
            continue;
        }
        let r = catch_unwind(AssertUnwindSafe(|| -> Result<(), String> {
            let mut buf: Box<FixedBuf<N>> = Box::new(FixedBuf::new());
            buf.write_bytes(&f).map_err(|_| "write refused".to_string())?;
            buf.write_bytes(b"\ntail\n").map_err(|_| "write refused".to_string())?;
            let r = buf.deframe(deframe_line).map_err(|e| format!("{:?}", e))?;
            let range = r.ok_or("no frame")?;
            if &buf.mem()[range.clone()] != &f[..] {
                return Err(format!("payload mismatch at range {:?} (first bytes {:?})", range, &buf.mem()[range.start..range.start + 5.min(range.len())]));
            }
            if buf.readable() != b"tail\n" {
                return Err("leftover mismatch".into());
            }
            Ok(())
        }))
        .map_err(|_| ());
        verdict(w, "C10", N, &format!("deframe_{}", fl), r);
        n += 1;
    }
    // C12 / C14's blocking side: copy_once_from offered the whole free space commits what the reader gives
    let r = catch_unwind(AssertUnwindSafe(|| -> Result<(), String> {
        let data = frame(N);
        let mut buf: Box<FixedBuf<N>> = Box::new(FixedBuf::new());
        let mut rd = Chunked { data: &data, pos: 0, chunk: usize::MAX, calls: 0 };
        let k = buf.copy_once_from(&mut rd).map_err(|e| format!("{:?}", e.kind()))?;
        if k != N || rd.calls != 1 || buf.len() != N {
            return Err(format!("copied {} in {} calls, len {}", k, rd.calls, buf.len()));
        }
        Ok(())
    }))
    .map_err(|_| ());
    verdict(w, "C12", N, "copy_once_from_full", r);
    n += 1;
    // C07 / C02: a header longer than 64 KiB arriving one byte per read (call counters, read budgets)
    if N <= 140000 && N >= 65536 + 16 {
        let fl = 65536usize.min(N - 16);
        let f = frame(fl);
        let mut stream = f.clone();
        stream.extend_from_slice(b"\nxy\n");
        let r = catch_unwind(AssertUnwindSafe(|| -> Result<(), String> {
            let mut buf: Box<FixedBuf<N>> = Box::new(FixedBuf::new());
            let mut rd = Chunked { data: &stream, pos: 0, chunk: 1, calls: 0 };
            let a = buf.read_frame(&mut rd, deframe_null_free_line).map_err(|e| format!("first frame: {:?} after {} reads", e.kind(), rd.calls))?.map(|p| p.len());
            if a != Some(fl) {
                return Err(format!("first frame {:?}", a));
            }
            let b = buf.read_frame(&mut rd, deframe_null_free_line).map_err(|e| format!("{:?}", e.kind()))?.map(|p| p.to_vec());
            if b != Some(b"xy".to_vec()) {
                return Err("second frame".into());
            }
            Ok(())
        }))
        .map_err(|_| ());
        verdict(w, "C07", N, &format!("drip_{}", fl), r);
        n += 1;
    }
    n
}


/// 70000 repetitions of cheap calls on ONE value (u16 counters, retry budgets), each with its obvious expected result
pub fn long_repetitions(w: &mut impl std::io::Write) -> usize {
    use crate::t1::kind_num;
    use std::io::Write as _;
    const REPS: usize = 70000;
    let mut n = 0;
    // C06: a reader that answers Interrupted REPS times, then delivers the rest of the frame
    struct Flaky {
        left: usize,
        data: &'static [u8],
        pos: usize,
    }
    impl Read for Flaky {
        fn read(&mut self, dest: &mut [u8]) -> std::io::Result<usize> {
            if self.left > 0 {
                self.left -= 1;
                return Err(std::io::Error::from(std::io::ErrorKind::Interrupted));
            }
            let k = dest.len().min(self.data.len() - self.pos);
            dest[..k].copy_from_slice(&self.data[self.pos..self.pos + k]);
            self.pos += k;
            Ok(k)
        }
    }
    let r = catch_unwind(AssertUnwindSafe(|| -> Result<(), String> {
        let mut buf: FixedBuf<16> = FixedBuf::new();
        buf.write_str("x").unwrap();
        let mut rd = Flaky { left: REPS, data: b"abc\n", pos: 0 };
        for call in 0..REPS + 10 {
            match buf.read_frame(&mut rd, deframe_line) {
                Ok(Some(f)) => {
                    return if f == b"xabc" { Ok(()) } else { Err(format!("frame {:?}", f)) };
                }
                Ok(None) => return Err(format!("end of stream at call {}", call)),
                Err(e) if e.kind() == std::io::ErrorKind::Interrupted => {
                    if buf.readable() != b"x" {
                        return Err(format!("buffer changed at call {}", call));
                    }
                }
                Err(e) => return Err(format!("call {}: error kind {:?} although the reader only ever said Interrupted", call, e.kind())),
            }
        }
        Err("no frame".into())
    }))
    .map_err(|_| ());
    verdict(w, "C06", REPS, "interrupted_repeated", r);
    n += 1;
    // C13 / C08 / C09: REPS writes answered Ok(0), REPS flushes, REPS one-byte reads through each adapter
    struct Zero {
        calls: usize,
        data: Vec<u8>,
        pos: usize,
    }
    impl Read for Zero {
        fn read(&mut self, dest: &mut [u8]) -> std::io::Result<usize> {
            let k = dest.len().min(self.data.len() - self.pos);
            dest[..k].copy_from_slice(&self.data[self.pos..self.pos + k]);
            self.pos += k;
            Ok(k)
        }
    }
    impl std::io::Write for Zero {
        fn write(&mut self, _b: &[u8]) -> std::io::Result<usize> {
            self.calls += 1;
            Ok(0)
        }
        fn flush(&mut self) -> std::io::Result<()> {
            self.calls += 1;
            Ok(())
        }
    }
    for adapter in ["chain", "take"] {
        let r = catch_unwind(AssertUnwindSafe(|| -> Result<(), String> {
            let data: Vec<u8> = (0..REPS + 5).map(|i| (i % 251) as u8).collect();
            let mut inner = Zero { calls: 0, data: data.clone(), pos: 0 };
            let mut first = Zero { calls: 0, data: vec![], pos: 0 };
            let mut chain;
            let mut take;
            let x: &mut dyn RW = if adapter == "chain" {
                chain = ReadWriteChain::new(&mut first, &mut inner);
                &mut chain
            } else {
                take = ReadWriteTake::new(&mut inner, (REPS + 3) as u64);
                &mut take
            };
            for i in 0..REPS {
                match x.write(b"abc") {
                    Ok(0) => {}
                    other => return Err(format!("write #{} returned {:?}", i + 1, other.map_err(|e| kind_num(e.kind())))),
                }
            }
            for i in 0..REPS {
                if let Err(e) = x.flush() {
                    return Err(format!("flush #{} returned {:?}", i + 1, e.kind()));
                }
            }
            for i in 0..REPS {
                let mut d = [0u8; 1];
                match x.read(&mut d) {
                    Ok(1) if d[0] == data[i] => {}
                    other => return Err(format!("read #{} returned {:?} / {}", i + 1, other.map_err(|e| kind_num(e.kind())), d[0])),
                }
            }
            Ok(())
        }))
        .map_err(|_| ());
        verdict(w, "C13", REPS, &format!("{}_writes_flushes_reads_repeated", adapter), r);
        n += 1;
    }
    // C01 / C03: REPS write-one / read-one rounds on one FixedBuf, with shift and try_parse in between
    let r = catch_unwind(AssertUnwindSafe(|| -> Result<(), String> {
        let mut buf: FixedBuf<8> = FixedBuf::new();
        buf.write_bytes(b"ab").unwrap();
        for i in 0..REPS {
            let b = (i % 200) as u8;
            buf.write_bytes(&[b]).map_err(|_| format!("write refused in round {}", i))?;
            let _ = buf.try_parse(|b| { b.read_all(); None::<()> });
            let got = buf.read_byte();
            let want = if i == 0 { b'a' } else if i == 1 { b'b' } else { ((i - 2) % 200) as u8 };
            if got != want || buf.len() != 2 {
                return Err(format!("round {}: got {} expected {}, len {}", i, got, want, buf.len()));
            }
            if i % 3 == 0 {
                buf.shift();
            }
        }
        Ok(())
    }))
    .map_err(|_| ());
    verdict(w, "C01", REPS, "write_read_rounds_repeated", r);
    n += 1;
    n
}

trait RW: Read + std::io::Write {}
impl<T: Read + std::io::Write> RW for T {}

/// C12 across calls: a `read_frame` call ends in a reader error / EOF with a partial frame buffered; the frame is then
/// completed by some OTHER writer of the buffer; the next `read_frame` (same or another deframer) must return it without
/// touching the reader
pub fn interleavings(w: &mut impl std::io::Write) -> usize {
    use std::io::Write as _;
    let mut n = 0;
    struct Script {
        acts: Vec<Option<std::io::ErrorKind>>, // None = EOF
        calls: usize,
    }
    impl Read for Script {
        fn read(&mut self, _d: &mut [u8]) -> std::io::Result<usize> {
            self.calls += 1;
            match if self.acts.is_empty() { None } else { self.acts.remove(0) } {
                Some(k) => Err(std::io::Error::from(k)),
                None => Ok(0),
            }
        }
    }
    use std::io::ErrorKind::*;
    for first in [Some(WouldBlock), Some(TimedOut), Some(Interrupted), Some(ConnectionReset), Some(Other), None] {
        for how in 0..6 {
            for (df1, df2) in [(0usize, 0usize), (1, 0), (0, 1)] {
                let r = catch_unwind(AssertUnwindSafe(|| -> Result<(), String> {
                    let dfs: [fn(&[u8]) -> Result<Option<(core::ops::Range<usize>, usize)>, MalformedInputError>; 2] = [deframe_line, deframe_crlf];
                    let mut buf: FixedBuf<16> = FixedBuf::new();
                    buf.write_str("ab").unwrap();
                    let mut rd = Script { acts: vec![first], calls: 0 };
                    let r1 = buf.read_frame(&mut rd, dfs[df1]).map(|o| o.map(|p| p.to_vec()));
                    match (&r1, first) {
                        (Err(e), Some(k)) if e.kind() == k => {}
                        (Err(e), None) if e.kind() == UnexpectedEof => {}
                        // an Interrupted answer may be retried transparently (C06 / C12): the retry then meets the end of the script
                        (Err(e), Some(Interrupted)) if e.kind() == UnexpectedEof => {}
                        other => return Err(format!("first call: {:?}", other.0.as_ref().map_err(|e| e.kind()))),
                    }
                    let tail: &[u8] = b"\r\n";
                    match how {
                        0 => {
                            buf.write_bytes(tail).map_err(|_| "refused")?;
                        }
                        1 => buf.write_str("\r\n").map_err(|_| "refused")?,
                        2 => {
                            buf.write(tail).map_err(|_| "refused")?;
                        }
                        3 => {
                            buf.writable()[..2].copy_from_slice(tail);
                            buf.wrote(2);
                        }
                        4 => {
                            let mut c = std::io::Cursor::new(tail.to_vec());
                            buf.copy_once_from(&mut c).map_err(|_| "refused")?;
                        }
                        _ => {
                            buf.shift();
                            buf.write_bytes(tail).map_err(|_| "refused")?;
                        }
                    }
                    let calls_before = rd.calls;
                    let r2 = buf.read_frame(&mut rd, dfs[df2]).map(|o| o.map(|p| p.to_vec())).map_err(|e| format!("{:?}", e.kind()))?;
                    if r2 != Some(b"ab".to_vec()) {
                        return Err(format!("second call returned {:?}", r2));
                    }
                    if rd.calls != calls_before {
                        return Err("the reader was called although a complete frame was buffered".into());
                    }
                    Ok(())
                }))
                .map_err(|_| ());
                verdict(w, "C12", 16, &format!("readframe_{:?}_then_writer{}_then_readframe_df{}{}", first, how, df1, df2), r);
                n += 1;
            }
        }
    }
    n
}

/// `read_to_string` on FixedBuf (another provided method): valid UTF-8 with multi-byte characters, and invalid bytes
pub fn read_to_string_cases(w: &mut impl std::io::Write) -> usize {
    let mut n = 0;
    let contents: [&[u8]; 6] = [b"", b"abc", "a\u{e9}\u{20ac}z".as_bytes(), "\u{1F600}".as_bytes(), b"ab\xffcd", b"\xE2\x82"];
    for (ci, content) in contents.iter().enumerate() {
        for ri in [0usize, 1] {
            let r = catch_unwind(AssertUnwindSafe(|| -> Result<(), String> {
                let mut buf: FixedBuf<16> = FixedBuf::new();
                buf.write_bytes(b"q").unwrap();
                buf.write_bytes(content).unwrap();
                if ri == 1 {
                    buf.read_bytes(1);
                }
                let expected: Vec<u8> = buf.readable().to_vec();
                let mut st = String::from("<");
                let r = buf.read_to_string(&mut st);
                match (std::str::from_utf8(&expected), r) {
                    (Ok(text), Ok(k)) => {
                        if k != expected.len() || st != format!("<{}", text) {
                            return Err(format!("returned {} and {:?} for {} bytes", k, st, expected.len()));
                        }
                        if !buf.is_empty() || buf.len() != 0 || buf.writable().len() != 16 {
                            return Err(format!("after draining: len {} writable {}", buf.len(), buf.writable().len()));
                        }
                    }
                    (Err(_), Err(e)) => {
                        if e.kind() != std::io::ErrorKind::InvalidData || st != "<" {
                            return Err(format!("invalid UTF-8: kind {:?}, string {:?}", e.kind(), st));
                        }
                    }
                    (a, b) => return Err(format!("validity {:?} but result {:?}", a.is_ok(), b.map_err(|e| e.kind()))),
                }
                Ok(())
            }))
            .map_err(|_| ());
            verdict(w, "C01", 16, &format!("read_to_string_content{}_ri{}", ci, ri), r.clone());
            verdict(w, "C03", 16, &format!("read_to_string_content{}_ri{}", ci, ri), r);
            n += 2;
        }
    }
    n
}

/// `deframe_line` without the quadratic rescans hurting the drip scenario too much: look only at the last byte first
fn deframe_null_free_line(data: &[u8]) -> Result<Option<(core::ops::Range<usize>, usize)>, MalformedInputError> {
    if data.last() != Some(&b'\n') {
        return Ok(None);
    }
    deframe_line(data)
}

/// C05: inputs of half a gigabyte (32-bit bit / byte offsets overflow at 2^26 words, 2^29 bytes)
pub fn huge_inputs(w: &mut impl std::io::Write) -> usize {
    let len: usize = (1 << 29) + 24;
    let mut data: Vec<u8> = vec![b'x'; len];
    let mut n = 0;
    for (name, term, pos) in [("line", &b"\n"[..], len - 7), ("crlf", &b"\r\n"[..], len - 13), ("null", &b"\0"[..], len - 5)] {
        data[pos..pos + term.len()].copy_from_slice(term);
        let r = catch_unwind(AssertUnwindSafe(|| -> Result<(), String> {
            let got = match name {
                "line" => deframe_line(&data),
                "crlf" => deframe_crlf(&data),
                _ => deframe_null(&data),
            }
            .map_err(|e| format!("{:?}", e))?;
            let want = Some((0..pos, pos + term.len()));
            if got != want {
                return Err(format!("{:?} expected {:?}", got, want));
            }
            Ok(())
        }))
        .map_err(|_| ());
        verdict(w, "C05", len, &format!("deframe_{}_{}", name, pos), r);
        for x in data[pos..pos + term.len()].iter_mut() {
            *x = b'x';
        }
        n += 1;
    }
    n
}

//! hex, PRNG, counting allocator
use std::alloc::{GlobalAlloc, Layout, System};
use std::sync::atomic::{AtomicBool, AtomicU64, Ordering};

pub fn hex(b: &[u8]) -> String {
    if b.is_empty() {
        return "-".into();
    }
    let mut s = String::with_capacity(b.len() * 2);
    for x in b {
        s.push(char::from_digit((x >> 4) as u32, 16).unwrap());
        s.push(char::from_digit((x & 15) as u32, 16).unwrap());
    }
    s
}

pub fn nums(v: &[usize]) -> String {
    if v.is_empty() {
        return "-".into();
    }
    v.iter().map(|x| x.to_string()).collect::<Vec<_>>().join(",")
}

/// splitmix64: every random choice derives from one state
pub struct Rng(pub u64);
impl Rng {
    pub fn next(&mut self) -> u64 {
        self.0 = self.0.wrapping_add(0x9E3779B97F4A7C15);
        let mut z = self.0;
        z = (z ^ (z >> 30)).wrapping_mul(0xBF58476D1CE4E5B9);
        z = (z ^ (z >> 27)).wrapping_mul(0x94D049BB133111EB);
        z ^ (z >> 31)
    }
    pub fn below(&mut self, n: usize) -> usize {
        if n == 0 {
            0
        } else {
            (self.next() % n as u64) as usize
        }
    }
    pub fn chance(&mut self, num: usize, den: usize) -> bool {
        self.below(den) < num
    }
    pub fn bytes(&mut self, n: usize, alpha: &[u8]) -> Vec<u8> {
        (0..n)
            .map(|_| if alpha.is_empty() { self.next() as u8 } else { alpha[self.below(alpha.len())] })
            .collect()
    }
}

/// all strings over `alpha` of length 0..=maxlen
pub fn strings(alpha: &[u8], maxlen: usize) -> Vec<Vec<u8>> {
    let mut out = vec![vec![]];
    let mut cur: Vec<Vec<u8>> = vec![vec![]];
    for _ in 0..maxlen {
        let mut nxt = vec![];
        for s in &cur {
            for a in alpha {
                let mut t = s.clone();
                t.push(*a);
                nxt.push(t);
            }
        }
        out.extend(nxt.iter().cloned());
        cur = nxt;
    }
    out
}

/// all strings over `alpha` of length exactly n
pub fn strings_exact(alpha: &[u8], n: usize) -> Vec<Vec<u8>> {
    strings(alpha, n).into_iter().filter(|s| s.len() == n).collect()
}

pub struct Counting;
static ALLOCS: AtomicU64 = AtomicU64::new(0);
static COUNTING: AtomicBool = AtomicBool::new(false);
unsafe impl GlobalAlloc for Counting {
    unsafe fn alloc(&self, l: Layout) -> *mut u8 {
        if COUNTING.load(Ordering::Relaxed) {
            ALLOCS.fetch_add(1, Ordering::Relaxed);
        }
        System.alloc(l)
    }
    unsafe fn dealloc(&self, p: *mut u8, l: Layout) {
        System.dealloc(p, l)
    }
    unsafe fn realloc(&self, p: *mut u8, l: Layout, n: usize) -> *mut u8 {
        if COUNTING.load(Ordering::Relaxed) {
            ALLOCS.fetch_add(1, Ordering::Relaxed);
        }
        System.realloc(p, l, n)
    }
    unsafe fn alloc_zeroed(&self, l: Layout) -> *mut u8 {
        if COUNTING.load(Ordering::Relaxed) {
            ALLOCS.fetch_add(1, Ordering::Relaxed);
        }
        System.alloc_zeroed(l)
    }
}
/// start counting heap allocations (single-threaded harness)
pub fn count_on() -> u64 {
    COUNTING.store(true, Ordering::Relaxed);
    ALLOCS.load(Ordering::Relaxed)
}
/// stop counting; returns allocations since `start`
pub fn count_off(start: u64) -> u64 {
    COUNTING.store(false, Ordering::Relaxed);
    ALLOCS.load(Ordering::Relaxed) - start
}
/// run `f` with counting paused (scripted collaborators use this)
pub fn uncounted<T>(f: impl FnOnce() -> T) -> T {
    let was = COUNTING.swap(false, Ordering::Relaxed);
    let r = f();
    COUNTING.store(was, Ordering::Relaxed);
    r
}

/// the byte strings the source under test mentions as literals (written by tools/extract.py --dict, path in FBV_DICT),
/// multi-byte tokens first; empty when the variable is not set
pub fn dict() -> Vec<Vec<u8>> {
    let path = match std::env::var("FBV_DICT") {
        Ok(p) => p,
        Err(_) => return vec![],
    };
    let txt = std::fs::read_to_string(path).unwrap_or_default();
    let mut v: Vec<Vec<u8>> = txt
        .lines()
        .filter_map(|l| {
            let l = l.trim();
            if l.is_empty() || l.len() % 2 != 0 {
                return None;
            }
            (0..l.len() / 2).map(|i| u8::from_str_radix(&l[2 * i..2 * i + 2], 16).ok()).collect::<Option<Vec<u8>>>()
        })
        .collect();
    v.sort_by_key(|t| (if t.len() > 1 { 0 } else { 1 }, t.len(), t.clone()));
    v.dedup();
    v
}

/// the integer literals of the source under test (tools/extract.py --nums, path in FBV_NUMS): used as lengths, limits,
/// destination and chunk sizes; empty when the variable is not set
pub fn nums_dict() -> Vec<usize> {
    let path = match std::env::var("FBV_NUMS") {
        Ok(p) => p,
        Err(_) => return vec![],
    };
    let mut v: Vec<usize> = std::fs::read_to_string(path).unwrap_or_default().lines().filter_map(|l| l.trim().parse::<u64>().ok()).map(|x| x as usize).collect();
    v.sort();
    v.dedup();
    v
}

//! C07: the documented request loop (tests/server.rs) over a scripted transport:
//!   read_frame -> header; n = len_of(header); ReadWriteTake(n) over ReadWriteChain(buffer, transport) drained with a
//!   destination-size schedule; response "OK" written through the adapters; repeat.
//!   PL <N> <srw> <dests> | <header:payload,...> ; <terminal> ; <written hex> ; <allocs on successful library calls>
use crate::ad::{mk, Log, RAct, Srw};
use crate::t1::kind_num;
use crate::util::*;
use fixed_buffer::*;
use std::io::{Read, Write};

pub fn len_of(h: &[u8]) -> usize {
    if h.is_empty() || h[0] < 0x30 {
        0
    } else {
        ((h[0] - 0x30) % 80) as usize
    }
}

pub fn pl_line<const N: usize>(srw: &Srw, dests: &[usize], w: &mut impl std::io::Write) {
    let log = Log::default();
    let mut transport = srw.twin(&log);
    let mut buf: FixedBuf<N> = FixedBuf::new();
    let mut reqs: Vec<String> = vec![];
    let mut allocs = 0u64;
    let terminal;
    let mut guard = 0;
    loop {
        guard += 1;
        if guard > 64 {
            terminal = "guard".to_string();
            break;
        }
        let s = count_on();
        let r = buf.read_frame(&mut transport, deframe_line);
        let a = count_off(s);
        let header: Vec<u8> = match r {
            Ok(Some(h)) => {
                allocs += a;
                h.to_vec()
            }
            Ok(None) => {
                allocs += a;
                terminal = "none".to_string();
                break;
            }
            Err(e) => {
                terminal = format!("err{}", kind_num(e.kind()));
                break;
            }
        };
        let n = len_of(&header);
        let mut payload: Vec<u8> = vec![];
        let mut failed: Option<String> = None;
        {
            let mut chain = ReadWriteChain::new(&mut buf, &mut transport);
            let mut take = ReadWriteTake::new(&mut chain, n as u64);
            let mut di = 0usize;
            let mut dest = vec![0u8; 8192];
            for _ in 0..100000 {
                let d = if dests.is_empty() { 8192 } else { dests[di % dests.len()] };
                di += 1;
                let s = count_on();
                let r = take.read(&mut dest[..d]);
                let a = count_off(s);
                match r {
                    Ok(0) if d > 0 => {
                        allocs += a;
                        break;
                    }
                    Ok(k) => {
                        allocs += a;
                        payload.extend_from_slice(&dest[..k]);
                    }
                    Err(e) => {
                        failed = Some(format!("err{}", kind_num(e.kind())));
                        break;
                    }
                }
            }
            if failed.is_none() {
                if let Err(e) = take.write_all(b"OK") {
                    failed = Some(format!("werr{}", kind_num(e.kind())));
                }
            }
        }
        reqs.push(format!("{}:{}", hex(&header), hex(&payload)));
        if let Some(f) = failed {
            terminal = f;
            break;
        }
    }
    let written: Vec<u8> = log.borrow().iter().filter(|e| e.starts_with('W')).flat_map(|e| crate::replay::unhex(e.split(':').nth(1).unwrap_or("-")).unwrap_or_default()).collect();
    let ds = if dests.is_empty() { "-".to_string() } else { nums(dests) };
    writeln!(w, "PL {} {} {} | {} ; {} ; {} ; {}", N, srw.describe(), ds, if reqs.is_empty() { "-".to_string() } else { reqs.join(",") }, terminal, hex(&written), allocs).unwrap();
}

fn compositions(n: usize) -> Vec<Vec<usize>> {
    if n == 0 {
        return vec![vec![]];
    }
    let mut out = vec![];
    for first in 1..=n {
        for mut rest in compositions(n - first) {
            let mut v = vec![first];
            v.append(&mut rest);
            out.push(v);
        }
    }
    out
}

pub fn dispatch(n: usize, srw: &Srw, dests: &[usize], w: &mut impl std::io::Write) -> bool {
    match n {
        3 => pl_line::<3>(srw, dests, w),
        4 => pl_line::<4>(srw, dests, w),
        5 => pl_line::<5>(srw, dests, w),
        6 => pl_line::<6>(srw, dests, w),
        8 => pl_line::<8>(srw, dests, w),
        16 => pl_line::<16>(srw, dests, w),
        33 => pl_line::<33>(srw, dests, w),
        64 => pl_line::<64>(srw, dests, w),
        96 => pl_line::<96>(srw, dests, w),
        128 => pl_line::<128>(srw, dests, w),
        200 => pl_line::<200>(srw, dests, w),
        _ => return false,
    }
    true
}

/// connection streams: 1..=3 requests `[len byte][extra]\n[payload]`, payload bytes may be delimiters
pub fn streams(rng: &mut Rng, count: usize, maxreq: usize) -> Vec<Vec<u8>> {
    let mut out = vec![];
    for _ in 0..count {
        let mut s = vec![];
        let k = 1 + rng.below(maxreq);
        for _ in 0..k {
            let n = [0usize, 1, 2, 3, 5, 9][rng.below(6)];
            s.push(0x30 + n as u8); // '0'+n: n % 16 == n for n <= 9
            if rng.chance(1, 3) {
                s.push(b'h');
            }
            if rng.chance(1, 4) {
                s.push(b'\r');
            }
            s.push(b'\n');
            for _ in 0..n {
                s.push([b'a', b'\n', b'b', b'\r'][rng.below(4)]);
            }
        }
        // sometimes truncate (EOF inside a header or payload), sometimes append garbage without delimiter
        match rng.below(5) {
            0 => {
                let cut = rng.below(s.len() + 1);
                s.truncate(cut);
            }
            1 => s.extend_from_slice(b"zz"),
            _ => {}
        }
        out.push(s);
    }
    out
}


/// many pipelined requests that arrive in big chunks into a large buffer: several complete requests are
/// buffered at once, headers start and end at every offset of the buffer (also beyond 64 / 128)
pub fn pipelined_stream(rng: &mut Rng, size: usize) -> Vec<u8> {
    let k = 4 + rng.below(12);
    let mut s: Vec<u8> = vec![];
    let hmax = [6usize, 14, 30, 54][rng.below(4)].min(size - 4);
    for j in 0..k {
        let n = match rng.below(6) {
            0 => 0,
            1 => 1 + rng.below(4),
            2 => 79,
            3 => 30 + rng.below(40),
            _ => rng.below(20),
        };
        s.push(0x30 + n as u8);
        let hl = if rng.chance(1, 3) { hmax } else { rng.below(hmax + 1) };
        for i in 0..hl {
            s.push(b'A' + ((i + j) % 26) as u8);
        }
        if rng.chance(1, 6) {
            s.push(b'\r');
        }
        s.push(b'\n');
        for i in 0..n {
            s.push([b'a' + (i % 26) as u8, b'\n', 0xff, b'\r'][if rng.chance(1, 5) { 1 + rng.below(3) } else { 0 }]);
        }
    }
    if rng.chance(1, 8) {
        let cut = rng.below(s.len() + 1);
        s.truncate(cut);
    }
    s
}

pub fn run(thorough: bool, seed: u64, w: &mut impl std::io::Write) {
    let mut rng = Rng(seed ^ 0x91);
    let mut n = 0usize;
    let scheds: Vec<Vec<usize>> = vec![vec![], vec![1], vec![2], vec![0, 1], vec![1, 0, 2], vec![3, 0, 0, 1], vec![9], vec![16, 0, 7]];
    // exhaustive chunkings of short connections
    let short = streams(&mut rng, if thorough { 60 } else { 16 }, 2);
    for s in short.iter().filter(|s| s.len() <= if thorough { 10 } else { 8 }) {
        for comp in compositions(s.len()) {
            let srw = mk(1, s, comp.iter().map(|k| RAct::Data(*k, false)).collect());
            for size in [4usize, 6, 8] {
                for ds in &scheds {
                    if dispatch(size, &srw, ds, w) {
                        n += 1;
                    }
                }
            }
        }
    }
    // longer connections, random chunkings (incl. scribbling short reads), bigger buffers
    let cases = if thorough { 30000 } else { 3000 };
    for s in streams(&mut rng, cases, 3) {
        let na = rng.below(12);
        let racts: Vec<RAct> = (0..na).map(|_| RAct::Data(1 + rng.below(6), rng.chance(1, 8))).collect();
        let srw = mk(1, &s, racts);
        let size = [4usize, 5, 6, 8, 16, 64][rng.below(6)];
        let ds = &scheds[rng.below(scheds.len())];
        if dispatch(size, &srw, ds, w) {
            n += 1;
        }
    }
    // long headers / payloads around the buffer size, chunk sizes around 8 and SIZE
    let lcases = if thorough { 20000 } else { 2500 };
    for _ in 0..lcases {
        let size = [16usize, 33, 64][rng.below(3)];
        let k = 1 + rng.below(3);
        let mut s: Vec<u8> = vec![];
        for _ in 0..k {
            let n = [0usize, 1, 9, size - 1, size, size + 7, 15, 31][rng.below(8)].min(79);
            s.push(0x30 + n as u8);
            let hl = [0usize, 1, size / 2, size - 3, size - 2][rng.below(5)];
            for i in 0..hl {
                s.push([b'h', 0x80, 0x0b, b'\r'][i % 4]);
            }
            if rng.chance(1, 3) {
                s.push(b'\r');
            }
            s.push(b'\n');
            for i in 0..n {
                s.push([b'a', b'\n', 0xff, b'\r', 0x01][(i + rng.below(2)) % 5]);
            }
        }
        if rng.chance(1, 4) {
            let cut = rng.below(s.len() + 1);
            s.truncate(cut);
        }
        let na = rng.below(10);
        let racts: Vec<RAct> = (0..na).map(|_| RAct::Data([1usize, 7, 8, 9, size - 1, size, size + 5, 1000][rng.below(8)], rng.chance(1, 10))).collect();
        let srw = mk(1, &s, racts);
        let ds = &scheds[rng.below(scheds.len())];
        if dispatch(size, &srw, ds, w) {
            n += 1;
        }
    }
    let pcases = if thorough { 12000 } else { 1500 };
    let pscheds: Vec<Vec<usize>> = vec![vec![], vec![50], vec![7, 64], vec![1, 0, 33], vec![128], vec![3]];
    for _ in 0..pcases {
        let size = [64usize, 96, 128, 200][rng.below(4)];
        let s = pipelined_stream(&mut rng, size);
        let na = rng.below(8);
        let racts: Vec<RAct> = (0..na).map(|_| RAct::Data([1usize, 8, 31, 32, 33, size / 2, size - 1, size, 1000][rng.below(9)], rng.chance(1, 10))).collect();
        let srw = mk(1, &s, racts);
        let ds = &pscheds[rng.below(pscheds.len())];
        if dispatch(size, &srw, ds, w) {
            n += 1;
        }
    }
    eprintln!("STAT pl scenarios={} long_scenarios={} pipelined_scenarios={}", n, lcases, pcases);
}

pub fn replay_line(l: &str, w: &mut impl std::io::Write) -> bool {
    let parts: Vec<&str> = l.split(" | ").collect();
    let head: Vec<&str> = parts[0].split(' ').collect();
    if head[0] != "PL" || head.len() != 4 {
        return false;
    }
    let log = Log::default();
    let ds: Option<Vec<usize>> = if head[3] == "-" { Some(vec![]) } else { head[3].split(',').map(|x| x.parse().ok()).collect() };
    match (head[1].parse::<usize>(), Srw::parse(head[2], &log), ds) {
        (Ok(n), Some(srw), Some(ds)) => dispatch(n, &srw, &ds, w),
        _ => false,
    }
}

//! T1: transition-level exploration of the real `FixedBuf<N>`.
//! Every line is one call applied to a copy of a real buffer, from the
//! implementation's own observed state:
//!   T1 <N> <mem> <ri> <wi> | <op> | <cls> <bytes> <nums> <log> <allocs> | <mem2> <ri2> <wi2> <rd2> <e2>
//!   T0 <N> <ctor> <mem> | <mem2> <ri2> <wi2> <rd2> <e2>
use crate::util::*;
use fixed_buffer::*;
use std::cell::Cell;
use std::collections::{HashSet, VecDeque};
use std::io::Write as _;
use std::panic::{catch_unwind, AssertUnwindSafe};

#[derive(Clone, Debug, PartialEq, Eq, Hash)]
pub enum ROp {
    ReadByte,
    TryReadByte,
    ReadBytes(usize),
    TryReadBytes(usize),
    ReadAndCopy(usize),
    TryReadExact(usize),
    ReadAll,
    TryParse(Vec<ROp>, bool),
}

#[derive(Clone, Debug, PartialEq, Eq, Hash)]
pub enum Resp {
    Data(Vec<u8>, bool),
    Err(u8),
    Panic,
}

#[derive(Clone, Copy, Debug, PartialEq, Eq, Hash)]
pub enum Df {
    Line,
    Crlf,
    Null,
    Reject,
    RejectX,
    LenPrefix,
}
pub const ALL_DF: [Df; 6] = [Df::Line, Df::Crlf, Df::Null, Df::Reject, Df::RejectX, Df::LenPrefix];
impl Df {
    pub fn name(self) -> &'static str {
        match self {
            Df::Line => "line",
            Df::Crlf => "crlf",
            Df::Null => "null",
            Df::Reject => "reject",
            Df::RejectX => "rejectx",
            Df::LenPrefix => "lenp",
        }
    }
    pub fn from_name(s: &str) -> Option<Df> {
        ALL_DF.iter().copied().find(|d| d.name() == s)
    }
    pub fn call(self, data: &[u8]) -> Result<Option<(core::ops::Range<usize>, usize)>, MalformedInputError> {
        match self {
            Df::Line => deframe_line(data),
            Df::Crlf => deframe_crlf(data),
            Df::Null => deframe_null(data),
            Df::Reject => Err(uncounted(|| MalformedInputError::new(String::from("rejected")))),
            Df::RejectX => {
                if data.contains(&b'x') || data.contains(&b'X') {
                    return Err(uncounted(|| MalformedInputError::new(String::from("x"))));
                }
                deframe_line(data)
            }
            Df::LenPrefix => {
                if data.is_empty() {
                    return Ok(None);
                }
                let l = (data[0] % 4) as usize;
                if data.len() < 1 + l {
                    Ok(None)
                } else {
                    Ok(Some((1..1 + l, 1 + l)))
                }
            }
        }
    }
}

#[derive(Clone, Debug, PartialEq, Eq, Hash)]
pub enum Op {
    WriteBytes(Vec<u8>),
    WriteStr(Vec<u8>),
    IoWrite(Vec<u8>),
    IoFlush,
    PokeWrote(Vec<u8>, usize),
    CopyOnce(Resp),
    ReadBytes(usize),
    TryReadBytes(usize),
    ReadByte,
    TryReadByte,
    ReadAll,
    ReadAndCopy(usize),
    TryReadExact(usize),
    IoRead(usize),
    Shift,
    Clear,
    Deframe(Df),
    TryParse(Vec<ROp>, bool),
}

pub fn rops_str(ops: &[ROp]) -> String {
    let mut v: Vec<String> = vec![];
    fn go(ops: &[ROp], v: &mut Vec<String>) {
        for o in ops {
            match o {
                ROp::ReadByte => v.push("rbyte".into()),
                ROp::TryReadByte => v.push("trbyte".into()),
                ROp::ReadBytes(n) => v.push(format!("rb:{}", n)),
                ROp::TryReadBytes(n) => v.push(format!("trb:{}", n)),
                ROp::ReadAndCopy(n) => v.push(format!("rac:{}", n)),
                ROp::TryReadExact(n) => v.push(format!("tre:{}", n)),
                ROp::ReadAll => v.push("rall".into()),
                ROp::TryParse(inner, sm) => {
                    v.push("B".into());
                    go(inner, v);
                    v.push(format!("E{}", *sm as u8));
                }
            }
        }
    }
    go(ops, &mut v);
    if v.is_empty() {
        "-".into()
    } else {
        v.join(",")
    }
}

pub fn opstr(op: &Op) -> String {
    match op {
        Op::WriteBytes(d) => format!("wb {}", hex(d)),
        Op::WriteStr(d) => format!("ws {}", hex(d)),
        Op::IoWrite(d) => format!("iow {}", hex(d)),
        Op::IoFlush => "iofl".into(),
        Op::PokeWrote(d, n) => format!("pw {} {}", hex(d), n),
        Op::CopyOnce(Resp::Data(d, s)) => format!("cof d {} {}", hex(d), *s as u8),
        Op::CopyOnce(Resp::Err(k)) => format!("cof e {}", k),
        Op::CopyOnce(Resp::Panic) => "cof p".into(),
        Op::ReadBytes(n) => format!("rb {}", n),
        Op::TryReadBytes(n) => format!("trb {}", n),
        Op::ReadByte => "rbyte".into(),
        Op::TryReadByte => "trbyte".into(),
        Op::ReadAll => "rall".into(),
        Op::ReadAndCopy(d) => format!("rac {}", d),
        Op::TryReadExact(d) => format!("tre {}", d),
        Op::IoRead(d) => format!("ior {}", d),
        Op::Shift => "shift".into(),
        Op::Clear => "clear".into(),
        Op::Deframe(f) => format!("dfr {}", f.name()),
        Op::TryParse(ops, sm) => format!("tp {} {}", rops_str(ops), *sm as u8),
    }
}

pub fn kind_num(k: std::io::ErrorKind) -> u8 {
    use std::io::ErrorKind::*;
    match k {
        InvalidData => 0,
        UnexpectedEof => 1,
        Interrupted => 2,
        WouldBlock => 3,
        TimedOut => 4,
        ConnectionReset => 5,
        Other => 6,
        NotFound => 7,
        PermissionDenied => 8,
        ConnectionRefused => 9,
        HostUnreachable => 10,
        NetworkUnreachable => 11,
        ConnectionAborted => 12,
        NotConnected => 13,
        AddrInUse => 14,
        AddrNotAvailable => 15,
        NetworkDown => 16,
        BrokenPipe => 17,
        AlreadyExists => 18,
        NotADirectory => 19,
        IsADirectory => 20,
        DirectoryNotEmpty => 21,
        ReadOnlyFilesystem => 22,
        StaleNetworkFileHandle => 23,
        InvalidInput => 24,
        WriteZero => 25,
        StorageFull => 26,
        NotSeekable => 27,
        FileTooLarge => 28,
        ResourceBusy => 29,
        ExecutableFileBusy => 30,
        Deadlock => 31,
        TooManyLinks => 32,
        ArgumentListTooLong => 33,
        Unsupported => 34,
        OutOfMemory => 35,
        QuotaExceeded => 36,
        CrossesDevices => 37,
        InvalidFilename => 38,
        _ => 99,
    }
}

/// a scripted error of kind `k`, built in one of the ways real readers build theirs — a message, a bare kind, or a
/// WRAPPED error of another kind (layered transports: TLS over TCP, timeouts) — chosen by a running counter; the kind
/// the caller must see is `k` in every case
pub fn scripted_error(k: u8) -> std::io::Error {
    use std::sync::atomic::{AtomicUsize, Ordering};
    static SHAPE: AtomicUsize = AtomicUsize::new(0);
    let kind = num_kind(k);
    match SHAPE.fetch_add(1, Ordering::Relaxed) % 4 {
        0 => std::io::Error::new(kind, "scripted"),
        1 => std::io::Error::from(kind),
        2 => {
            let inner = if kind == std::io::ErrorKind::WouldBlock { std::io::ErrorKind::TimedOut } else { std::io::ErrorKind::WouldBlock };
            std::io::Error::new(kind, std::io::Error::new(inner, "inner"))
        }
        _ => {
            let inner = if kind == std::io::ErrorKind::Interrupted { std::io::ErrorKind::Other } else { std::io::ErrorKind::Interrupted };
            std::io::Error::new(kind, std::io::Error::new(std::io::ErrorKind::Other, std::io::Error::from(inner)))
        }
    }
}

pub fn num_kind(k: u8) -> std::io::ErrorKind {
    use std::io::ErrorKind::*;
    match k {
        0 => InvalidData,
        1 => UnexpectedEof,
        2 => Interrupted,
        3 => WouldBlock,
        4 => TimedOut,
        5 => ConnectionReset,
        7 => NotFound,
        8 => PermissionDenied,
        9 => ConnectionRefused,
        10 => HostUnreachable,
        11 => NetworkUnreachable,
        12 => ConnectionAborted,
        13 => NotConnected,
        14 => AddrInUse,
        15 => AddrNotAvailable,
        16 => NetworkDown,
        17 => BrokenPipe,
        18 => AlreadyExists,
        19 => NotADirectory,
        20 => IsADirectory,
        21 => DirectoryNotEmpty,
        22 => ReadOnlyFilesystem,
        23 => StaleNetworkFileHandle,
        24 => InvalidInput,
        25 => WriteZero,
        26 => StorageFull,
        27 => NotSeekable,
        28 => FileTooLarge,
        29 => ResourceBusy,
        30 => ExecutableFileBusy,
        31 => Deadlock,
        32 => TooManyLinks,
        33 => ArgumentListTooLong,
        34 => Unsupported,
        35 => OutOfMemory,
        36 => QuotaExceeded,
        37 => CrossesDevices,
        38 => InvalidFilename,
        _ => Other,
    }
}

#[derive(Default, Debug)]
pub struct Out {
    pub cls: String,
    pub bytes: Vec<u8>,
    pub nums: Vec<usize>,
    pub log: Vec<usize>,
    pub allocs: u64,
}
impl Out {
    pub fn c(cls: &str) -> Out {
        Out { cls: cls.into(), ..Default::default() }
    }
    pub fn render(&self) -> String {
        format!("{} {} {} {} {}", self.cls, hex(&self.bytes), nums(&self.nums), nums(&self.log), self.allocs)
    }
}

#[derive(Clone, PartialEq, Eq, Hash, Debug)]
pub struct St {
    pub mem: Vec<u8>,
    pub ri: usize,
    pub wi: usize,
    pub rd: Vec<u8>,
    pub e: bool,
}
impl St {
    pub fn render_full(&self) -> String {
        format!("{} {} {} {} {}", hex(&self.mem), self.ri, self.wi, hex(&self.rd), self.e as u8)
    }
    pub fn render_pre(&self) -> String {
        format!("{} {} {}", hex(&self.mem), self.ri, self.wi)
    }
}

/// the buffer's state as the public API shows it
pub fn observe<const N: usize>(b: &FixedBuf<N>) -> Option<St> {
    catch_unwind(AssertUnwindSafe(|| {
        let mut c = *b;
        let wl = c.writable().len();
        let wi = N.wrapping_sub(wl);
        let len = b.len();
        let ri = wi.wrapping_sub(len);
        St { mem: b.mem().to_vec(), ri, wi, rd: b.readable().to_vec(), e: b.is_empty() }
    }))
    .ok()
}

/// scripted reader for copy_once_from: one response, logs destination lengths
pub struct OneShot {
    pub resp: Resp,
    pub log: Vec<usize>,
}
impl std::io::Read for OneShot {
    fn read(&mut self, dest: &mut [u8]) -> std::io::Result<usize> {
        uncounted(|| {
            self.log.push(dest.len());
            match &self.resp {
                Resp::Panic => panic!("scripted reader panic"),
                Resp::Err(k) => Err(scripted_error(*k)),
                Resp::Data(d, scr) => {
                    if *scr {
                        for x in dest.iter_mut() {
                            *x = 0xEE;
                        }
                    }
                    let k = d.len().min(dest.len());
                    dest[..k].copy_from_slice(&d[..k]);
                    Ok(k)
                }
            }
        })
    }
}

fn run_script<const N: usize>(b: &mut FixedBuf<N>, ops: &[ROp]) {
    for op in ops {
        match op {
            ROp::ReadByte => {
                b.read_byte();
            }
            ROp::TryReadByte => {
                b.try_read_byte();
            }
            ROp::ReadBytes(n) => {
                b.read_bytes(*n);
            }
            ROp::TryReadBytes(n) => {
                b.try_read_bytes(*n);
            }
            ROp::ReadAndCopy(d) => {
                let mut dest = [0u8; 8];
                b.read_and_copy_bytes(&mut dest[..*d]);
            }
            ROp::TryReadExact(d) => {
                let mut dest = [0u8; 8];
                b.try_read_exact(&mut dest[..*d]);
            }
            ROp::ReadAll => {
                b.read_all();
            }
            ROp::TryParse(inner, sm) => {
                b.try_parse(|b| {
                    run_script(b, inner);
                    if *sm {
                        Some(())
                    } else {
                        None
                    }
                });
            }
        }
    }
}

macro_rules! meas {
    ($a:expr, $e:expr) => {{
        let s = count_on();
        let r = $e;
        $a = count_off(s);
        r
    }};
}

/// apply one call to the real buffer (may panic; the caller catches)
pub fn apply<const N: usize>(b: &mut FixedBuf<N>, op: &Op) -> Out {
    let mut a: u64 = 0;
    let mut out = match op {
        Op::WriteBytes(d) => match meas!(a, b.write_bytes(d)) {
            Ok(n) => Out { cls: "ok".into(), nums: vec![n], ..Default::default() },
            Err(_) => Out::c("refused"),
        },
        Op::WriteStr(d) => {
            let s = std::str::from_utf8(d).expect("harness generates ASCII for write_str");
            match meas!(a, b.write_str(s)) {
                Ok(()) => Out::c("ok"),
                Err(_) => Out::c("refused"),
            }
        }
        Op::IoWrite(d) => match meas!(a, std::io::Write::write(b, d)) {
            Ok(n) => Out { cls: "ok".into(), nums: vec![n], ..Default::default() },
            Err(e) => Out::c(&format!("err{}", kind_num(e.kind()))),
        },
        Op::IoFlush => match meas!(a, std::io::Write::flush(b)) {
            Ok(()) => Out::c("ok"),
            Err(e) => Out::c(&format!("err{}", kind_num(e.kind()))),
        },
        Op::PokeWrote(d, n) => {
            let w = b.writable();
            let k = d.len().min(w.len());
            w[..k].copy_from_slice(&d[..k]);
            meas!(a, b.wrote(*n));
            Out::c("ok")
        }
        Op::CopyOnce(resp) => {
            let mut r = OneShot { resp: resp.clone(), log: Vec::with_capacity(4) };
            let res = meas!(a, b.copy_once_from(&mut r));
            match res {
                Ok(n) => Out { cls: "ok".into(), nums: vec![n], log: r.log, ..Default::default() },
                Err(e) => Out { cls: format!("err{}", kind_num(e.kind())), log: r.log, ..Default::default() },
            }
        }
        Op::ReadBytes(n) => {
            let s = meas!(a, b.read_bytes(*n));
            Out { cls: "ok".into(), bytes: s.to_vec(), ..Default::default() }
        }
        Op::TryReadBytes(n) => match meas!(a, b.try_read_bytes(*n)) {
            Some(s) => Out { cls: "some".into(), bytes: s.to_vec(), ..Default::default() },
            None => Out::c("none"),
        },
        Op::ReadByte => {
            let x = meas!(a, b.read_byte());
            Out { cls: "ok".into(), bytes: vec![x], ..Default::default() }
        }
        Op::TryReadByte => match meas!(a, b.try_read_byte()) {
            Some(x) => Out { cls: "some".into(), bytes: vec![x], ..Default::default() },
            None => Out::c("none"),
        },
        Op::ReadAll => {
            let s = meas!(a, b.read_all());
            Out { cls: "ok".into(), bytes: s.to_vec(), ..Default::default() }
        }
        Op::ReadAndCopy(d) => {
            let mut dest = vec![0xEEu8; *d];
            let n = meas!(a, b.read_and_copy_bytes(&mut dest));
            Out { cls: "ok".into(), bytes: dest, nums: vec![n], ..Default::default() }
        }
        Op::TryReadExact(d) => {
            let mut dest = vec![0xEEu8; *d];
            match meas!(a, b.try_read_exact(&mut dest)) {
                Some(()) => Out { cls: "some".into(), bytes: dest, ..Default::default() },
                None => Out { cls: "none".into(), bytes: dest, ..Default::default() },
            }
        }
        Op::IoRead(d) => {
            let mut dest = vec![0xEEu8; *d];
            match meas!(a, std::io::Read::read(b, &mut dest)) {
                Ok(n) => Out { cls: "ok".into(), bytes: dest, nums: vec![n], ..Default::default() },
                Err(e) => Out::c(&format!("err{}", kind_num(e.kind()))),
            }
        }
        Op::Shift => {
            meas!(a, b.shift());
            Out::c("ok")
        }
        Op::Clear => {
            meas!(a, b.clear());
            Out::c("ok")
        }
        Op::Deframe(f) => {
            let said: Cell<Option<usize>> = Cell::new(None);
            let f = *f;
            let res = meas!(
                a,
                b.deframe(|d: &[u8]| {
                    let r = f.call(d);
                    if let Ok(Some((_, n))) = &r {
                        said.set(Some(*n));
                    }
                    r
                })
            );
            match res {
                Ok(Some(r)) => {
                    let pl = b.mem()[r.clone()].to_vec();
                    Out {
                        cls: "some".into(),
                        bytes: pl,
                        nums: vec![r.start, r.end, said.get().unwrap_or(usize::MAX)],
                        ..Default::default()
                    }
                }
                Ok(None) => Out::c("none"),
                Err(e) => Out::c(&format!("err{}", kind_num(e.kind()))),
            }
        }
        Op::TryParse(ops, sm) => {
            let r = meas!(
                a,
                b.try_parse(|b| {
                    run_script(b, ops);
                    if *sm {
                        Some(())
                    } else {
                        None
                    }
                })
            );
            match r {
                Some(()) => Out::c("some"),
                None => Out::c("none"),
            }
        }
    };
    out.allocs = a;
    out
}

/// one transition from a copy of `b`; returns the successor (if observable)
pub fn transition<const N: usize>(
    b: &FixedBuf<N>,
    s: &St,
    op: &Op,
    w: &mut impl std::io::Write,
) -> Option<(FixedBuf<N>, St)> {
    let mut c = *b;
    let r = catch_unwind(AssertUnwindSafe(|| apply(&mut c, op)));
    let out = match r {
        Ok(o) => o,
        Err(_) => {
            count_off(0);
            Out::c("panic")
        }
    };
    let s2 = observe(&c);
    match &s2 {
        Some(s2) => writeln!(w, "T1 {} {} | {} | {} | {}", N, s.render_pre(), opstr(op), out.render(), s2.render_full()).unwrap(),
        None => writeln!(w, "T1 {} {} | {} | {} | X", N, s.render_pre(), opstr(op), out.render()).unwrap(),
    }
    s2.map(|s2| (c, s2))
}

pub fn basic_rops(n: usize, rich: bool) -> Vec<ROp> {
    let mut v = vec![ROp::ReadByte, ROp::TryReadByte, ROp::ReadAll];
    let cnt: Vec<usize> = if rich { vec![0, 1, 2, n] } else { vec![1, 2] };
    let mut seen = HashSet::new();
    for c in cnt {
        if !seen.insert(c) || c > 8 {
            continue;
        }
        v.push(ROp::ReadBytes(c));
        v.push(ROp::TryReadBytes(c));
        v.push(ROp::ReadAndCopy(c));
        v.push(ROp::TryReadExact(c));
    }
    v
}

/// scripts for try_parse: all sequences of length <= maxlen over basic read ops and one-level nested try_parse
pub fn scripts(n: usize, maxlen: usize, rich: bool) -> Vec<Vec<ROp>> {
    let basic = basic_rops(n, rich);
    let mut singles: Vec<ROp> = basic.clone();
    for b in &basic {
        singles.push(ROp::TryParse(vec![b.clone()], false));
        singles.push(ROp::TryParse(vec![b.clone()], true));
    }
    let mut out: Vec<Vec<ROp>> = vec![vec![]];
    let mut cur: Vec<Vec<ROp>> = vec![vec![]];
    for _ in 0..maxlen {
        let mut nxt = vec![];
        for s in &cur {
            for x in &singles {
                let mut t = s.clone();
                t.push(x.clone());
                nxt.push(t);
            }
        }
        out.extend(nxt.iter().cloned());
        cur = nxt;
    }
    // a deeper nesting and a nested pair
    out.push(vec![ROp::TryParse(vec![ROp::ReadByte, ROp::TryParse(vec![ROp::ReadAll], false), ROp::ReadByte], true)]);
    out.push(vec![ROp::TryParse(vec![ROp::ReadByte, ROp::TryParse(vec![ROp::ReadByte], true)], false), ROp::ReadByte]);
    out
}

pub struct Scope {
    pub alpha: Vec<u8>,
    pub write_maxlen: usize, // all strings up to this length are written
    pub tp_len: usize,       // try_parse script length
    pub tp_rich: bool,
    pub max_states: usize,
}

/// the calls tried from every state (those that do not depend on the state)
fn fixed_ops<const N: usize>(sc: &Scope) -> Vec<Op> {
    let mut ops = vec![Op::ReadByte, Op::TryReadByte, Op::ReadAll, Op::Shift, Op::Clear, Op::IoFlush];
    for f in ALL_DF {
        ops.push(Op::Deframe(f));
    }
    let mut ws = strings(&sc.alpha, sc.write_maxlen.min(N + 1));
    for l in (sc.write_maxlen + 1)..=(N + 1) {
        ws.push((0..l).map(|i| sc.alpha[i % sc.alpha.len()]).collect());
    }
    for d in &ws {
        ops.push(Op::WriteBytes(d.clone()));
        ops.push(Op::IoWrite(d.clone()));
        if d.len() <= 2 || d.len() >= N {
            ops.push(Op::WriteStr(d.clone()));
        }
    }
    let big = [usize::MAX, usize::MAX - 1, 1usize << 63, (1usize << 63) - 1, 1usize << 32];
    for n in (0..=N + 1).chain(big) {
        ops.push(Op::ReadBytes(n));
        ops.push(Op::TryReadBytes(n));
    }
    for d in 0..=N + 1 {
        ops.push(Op::ReadAndCopy(d));
        ops.push(Op::TryReadExact(d));
        ops.push(Op::IoRead(d));
    }
    for d in strings(&sc.alpha, N.min(2)) {
        for n in (0..=N + 1).chain(big) {
            ops.push(Op::PokeWrote(d.clone(), n));
        }
    }
    let mut cs = strings(&sc.alpha, 2.min(N + 1));
    cs.push((0..N + 1).map(|i| sc.alpha[i % sc.alpha.len()]).collect());
    if N >= 2 {
        cs.push((0..N).map(|i| sc.alpha[(i + 1) % sc.alpha.len()]).collect());
    }
    for d in cs {
        ops.push(Op::CopyOnce(Resp::Data(d.clone(), false)));
        ops.push(Op::CopyOnce(Resp::Data(d, true)));
    }
    for k in [2u8, 3, 4, 5, 6] {
        ops.push(Op::CopyOnce(Resp::Err(k)));
    }
    ops.push(Op::CopyOnce(Resp::Panic));
    for s in scripts(N, sc.tp_len, sc.tp_rich) {
        ops.push(Op::TryParse(s.clone(), false));
        ops.push(Op::TryParse(s, true));
    }
    ops
}

/// counts that make `index + count` wrap around to a small value, for this state
fn wrap_ops<const N: usize>(s: &St) -> Vec<Op> {
    let mut ops = vec![];
    for j in 0..=N + 1 {
        // ri + n == j (mod 2^64)
        if s.ri > 0 {
            let n = j.wrapping_sub(s.ri);
            ops.push(Op::ReadBytes(n));
            ops.push(Op::TryReadBytes(n));
        }
        if s.wi > 0 {
            let n = j.wrapping_sub(s.wi);
            ops.push(Op::PokeWrote(vec![], n));
        }
    }
    for k in 0..=N + 1 {
        ops.push(Op::ReadBytes(usize::MAX - k));
        ops.push(Op::PokeWrote(vec![], usize::MAX - k));
    }
    ops
}

fn ctor_line<const N: usize>(w: &mut impl std::io::Write, ctor: &str, m: &[u8], b: &FixedBuf<N>) -> Option<St> {
    let s = observe(b);
    match &s {
        Some(s) => writeln!(w, "T0 {} {} {} | {}", N, ctor, hex(m), s.render_full()).unwrap(),
        None => writeln!(w, "T0 {} {} {} | X", N, ctor, hex(m)).unwrap(),
    }
    s
}

pub struct Stats {
    pub states: usize,
    pub transitions: usize,
    pub capped: bool,
}

/// breadth-first exploration of every state reachable from every constructor, every call from each
pub fn explore<const N: usize>(sc: &Scope, w: &mut impl std::io::Write) -> Stats {
    let ops = fixed_ops::<N>(sc);
    let mut seen: HashSet<(Vec<u8>, usize, usize)> = HashSet::new();
    let mut q: VecDeque<(FixedBuf<N>, St)> = VecDeque::new();
    let mut inits: Vec<(FixedBuf<N>, &str, Vec<u8>)> =
        vec![(FixedBuf::new(), "new", vec![]), (FixedBuf::default(), "default", vec![])];
    let mut mem_alpha = sc.alpha.clone();
    mem_alpha.push(0);
    for m in strings_exact(&mem_alpha, N) {
        let mut a = [0u8; N];
        a.copy_from_slice(&m);
        inits.push((FixedBuf::empty(a), "empty", m.clone()));
        inits.push((FixedBuf::filled(a), "filled", m));
    }
    for (b, c, m) in inits {
        if let Some(s) = ctor_line(w, c, &m, &b) {
            if seen.insert((s.mem.clone(), s.ri, s.wi)) {
                q.push_back((b, s));
            }
        }
    }
    let mut trans = 0usize;
    let mut capped = false;
    while let Some((b, s)) = q.pop_front() {
        let extra = wrap_ops::<N>(&s);
        for op in ops.iter().chain(extra.iter()) {
            trans += 1;
            if let Some((c, s2)) = transition(&b, &s, op, w) {
                // successors of scribbling readers differ only in stale bytes: explored, not expanded
                let scribble = matches!(op, Op::CopyOnce(Resp::Data(_, true)));
                if !scribble && !seen.contains(&(s2.mem.clone(), s2.ri, s2.wi)) {
                    if seen.len() >= sc.max_states {
                        capped = true;
                    } else {
                        seen.insert((s2.mem.clone(), s2.ri, s2.wi));
                        q.push_back((c, s2));
                    }
                }
            }
        }
    }
    Stats { states: seen.len(), transitions: trans, capped }
}

/// every index shape `(ri, wi)` at a moderate size, distinct byte values in `mem`, a fixed set of calls with
/// boundary arguments: covers index-arithmetic that only goes wrong for particular offset/length combinations
pub fn grid<const N: usize>(variant: usize, w: &mut impl std::io::Write) -> usize {
    let mut n = 0;
    let mem: Vec<u8> = match variant {
        0 => (0..N).map(|i| if i % 5 == 3 { b'\n' } else { 0x41 + (i as u8 % 26) }).collect(),
        // high bytes, equal neighbours, CR LF pairs and NULs at varying alignments
        1 => (0..N).map(|i| match i % 11 { 3 => b'\r', 4 => b'\n', 7 => 0, 8 | 9 => 0x80 + (i as u8 / 11), _ => 0xf0u8.wrapping_add(i as u8) }).collect(),
        _ => (0..N).map(|i| if i % 9 == 8 { b'\n' } else { 0x7f }).collect(),
    };
    for wi in 0..=N {
        for ri in 0..=wi {
            if ri == wi && ri > 0 {
                continue;
            }
            let mut a = [0u8; N];
            a.copy_from_slice(&mem);
            let mut b = FixedBuf::empty(a);
            b.wrote(wi);
            if ri > 0 {
                b.read_bytes(ri);
            }
            let s = match observe(&b) {
                Some(s) => s,
                None => continue,
            };
            let len = wi - ri;
            let free = N - wi;
            let mut ops = vec![Op::Shift, Op::Clear, Op::ReadAll, Op::ReadByte, Op::TryReadByte, Op::IoFlush];
            for f in ALL_DF {
                ops.push(Op::Deframe(f));
            }
            for k in [0usize, 1, 2, len / 2, len.saturating_sub(1), len, len + 1] {
                ops.push(Op::ReadBytes(k));
                ops.push(Op::TryReadBytes(k));
                ops.push(Op::ReadAndCopy(k));
                ops.push(Op::TryReadExact(k));
                ops.push(Op::IoRead(k));
            }
            for k in [0usize, 1, free / 2, free.saturating_sub(1), free, free + 1] {
                let d: Vec<u8> = (0..k).map(|i| 0x61 + (i as u8 % 26)).collect();
                ops.push(Op::WriteBytes(d.clone()));
                ops.push(Op::IoWrite(d.clone()));
                ops.push(Op::PokeWrote(d.clone(), k));
                ops.push(Op::CopyOnce(Resp::Data(d.clone(), false)));
                ops.push(Op::CopyOnce(Resp::Data(d, true)));
            }
            ops.push(Op::TryParse(vec![ROp::ReadByte, ROp::ReadAll], false));
            ops.push(Op::TryParse(vec![ROp::ReadAll], true));
            ops.sort_by_key(|o| opstr(o));
            ops.dedup();
            for op in &ops {
                transition(&b, &s, op, w);
                n += 1;
            }
        }
    }
    n
}

/// large buffers: every index shape, a handful of calls (thresholds / block sizes that only large offsets reach)
pub fn grid_lite<const N: usize>(dense: bool, w: &mut impl std::io::Write) -> usize {
    let mut n = 0;
    let mem: Vec<u8> = (0..N).map(|i| (i as u8).wrapping_mul(7).wrapping_add(1)).collect();
    for ri in 0..=N {
        // unread lengths: small ones, every multiple of 8 (and its neighbours), the read offset itself (and its neighbours),
        // and whatever reaches the end of the buffer
        let mut lens: Vec<usize> = (0..=9).collect();
        let mut m = 8;
        while m <= N {
            lens.extend([m - 1, m, m + 1]);
            m += if dense { 8 } else { 16 };
        }
        lens.extend([ri.saturating_sub(1), ri, ri + 1, 2 * ri, N - ri, (N - ri).saturating_sub(1), (N - ri).saturating_sub(2)]);
        lens.sort();
        lens.dedup();
        for len in lens {
            let wi = ri + len;
            if wi > N || (ri == wi && ri > 0) {
                continue;
            }
            let mut a = [0u8; N];
            a.copy_from_slice(&mem);
            let mut b = FixedBuf::empty(a);
            b.wrote(wi);
            if ri > 0 {
                b.read_bytes(ri);
            }
            if let Some(s) = observe(&b) {
                let free = N - wi;
                let d: Vec<u8> = (0..free).map(|i| 0x61 + (i as u8 % 26)).collect();
                for op in [Op::Shift, Op::ReadAll, Op::ReadBytes(len / 2), Op::ReadBytes(len), Op::IoRead(len.saturating_sub(1)), Op::WriteBytes(d.clone()),
                           Op::CopyOnce(Resp::Data(d, true)), Op::TryParse(vec![ROp::ReadBytes(len / 2), ROp::ReadAll], false), Op::Deframe(Df::Null)] {
                    transition(&b, &s, &op, w);
                    n += 1;
                }
            }
        }
    }
    n
}


/// buffers beyond 4 KiB (thresholds on `size_of::<Self>()`, page-sized windows): a sparse set of index shapes, a wide set
/// of calls
pub fn sparse_big<const N: usize>(w: &mut impl std::io::Write) -> usize {
    let mut n = 0;
    let mem: Vec<u8> = (0..N).map(|i| if i % 97 == 96 { b'\n' } else { 0x41 + (i % 53) as u8 }).collect();
    let ris = [0usize, 1, 8, 4095, 4096.min(N - 1), N / 2, N - 9, N - 1];
    for &ri in ris.iter().filter(|r| **r <= N) {
        let mut lens: Vec<usize> = vec![0, 1, 2, 9, 4095, 4096, 4097, N - ri, (N - ri).saturating_sub(1), (N - ri) / 2, ri];
        lens.sort();
        lens.dedup();
        for len in lens {
            let wi = ri + len;
            if wi > N || (ri == wi && ri > 0) {
                continue;
            }
            let mut b: Box<FixedBuf<N>> = Box::new(FixedBuf::new());
            {
                let wr = b.writable();
                wr.copy_from_slice(&mem);
            }
            b.wrote(wi);
            if ri > 0 {
                b.read_bytes(ri);
            }
            if let Some(s) = observe(&*b) {
                let free = N - wi;
                let d: Vec<u8> = (0..free.min(40)).map(|i| 0x61 + (i as u8 % 26)).collect();
                let dfull: Vec<u8> = (0..free).map(|i| 0x61 + (i as u8 % 26)).collect();
                for op in [Op::Shift, Op::Clear, Op::ReadAll, Op::ReadByte, Op::ReadBytes(len / 2), Op::ReadBytes(len), Op::ReadBytes(len + 1), Op::TryReadBytes(len),
                           Op::IoRead(len.saturating_sub(1)), Op::ReadAndCopy(7), Op::WriteBytes(d.clone()), Op::WriteBytes(dfull.clone()), Op::IoWrite(d.clone()),
                           Op::PokeWrote(d.clone(), d.len()), Op::PokeWrote(vec![], free + 1), Op::CopyOnce(Resp::Data(dfull, true)), Op::CopyOnce(Resp::Err(5)),
                           Op::TryParse(vec![ROp::ReadBytes(len / 2), ROp::ReadAll], false), Op::TryParse(vec![ROp::ReadAll], false), Op::TryParse(vec![ROp::ReadAll], true),
                           Op::TryParse(vec![ROp::ReadByte, ROp::TryParse(vec![ROp::ReadAll], false)], false),
                           Op::Deframe(Df::Line), Op::Deframe(Df::Crlf), Op::Deframe(Df::Null)] {
                    transition(&*b, &s, &op, w);
                    n += 1;
                }
            }
        }
    }
    n
}


/// `copy_once_from` with a reader failing with every error kind std::io knows
pub fn cof_kinds<const N: usize>(w: &mut impl std::io::Write) -> usize {
    let mut n = 0;
    for (ri, wi) in [(0usize, 0usize), (0, 3), (2, 5), (1, N)] {
        let mut a = [0u8; N];
        for (i, x) in a.iter_mut().enumerate() {
            *x = b'a' + i as u8;
        }
        let mut b = FixedBuf::empty(a);
        b.wrote(wi);
        if ri > 0 {
            b.read_bytes(ri);
        }
        if let Some(s) = observe(&b) {
            for kind in 0u8..=38 {
                transition(&b, &s, &Op::CopyOnce(Resp::Err(kind)), w);
                n += 1;
            }
        }
    }
    n
}


/// the derived traits a copy can go through: `clone()`, `clone_from()` into a buffer in another state, plain `Copy`.
///   TC <N> <mem> <ri> <wi> | clone | <obs of the clone>      TC ... | clone_from <mem> <ri> <wi> | <obs of the destination>
pub fn clones<const N: usize>(w: &mut impl std::io::Write) -> usize {
    let mut n = 0;
    let mut states: Vec<(FixedBuf<N>, St)> = vec![];
    for wi in 0..=N {
        for ri in 0..=wi {
            if ri == wi && ri > 0 {
                continue;
            }
            let mut a = [0u8; N];
            for (i, x) in a.iter_mut().enumerate() {
                *x = b'a' + ((i * 3 + wi) % 26) as u8;
            }
            let mut b = FixedBuf::empty(a);
            b.wrote(wi);
            if ri > 0 {
                b.read_bytes(ri);
            }
            if let Some(s) = observe(&b) {
                states.push((b, s));
            }
        }
    }
    for (b, s) in &states {
        #[allow(clippy::clone_on_copy)]
        let c = catch_unwind(AssertUnwindSafe(|| b.clone()));
        match c.ok().and_then(|c| observe(&c)) {
            Some(s2) => writeln!(w, "TC {} {} | clone | {}", N, s.render_pre(), s2.render_full()).unwrap(),
            None => writeln!(w, "TC {} {} | clone | X", N, s.render_pre()).unwrap(),
        }
        n += 1;
        let c = *b;
        match observe(&c) {
            Some(s2) => writeln!(w, "TC {} {} | copy | {}", N, s.render_pre(), s2.render_full()).unwrap(),
            None => writeln!(w, "TC {} {} | copy | X", N, s.render_pre()).unwrap(),
        }
        n += 1;
        for (d, sd) in &states {
            let mut d2 = *d;
            let r = catch_unwind(AssertUnwindSafe(|| {
                d2.clone_from(b);
            }));
            match r.ok().and_then(|_| observe(&d2)) {
                Some(s2) => writeln!(w, "TC {} {} | clone_from {} | {}", N, s.render_pre(), sd.render_pre(), s2.render_full()).unwrap(),
                None => writeln!(w, "TC {} {} | clone_from {} | X", N, s.render_pre(), sd.render_pre()).unwrap(),
            }
            n += 1;
        }
    }
    n
}


/// the same calls made while the thread is UNWINDING (from a `Drop` impl that runs because of a panic, as a connection
/// guard would): `std::thread::panicking()` is true there.  Only calls that do not panic themselves (a second panic
/// would abort the process).  Ordinary `T1` lines: the model knows no such thing as an unwinding thread.
pub fn unwinding<const N: usize>(w: &mut impl std::io::Write) -> usize {
    struct Guard<F: FnMut()>(F);
    impl<F: FnMut()> Drop for Guard<F> {
        fn drop(&mut self) {
            (self.0)()
        }
    }
    let mut n = 0;
    let mut lines: Vec<u8> = vec![];
    for wi in 0..=N {
        for ri in 0..=wi {
            if ri == wi && ri > 0 {
                continue;
            }
            let mut a = [0u8; N];
            for (i, x) in a.iter_mut().enumerate() {
                *x = if i % 3 == 2 { b'\n' } else { b'a' + i as u8 };
            }
            let mut b = FixedBuf::empty(a);
            b.wrote(wi);
            if ri > 0 {
                b.read_bytes(ri);
            }
            let s = match observe(&b) {
                Some(s) => s,
                None => continue,
            };
            let len = wi - ri;
            let free = N - wi;
            let ops = vec![
                Op::Shift, Op::Clear, Op::ReadAll, Op::TryReadByte, Op::TryReadBytes(len), Op::TryReadBytes(len + 1), Op::ReadBytes(len / 2), Op::IoRead(3), Op::ReadAndCopy(2), Op::TryReadExact(1),
                Op::WriteBytes(vec![b'z'; free.min(2)]), Op::WriteBytes(vec![b'z'; free + 1]), Op::IoWrite(vec![b'y'; free]), Op::PokeWrote(vec![b'p'], free.min(1)),
                Op::CopyOnce(Resp::Data(vec![b'k', b'\n', b'm'], false)), Op::CopyOnce(Resp::Err(5)),
                Op::TryParse(vec![ROp::TryReadByte, ROp::ReadAll], false), Op::TryParse(vec![ROp::ReadAll], false), Op::TryParse(vec![ROp::TryReadBytes(1)], true),
                Op::Deframe(Df::Line), Op::Deframe(Df::Crlf), Op::Deframe(Df::Null),
            ];
            for op in ops {
                let r = catch_unwind(AssertUnwindSafe(|| {
                    let _g = Guard(|| {
                        // we are in a destructor that runs during unwinding
                        transition(&b, &s, &op, &mut lines);
                    });
                    panic!("unwinding context");
                }));
                let _ = r;
                n += 1;
            }
        }
    }
    w.write_all(&lines).unwrap();
    n
}

/// long runs of the same few calls on ONE value (call counters that wrap, amortised work every so many calls)
pub fn repeat<const N: usize>(w: &mut impl std::io::Write) -> usize {
    let patterns: Vec<Vec<Op>> = vec![
        vec![Op::WriteBytes(vec![b'x']), Op::ReadByte],
        vec![Op::WriteBytes(vec![b'a', b'\n']), Op::Deframe(Df::Line), Op::Shift],
        vec![Op::IoWrite(vec![b'q', b'r', b's']), Op::IoRead(2), Op::TryParse(vec![ROp::ReadAll], false), Op::ReadBytes(1)],
        vec![Op::WriteBytes(vec![1, 2]), Op::TryReadBytes(3), Op::ReadAll],
        vec![Op::CopyOnce(Resp::Data(vec![b'k', 0], false)), Op::Deframe(Df::Null), Op::Shift, Op::Clear],
    ];
    let mut n = 0;
    for pat in patterns {
        let mut b: FixedBuf<N> = FixedBuf::new();
        let mut s = match observe(&b) {
            Some(s) => s,
            None => continue,
        };
        'outer: for _ in 0..300 {
            for op in &pat {
                match transition(&b, &s, op, w) {
                    Some((b2, s2)) => {
                        b = b2;
                        s = s2;
                        n += 1;
                    }
                    None => break 'outer,
                }
            }
        }
    }
    n
}

/// long frames: a buffer whose only terminator sits at `pos`; every index shape; the deframing calls and the calls that
/// interact with them (covers thresholds that only long frames / nearly full buffers reach)
pub fn grid_df<const N: usize>(pos: usize, term: &[u8], w: &mut impl std::io::Write) -> usize {
    let mut n = 0;
    let mut mem: Vec<u8> = (0..N).map(|i| 0x62 + (i as u8 % 23)).collect();
    if pos + term.len() <= N {
        mem[pos..pos + term.len()].copy_from_slice(term);
    }
    if pos >= 1 {
        mem[0] = 3; // a length prefix for the length-prefixed deframer
    }
    for wi in 0..=N {
        for ri in 0..=wi {
            if ri == wi && ri > 0 {
                continue;
            }
            // only shapes in which the terminator is unread
            if !(ri <= pos && pos + term.len() <= wi) && wi != N {
                continue;
            }
            let mut a = [0u8; N];
            a.copy_from_slice(&mem);
            let mut b = FixedBuf::empty(a);
            b.wrote(wi);
            if ri > 0 {
                b.read_bytes(ri);
            }
            let s = match observe(&b) {
                Some(s) => s,
                None => continue,
            };
            for op in [Op::Deframe(Df::Line), Op::Deframe(Df::Crlf), Op::Deframe(Df::Null), Op::Deframe(Df::LenPrefix), Op::Shift, Op::ReadAll,
                       Op::TryParse(vec![ROp::ReadAll], false), Op::ReadBytes((wi - ri) / 2), Op::IoRead(9)] {
                transition(&b, &s, &op, w);
                n += 1;
            }
        }
    }
    n
}


/// the `std::io::Read` / `std::io::Write` trait surface beyond `read` / `write`: the vectored calls (a type may override
/// their default implementations).  Lines `TV <N> <pre> | wv <slices> | <cls> <n> | <post>` and
/// `TV <N> <pre> | rv <lens> | <cls> <n> <dests> | <post>`; every (read offset, write offset), slice lengths around the
/// free space / the unread length, empty slices in every position.
pub fn vectored<const N: usize>(w: &mut impl std::io::Write) -> usize {
    use std::io::{IoSlice, IoSliceMut, Read, Write};
    let mut n = 0usize;
    let mem: Vec<u8> = (0..N).map(|i| 0x41 + (i as u8 % 26)).collect();
    for wi in 0..=N {
        for ri in 0..=wi {
            if ri == wi && ri > 0 {
                continue;
            }
            let mut a = [0u8; N];
            a.copy_from_slice(&mem);
            let mut b = FixedBuf::empty(a);
            b.wrote(wi);
            if ri > 0 {
                b.read_bytes(ri);
            }
            let s = match observe(&b) {
                Some(s) => s,
                None => continue,
            };
            let free = N - s.wi.min(N);
            let len = s.wi.wrapping_sub(s.ri).min(N);
            // write_vectored
            let mut lens: Vec<usize> = vec![0, 1, 2, free.saturating_sub(1), free, free + 1];
            lens.sort();
            lens.dedup();
            let mut lists: Vec<Vec<usize>> = vec![vec![], vec![0], vec![0, 0]];
            for &x in &lens {
                lists.push(vec![x]);
                lists.push(vec![0, x]);
                for &y in &lens {
                    lists.push(vec![x, y]);
                    if x > 0 && y > 0 {
                        lists.push(vec![x, 0, y]);
                        lists.push(vec![x, y, 1]);
                    }
                }
            }
            lists.sort();
            lists.dedup();
            for l in &lists {
                let data: Vec<Vec<u8>> = l.iter().enumerate().map(|(i, k)| (0..*k).map(|j| b'a' + ((i * 7 + j) % 26) as u8).collect()).collect();
                let mut c = b;
                let r = catch_unwind(AssertUnwindSafe(|| {
                    let ios: Vec<IoSlice> = data.iter().map(|d| IoSlice::new(d)).collect();
                    let st = count_on();
                    let r = c.write_vectored(&ios);
                    let al = count_off(st);
                    (r.map_err(|e| kind_num(e.kind())), al)
                }));
                let out = match r {
                    Ok((Ok(k), al)) => format!("ok {} {}", k, al),
                    Ok((Err(e), _)) => format!("err{} - 0", e),
                    Err(_) => {
                        count_off(0);
                        "panic - 0".to_string()
                    }
                };
                let sl = if data.is_empty() { "_".to_string() } else { data.iter().map(|d| hex(d)).collect::<Vec<_>>().join(",") };
                match observe(&c) {
                    Some(s2) => writeln!(w, "TV {} {} | wv {} | {} | {}", N, s.render_pre(), sl, out, s2.render_full()).unwrap(),
                    None => writeln!(w, "TV {} {} | wv {} | {} | X", N, s.render_pre(), sl, out).unwrap(),
                }
                n += 1;
            }
            // read_vectored
            let mut lens: Vec<usize> = vec![0, 1, 2, len.saturating_sub(1), len, len + 1];
            lens.sort();
            lens.dedup();
            let mut lists: Vec<Vec<usize>> = vec![vec![], vec![0], vec![0, 0]];
            for &x in &lens {
                lists.push(vec![x]);
                lists.push(vec![0, x]);
                for &y in &lens {
                    lists.push(vec![x, y]);
                    if x > 0 && y > 0 {
                        lists.push(vec![x, 0, y]);
                    }
                }
            }
            lists.sort();
            lists.dedup();
            for l in &lists {
                let mut dests: Vec<Vec<u8>> = l.iter().map(|k| vec![0xEEu8; *k]).collect();
                let mut c = b;
                let r = catch_unwind(AssertUnwindSafe(|| {
                    let mut ios: Vec<IoSliceMut> = dests.iter_mut().map(|d| IoSliceMut::new(d)).collect();
                    let st = count_on();
                    let r = c.read_vectored(&mut ios);
                    let al = count_off(st);
                    (r.map_err(|e| kind_num(e.kind())), al)
                }));
                let ds = if dests.is_empty() { "_".to_string() } else { dests.iter().map(|d| hex(d)).collect::<Vec<_>>().join(",") };
                let out = match r {
                    Ok((Ok(k), al)) => format!("ok {} {} {}", k, al, ds),
                    Ok((Err(e), _)) => format!("err{} - 0 {}", e, ds),
                    Err(_) => {
                        count_off(0);
                        format!("panic - 0 {}", ds)
                    }
                };
                let ll = if l.is_empty() { "-".to_string() } else { nums(l) };
                match observe(&c) {
                    Some(s2) => writeln!(w, "TV {} {} | rv {} | {} | {}", N, s.render_pre(), ll, out, s2.render_full()).unwrap(),
                    None => writeln!(w, "TV {} {} | rv {} | {} | X", N, s.render_pre(), ll, out).unwrap(),
                }
                n += 1;
            }
            // write_fmt (pieces = literal parts and formatted arguments in order), write_all, read_exact
            let txt = |k: usize, off: usize| -> String { (0..k).map(|j| (b'a' + ((off + j) % 26) as u8) as char).collect() };
            let mut piece_lists: Vec<Vec<String>> = vec![vec![], vec![String::new()]];
            for &x in &[0usize, 1, free.saturating_sub(1), free, free + 1] {
                piece_lists.push(vec![txt(x, 0)]);
                for &y in &[0usize, 1, free.saturating_sub(x).saturating_sub(1), free.saturating_sub(x), free.saturating_sub(x) + 1] {
                    piece_lists.push(vec![txt(x, 0), txt(y, 3)]);
                    piece_lists.push(vec![txt(x, 0), txt(1, 7), txt(y, 3)]);
                }
            }
            piece_lists.sort();
            piece_lists.dedup();
            for pl in &piece_lists {
                let mut c = b;
                let r = catch_unwind(AssertUnwindSafe(|| {
                    let st = count_on();
                    let r = match pl.len() {
                        0 => write!(c, ""),
                        1 => write!(c, "{}", pl[0]),
                        2 => write!(c, "{}{}", pl[0], pl[1]),
                        _ => write!(c, "{}{}{}", pl[0], pl[1], pl[2]),
                    };
                    let al = count_off(st);
                    (r.map_err(|e| kind_num(e.kind())), al)
                }));
                let out = match r {
                    Ok((Ok(()), al)) => format!("ok - {}", al),
                    Ok((Err(e), _)) => format!("err{} - 0", e),
                    Err(_) => {
                        count_off(0);
                        "panic - 0".to_string()
                    }
                };
                let sl = if pl.is_empty() { "_".to_string() } else { pl.iter().map(|d| hex(d.as_bytes())).collect::<Vec<_>>().join(",") };
                match observe(&c) {
                    Some(s2) => writeln!(w, "TV {} {} | wf {} | {} | {}", N, s.render_pre(), sl, out, s2.render_full()).unwrap(),
                    None => writeln!(w, "TV {} {} | wf {} | {} | X", N, s.render_pre(), sl, out).unwrap(),
                }
                n += 1;
            }
            // a literal part, an integer argument and a literal part: `write!(buf, "id={}\r\n", 7)`
            {
                let mut c = b;
                let r = catch_unwind(AssertUnwindSafe(|| {
                    let st = count_on();
                    let r = write!(c, "id={}\r\n", 7u32 + (ri as u32 % 3));
                    let al = count_off(st);
                    (r.map_err(|e| kind_num(e.kind())), al)
                }));
                let out = match r {
                    Ok((Ok(()), al)) => format!("ok - {}", al),
                    Ok((Err(e), _)) => format!("err{} - 0", e),
                    Err(_) => {
                        count_off(0);
                        "panic - 0".to_string()
                    }
                };
                let num = format!("{}", 7u32 + (ri as u32 % 3));
                let sl = format!("{},{},{}", hex(b"id="), hex(num.as_bytes()), hex(b"\r\n"));
                match observe(&c) {
                    Some(s2) => writeln!(w, "TV {} {} | wf {} | {} | {}", N, s.render_pre(), sl, out, s2.render_full()).unwrap(),
                    None => writeln!(w, "TV {} {} | wf {} | {} | X", N, s.render_pre(), sl, out).unwrap(),
                }
                n += 1;
            }
            for &k in &[0usize, 1, free.saturating_sub(1), free, free + 1, free + 9] {
                let data: Vec<u8> = (0..k).map(|j| b'A' + (j % 26) as u8).collect();
                let mut c = b;
                let r = catch_unwind(AssertUnwindSafe(|| {
                    let st = count_on();
                    let r = c.write_all(&data);
                    let al = count_off(st);
                    (r.map_err(|e| kind_num(e.kind())), al)
                }));
                let out = match r {
                    Ok((Ok(()), al)) => format!("ok - {}", al),
                    Ok((Err(e), _)) => format!("err{} - 0", e),
                    Err(_) => {
                        count_off(0);
                        "panic - 0".to_string()
                    }
                };
                match observe(&c) {
                    Some(s2) => writeln!(w, "TV {} {} | wa {} | {} | {}", N, s.render_pre(), hex(&data), out, s2.render_full()).unwrap(),
                    None => writeln!(w, "TV {} {} | wa {} | {} | X", N, s.render_pre(), hex(&data), out).unwrap(),
                }
                n += 1;
            }
            // read_to_end (the vector is the caller's: its allocation is not the library's)
            {
                let mut c = b;
                let mut got: Vec<u8> = Vec::with_capacity(N + 64);
                let r = catch_unwind(AssertUnwindSafe(|| c.read_to_end(&mut got).map_err(|e| kind_num(e.kind()))));
                let out = match r {
                    Ok(Ok(k)) => format!("ok {} 0 {}", k, hex(&got)),
                    Ok(Err(e)) => format!("err{} - 0 {}", e, hex(&got)),
                    Err(_) => format!("panic - 0 {}", hex(&got)),
                };
                match observe(&c) {
                    Some(s2) => writeln!(w, "TV {} {} | rte | {} | {}", N, s.render_pre(), out, s2.render_full()).unwrap(),
                    None => writeln!(w, "TV {} {} | rte | {} | X", N, s.render_pre(), out).unwrap(),
                }
                n += 1;
            }
            for &k in &[0usize, 1, len.saturating_sub(1), len, len + 1, len + 7] {
                let mut dest = vec![0xEEu8; k];
                let mut c = b;
                let r = catch_unwind(AssertUnwindSafe(|| {
                    let st = count_on();
                    let r = c.read_exact(&mut dest);
                    let al = count_off(st);
                    (r.map_err(|e| kind_num(e.kind())), al)
                }));
                let out = match r {
                    Ok((Ok(()), al)) => format!("ok - {} {}", al, hex(&dest)),
                    Ok((Err(e), _)) => format!("err{} - 0 {}", e, hex(&dest)),
                    Err(_) => {
                        count_off(0);
                        format!("panic - 0 {}", hex(&dest))
                    }
                };
                match observe(&c) {
                    Some(s2) => writeln!(w, "TV {} {} | re {} | {} | {}", N, s.render_pre(), k, out, s2.render_full()).unwrap(),
                    None => writeln!(w, "TV {} {} | re {} | {} | X", N, s.render_pre(), k, out).unwrap(),
                }
                n += 1;
            }
        }
    }
    n
}

/// a random call, mostly within contract
fn random_op<const N: usize>(rng: &mut Rng, s: &St) -> Op {
    let len = s.wi.wrapping_sub(s.ri).min(N);
    let free = N.saturating_sub(s.wi);
    let small = |rng: &mut Rng, hi: usize| rng.below(hi + 1);
    let ascii: Vec<u8> = b"ab\r\n\0xX \\\"'~".to_vec();
    let wlen = |rng: &mut Rng| -> usize {
        match rng.below(10) {
            0 => free + 1,
            1 => free,
            2 => free.saturating_sub(1),
            3 => 0,
            _ => rng.below(free.min(40) + 1),
        }
    };
    let rcount = |rng: &mut Rng| -> usize {
        match rng.below(12) {
            0 => len + 1,
            1 => len,
            2 => 0,
            3 => usize::MAX - rng.below(3),
            _ => rng.below(len.min(40) + 1),
        }
    };
    match rng.below(24) {
        0 | 1 | 2 => {
            let n = wlen(rng);
            Op::WriteBytes(rng.bytes(n, &[]))
        }
        3 => {
            let n = wlen(rng);
            Op::WriteStr(rng.bytes(n, &ascii))
        }
        4 => {
            let n = wlen(rng);
            Op::IoWrite(rng.bytes(n, &[]))
        }
        5 => {
            let k = rng.below(free.min(16) + 2);
            let n = match rng.below(8) {
                0 => free + 1,
                1 => usize::MAX - rng.below(2),
                2 => s.wi.wrapping_neg().wrapping_add(rng.below(N + 1)),
                _ => rng.below(k.min(free) + 1),
            };
            Op::PokeWrote(rng.bytes(k, &[]), n)
        }
        6 | 7 => {
            let n = match rng.below(6) {
                0 => free + 1,
                1 => free,
                _ => rng.below(free.min(30) + 1),
            };
            match rng.below(8) {
                0 => Op::CopyOnce(Resp::Err(2 + rng.below(5) as u8)),
                1 => Op::CopyOnce(Resp::Panic),
                2 => Op::CopyOnce(Resp::Data(rng.bytes(n, &[]), true)),
                _ => Op::CopyOnce(Resp::Data(rng.bytes(n, &[]), false)),
            }
        }
        8 | 9 => Op::ReadBytes(rcount(rng).min(if rng.chance(9, 10) { len } else { usize::MAX })),
        10 => Op::TryReadBytes(rcount(rng)),
        11 => {
            if len > 0 || rng.chance(1, 8) {
                Op::ReadByte
            } else {
                Op::TryReadByte
            }
        }
        12 => Op::TryReadByte,
        13 => {
            if rng.chance(1, 4) {
                Op::ReadAll
            } else {
                Op::ReadAndCopy(small(rng, len.min(20) + 1))
            }
        }
        14 => Op::ReadAndCopy(small(rng, len.min(20) + 1)),
        15 => Op::TryReadExact(small(rng, len.min(20) + 1)),
        16 => Op::IoRead(small(rng, len.min(20) + 1)),
        17 | 18 => Op::Shift,
        19 => {
            if rng.chance(1, 4) {
                Op::Clear
            } else {
                Op::IoFlush
            }
        }
        20 | 21 => Op::Deframe(ALL_DF[rng.below(6)]),
        _ => {
            let basic = basic_rops(len.min(8), true);
            let k = rng.below(4);
            let mut ops = vec![];
            for _ in 0..k {
                if rng.chance(1, 5) {
                    let inner = vec![basic[rng.below(basic.len())].clone()];
                    ops.push(ROp::TryParse(inner, rng.chance(1, 2)));
                } else {
                    ops.push(basic[rng.below(basic.len())].clone());
                }
            }
            Op::TryParse(ops, rng.chance(1, 2))
        }
    }
}

/// seeded random walk over the real buffer; delimiter-rich data so deframers find frames
pub fn walk<const N: usize>(rng: &mut Rng, steps: usize, w: &mut impl std::io::Write) -> usize {
    let mut b: FixedBuf<N> = match rng.below(3) {
        0 => FixedBuf::new(),
        1 => {
            let mut a = [0u8; N];
            for x in a.iter_mut() {
                *x = rng.next() as u8;
            }
            let b = FixedBuf::filled(a);
            ctor_line(w, "filled", &a, &b);
            b
        }
        _ => {
            let mut a = [0u8; N];
            for x in a.iter_mut() {
                *x = rng.next() as u8;
            }
            let b = FixedBuf::empty(a);
            ctor_line(w, "empty", &a, &b);
            b
        }
    };
    let mut n = 0;
    let mut s = match observe(&b) {
        Some(s) => s,
        None => return 0,
    };
    for _ in 0..steps {
        let mut op = random_op::<N>(rng, &s);
        // sprinkle delimiters into written data
        if let Op::WriteBytes(d) | Op::IoWrite(d) = &mut op {
            for x in d.iter_mut() {
                if rng.chance(1, 6) {
                    *x = [b'\n', b'\r', 0, b'\n'][rng.below(4)];
                }
            }
        }
        n += 1;
        match transition(&b, &s, &op, w) {
            Some((c, s2)) => {
                b = c;
                s = s2;
            }
            None => break,
        }
    }
    n
}

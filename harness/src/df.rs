//! C05: the three provided deframers on byte strings, exact output.
//!   DF <name> <hex> | <none | some s e n | err | panic> <allocs>
use crate::t1::Df;
use crate::util::*;
use std::io::Write as _;
use std::panic::{catch_unwind, AssertUnwindSafe};

pub fn line(f: Df, d: &[u8], w: &mut impl std::io::Write) {
    let mut a = 0u64;
    let r = catch_unwind(AssertUnwindSafe(|| {
        let s = count_on();
        let r = f.call(d);
        a = count_off(s);
        r
    }));
    let res = match r {
        Ok(Ok(None)) => "none".to_string(),
        Ok(Ok(Some((r, n)))) => format!("some {} {} {}", r.start, r.end, n),
        Ok(Err(_)) => "err".to_string(),
        Err(_) => {
            count_off(0);
            "panic".to_string()
        }
    };
    writeln!(w, "DF {} {} | {} {}", f.name(), hex(d), res, a).unwrap();
}

pub fn run(thorough: bool, seed: u64, w: &mut impl std::io::Write) {
    let provided = [Df::Line, Df::Crlf, Df::Null];
    let alpha = [b'\r', b'\n', 0u8, b'a', 0xff];
    let maxlen = if thorough { 8 } else { 6 };
    let mut n = 0usize;
    for s in strings(&alpha, maxlen) {
        for f in provided {
            line(f, &s, w);
            n += 1;
        }
    }
    // every 1- and 2-byte string over all 256 values
    for a in 0..=255u8 {
        for f in provided {
            line(f, &[a], w);
            n += 1;
        }
        for b in 0..=255u8 {
            for f in provided {
                line(f, &[a, b], w);
                n += 1;
            }
        }
    }
    // random strings over all 256 values, delimiter-enriched
    let mut rng = Rng(seed ^ 0xdf);
    let cases = if thorough { 20000 } else { 2000 };
    for _ in 0..cases {
        let len = rng.below(300);
        let mut s = rng.bytes(len, &[]);
        let p = 1 + rng.below(20);
        for x in s.iter_mut() {
            if rng.chance(1, p) {
                *x = [b'\r', b'\n', 0][rng.below(3)];
            }
        }
        for f in provided {
            line(f, &s, w);
            n += 1;
        }
    }
    // terminators at every offset of inputs up to 40 bytes (alignment-sensitive searches), over fillers incl. bytes >= 0x80
    for len in 0..=40usize {
        for p in 0..len {
            for filler in [0x61u8, 0x80, 0xff, b'\r', 0x0a ^ 0x80, 0x7f, 0x01, 0x0b, 0x0e, 0x09] {
                for term in [&b"\n"[..], b"\r\n", b"\0", b"\r\r\n", b"\n\n"] {
                    if p + term.len() > len {
                        continue;
                    }
                    let mut s = vec![filler; len];
                    s[p..p + term.len()].copy_from_slice(term);
                    for f in provided {
                        line(f, &s, w);
                        n += 1;
                    }
                }
            }
        }
    }
    // every byte value as filler of word-sized inputs (bit-trick searches that misfire on one particular value), with
    // no terminator, a terminator at the very end, or one inside the first word; and every byte value as a single
    // odd byte at each position of the first two words of an otherwise plain input
    for v in 0..=255u8 {
        for len in [8usize, 16, 17, 24, 33] {
            for term in [&b"\n"[..], b"\r\n", b"\0"] {
                let base = vec![v; len];
                let mut at_end = base.clone();
                at_end.extend_from_slice(term);
                let mut inside = base.clone();
                inside[3..3 + term.len()].copy_from_slice(term);
                for s in [&base, &at_end, &inside] {
                    for f in provided {
                        line(f, s, w);
                        n += 1;
                    }
                }
            }
        }
        for p in 0..16usize {
            for term in [&b"\n"[..], b"\r\n", b"\0"] {
                let mut s = vec![b'a'; 24];
                s[p] = v;
                for f in provided {
                    line(f, &s, w);
                    n += 1;
                }
                s.extend_from_slice(term);
                for f in provided {
                    line(f, &s, w);
                    n += 1;
                }
            }
        }
    }
    // dictionary: every byte string the source under test mentions as a literal, at the start / in the middle / right
    // before the terminator of lines of several lengths (constants the code special-cases: markers, magic prefixes, ...)
    let dict = dict();
    let mut dn = 0usize;
    for t in dict.iter().take(160) {
        for term in [&b"\n"[..], b"\r\n", b"\0"] {
            for k in [0usize, 1, 5, 13] {
                let fill = vec![b'q'; k];
                let mut shapes: Vec<Vec<u8>> = vec![];
                shapes.push([&t[..], &fill[..], term].concat());
                shapes.push([&fill[..], &t[..], term].concat());
                shapes.push([&fill[..], &t[..], &fill[..], term, &t[..]].concat());
                shapes.push([&t[..], term, &t[..], term].concat());
                if k == 0 {
                    shapes.push(t.clone());
                }
                for s in shapes {
                    for f in provided {
                        line(f, &s, w);
                        n += 1;
                        dn += 1;
                    }
                }
            }
        }
    }
    // lengths named by integer literals of the source under test (and their neighbours): terminator at the end, early, absent
    let nd = nums_dict();
    let mut nn = 0usize;
    for &v in nd.iter().filter(|v| **v >= 10 && **v <= 70000).take(40) {
        for len in [v - 1, v, v + 1] {
            for term in [&b"\n"[..], b"\r\n", b"\0"] {
                for pos in [Some(len - term.len()), Some(3usize), None] {
                    let mut s = vec![b'z'; len];
                    if let Some(p) = pos {
                        s[p..p + term.len()].copy_from_slice(term);
                    }
                    for f in provided {
                        line(f, &s, w);
                        n += 1;
                        nn += 1;
                    }
                }
            }
        }
    }
    eprintln!("STAT df numeric_dictionary={} cases={}", nd.len(), nn);
    // inputs far longer than any buffer size the crate documents (windows, block sizes, u16 lengths): terminator early,
    // late, absent
    for len in [4090usize, 4096, 4097, 5000, 8192, 8199, 10000, 65537] {
        if len > 10000 && !thorough {
            continue;
        }
        for term in [&b"\n"[..], b"\r\n", b"\0"] {
            for pos in [Some(0usize), Some(5), Some(len / 2), Some(len - term.len()), None] {
                for filler in [b'x', 0x80u8] {
                    let mut s = vec![filler; len];
                    if let Some(p) = pos {
                        s[p..p + term.len()].copy_from_slice(term);
                    }
                    for f in provided {
                        line(f, &s, w);
                        n += 1;
                    }
                    // a second terminator near the end must not change the answer
                    if pos == Some(5) {
                        let l = s.len();
                        s[l - term.len()..].copy_from_slice(term);
                        for f in provided {
                            line(f, &s, w);
                            n += 1;
                        }
                    }
                }
            }
        }
    }
    eprintln!("STAT df dictionary_tokens={} dictionary_cases={} long_inputs_up_to={}", dict.len(), dn, if thorough { 65537 } else { 10000 });
    // the test deframers too (they are part of the T1/T2 ties)
    for s in strings(&[b'a', b'x', b'\n', 1, 2], 4) {
        for f in [Df::Reject, Df::RejectX, Df::LenPrefix] {
            line(f, &s, w);
            n += 1;
        }
    }
    eprintln!("STAT df cases={} maxlen_exhaustive={} alphabet=5 all_1_2_byte_strings=true random={}", n, maxlen, cases);
}

//! C19: escape_ascii on byte strings (every byte, every pair, random strings) and the
//! method / Debug forms on buffer states.
//!   ES <hex input> | <hex of the returned String's bytes | panic>
//!   EB <N> <mem> <ri> <wi> | <hex of escape_ascii()> | <hex of format!("{:?}")>
use crate::util::*;
use fixed_buffer::*;
use std::panic::{catch_unwind, AssertUnwindSafe};

pub fn es_line(d: &[u8], w: &mut impl std::io::Write) {
    let r = catch_unwind(AssertUnwindSafe(|| escape_ascii(d)));
    match r {
        Ok(s) => writeln!(w, "ES {} | {}", hex(d), hex(s.as_bytes())).unwrap(),
        Err(_) => writeln!(w, "ES {} | panic", hex(d)).unwrap(),
    }
}

pub fn eb_line<const N: usize>(mem: &[u8], ri: usize, wi: usize, w: &mut impl std::io::Write) -> bool {
    let mut a = [0u8; N];
    a.copy_from_slice(mem);
    let mut b = FixedBuf::empty(a);
    b.wrote(wi);
    if ri > 0 {
        b.read_bytes(ri);
    }
    let r = catch_unwind(AssertUnwindSafe(|| (b.escape_ascii(), format!("{:?}", b))));
    match r {
        Ok((e, d)) => writeln!(w, "EB {} {} {} {} | {} | {}", N, hex(mem), ri, wi, hex(e.as_bytes()), hex(d.as_bytes())).unwrap(),
        Err(_) => writeln!(w, "EB {} {} {} {} | panic | panic", N, hex(mem), ri, wi).unwrap(),
    }
    true
}

fn states<const N: usize>(alpha: &[u8], w: &mut impl std::io::Write) -> usize {
    let mut n = 0;
    for mem in strings_exact(alpha, N) {
        for wi in 0..=N {
            for ri in 0..=wi {
                if ri == wi && ri > 0 {
                    continue; // an empty buffer is rewound
                }
                eb_line::<N>(&mem, ri, wi, w);
                n += 1;
            }
        }
    }
    n
}

pub fn run(thorough: bool, seed: u64, w: &mut impl std::io::Write) {
    let mut n = 0usize;
    es_line(&[], w);
    for a in 0..=255u8 {
        es_line(&[a], w);
        n += 1;
    }
    for a in 0..=255u8 {
        for b in 0..=255u8 {
            es_line(&[a, b], w);
            n += 1;
        }
    }
    let mut rng = Rng(seed ^ 0xe5);
    let cases = if thorough { 20000 } else { 2000 };
    for _ in 0..cases {
        let len = rng.below(200);
        es_line(&rng.bytes(len, &[]), w);
        n += 1;
    }
    let alpha = [b'a', b'\n', b'"', 0x80, 0xff, b'\\'];
    let mut m = 0;
    m += states::<0>(&alpha, w);
    m += states::<1>(&alpha, w);
    m += states::<2>(&alpha, w);
    m += states::<3>(&alpha, w);
    if thorough {
        m += states::<4>(&alpha, w);
    }
    // large sizes: decimal rendering of SIZE / free / len with several digits
    let mut big = vec![0u8; 255];
    for (i, x) in big.iter_mut().enumerate() {
        *x = i as u8;
    }
    for (ri, wi) in [(0usize, 0usize), (0, 255), (3, 200), (99, 100), (100, 255)] {
        eb_line::<255>(&big, ri, wi, w);
        m += 1;
    }
    let big2 = vec![b'z'; 4096];
    for (ri, wi) in [(0usize, 0usize), (0, 4096), (1000, 1010), (4000, 4096)] {
        eb_line::<4096>(&big2, ri, wi, w);
        m += 1;
    }
    eprintln!("STAT es strings={} all_256_bytes=true all_65536_pairs=true random={} buffer_states={}", n, cases, m);
}

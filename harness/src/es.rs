//! C19: escape_ascii on byte strings (every byte, every pair, random strings) and the
//! method / Debug forms on buffer states.
//!   ES <hex input> | <hex of the returned String's bytes | panic>
//!   EB <N> <mem> <ri> <wi> | <hex of escape_ascii()> | <hex of format!("{:?}")>
use crate::util::*;
use fixed_buffer::*;
use std::panic::{catch_unwind, AssertUnwindSafe};

pub fn es_line(d: &[u8], w: &mut impl std::io::Write) {
    let r = catch_unwind(AssertUnwindSafe(|| escape_ascii(d)));
    match r {
        Ok(s) => writeln!(w, "ES {} | {}", hex(d), hex(s.as_bytes())).unwrap(),
        Err(_) => writeln!(w, "ES {} | panic", hex(d)).unwrap(),
    }
}

pub fn eb_line<const N: usize>(mem: &[u8], ri: usize, wi: usize, w: &mut impl std::io::Write) -> bool {
    let mut a = [0u8; N];
    a.copy_from_slice(mem);
    let mut b = FixedBuf::empty(a);
    b.wrote(wi);
    if ri > 0 {
        b.read_bytes(ri);
    }
    let r = catch_unwind(AssertUnwindSafe(|| (b.escape_ascii(), format!("{:?}", b))));
    match r {
        Ok((e, d)) => writeln!(w, "EB {} {} {} {} | {} | {}", N, hex(mem), ri, wi, hex(e.as_bytes()), hex(d.as_bytes())).unwrap(),
        Err(_) => writeln!(w, "EB {} {} {} {} | panic | panic", N, hex(mem), ri, wi).unwrap(),
    }
    // the other things a caller can ask of `Debug`: alternate form, precision, width, fill / alignment, sign, zero padding,
    // hex flags.  What they render is the implementation's choice; that none of them panics is C04's.
    let mut panicked: Vec<&str> = vec![];
    macro_rules! spec {
        ($($f:literal),*) => { $( if catch_unwind(AssertUnwindSafe(|| format!($f, b))).is_err() { panicked.push($f); } )* };
    }
    spec!("{:#?}", "{:.0?}", "{:.1?}", "{:.3?}", "{:.64?}", "{:.1000?}", "{:1?}", "{:10?}", "{:200?}", "{:<5?}", "{:*^30?}", "{:+?}", "{:08?}", "{:x?}", "{:X?}", "{:#.2?}", "{:>12.4?}");
    writeln!(w, "EF {} {} {} {} | {}", N, hex(mem), ri, wi, if panicked.is_empty() { "-".to_string() } else { panicked.join(";").replace(' ', "") }).unwrap();
    true
}

fn states<const N: usize>(alpha: &[u8], w: &mut impl std::io::Write) -> usize {
    let mut n = 0;
    for mem in strings_exact(alpha, N) {
        for wi in 0..=N {
            for ri in 0..=wi {
                if ri == wi && ri > 0 {
                    continue; // an empty buffer is rewound
                }
                eb_line::<N>(&mem, ri, wi, w);
                n += 1;
            }
        }
    }
    n
}

pub fn run(thorough: bool, seed: u64, w: &mut impl std::io::Write) {
    let mut n = 0usize;
    es_line(&[], w);
    for a in 0..=255u8 {
        es_line(&[a], w);
        n += 1;
    }
    for a in 0..=255u8 {
        for b in 0..=255u8 {
            es_line(&[a, b], w);
            n += 1;
        }
    }
    let mut rng = Rng(seed ^ 0xe5);
    let cases = if thorough { 20000 } else { 2000 };
    for _ in 0..cases {
        let len = rng.below(200);
        es_line(&rng.bytes(len, &[]), w);
        n += 1;
    }
    // context: every byte value at every position 0..40 of a filler string (in the middle and as the last byte)
    for v in 0..=255u8 {
        for p in 0..=40usize {
            for filler in [b'a', b'\\', 0x80u8] {
                let mut s1 = vec![filler; 41];
                s1[p] = v;
                es_line(&s1, w);
                let mut s2 = vec![filler; p + 1];
                s2[p] = v;
                es_line(&s2, w);
                n += 2;
            }
        }
    }
    // pairs and triples of special bytes at several alignments
    let special = [b'\\', b'\'', b'"', b'\n', b'\r', b'\t', 0u8, 0x7f, 0x80, 0xff, b'a', 0x1f, 0x20, 0x7e];
    for &x in &special {
        for &y in &special {
            for p in 0..18usize {
                let mut s1 = vec![b'z'; 24];
                s1[p] = x;
                s1[p + 1] = y;
                es_line(&s1, w);
                n += 1;
            }
            for &z in &special[..8] {
                for p in [0usize, 6, 7, 8, 14, 15, 30] {
                    let mut s1 = vec![b'q'; 33];
                    s1[p] = x;
                    s1[p + 1] = y;
                    s1[p + 2] = z;
                    es_line(&s1, w);
                    n += 1;
                }
            }
        }
    }
    let alpha = [b'a', b'\n', b'"', 0x80, 0xff, b'\\'];
    let mut m = 0;
    m += states::<0>(&alpha, w);
    m += states::<1>(&alpha, w);
    m += states::<2>(&alpha, w);
    m += states::<3>(&alpha, w);
    if thorough {
        m += states::<4>(&alpha, w);
    }
    // every (ri, wi) of moderate buffers whose bytes mix specials; sizes around decimal-width changes for Debug
    fn shapes<const N: usize>(stride: usize, w: &mut impl std::io::Write) -> usize {
        let mem: Vec<u8> = (0..N).map(|i| [b'a', b'\\', b'"', b'\n', 0x80, 0x7f, 0, b'\'', 0xff, b'\t'][(i * 7 + i / 10) % 10]).collect();
        let mut m = 0;
        let mut wi = 0;
        while wi <= N {
            let mut ri = 0;
            while ri <= wi {
                if !(ri == wi && ri > 0) {
                    eb_line::<N>(&mem, ri, wi, w);
                    m += 1;
                }
                ri += if ri < 12 || wi - ri < 12 { 1 } else { stride };
            }
            wi += if wi < 12 || N - wi < 12 { 1 } else { stride };
        }
        m
    }
    m += shapes::<9>(1, w) + shapes::<10>(1, w) + shapes::<33>(1, w) + shapes::<99>(5, w) + shapes::<100>(5, w) + shapes::<101>(7, w) + shapes::<1000>(97, w);
    // large sizes: decimal rendering of SIZE / free / len with several digits
    let mut big = vec![0u8; 255];
    for (i, x) in big.iter_mut().enumerate() {
        *x = i as u8;
    }
    for (ri, wi) in [(0usize, 0usize), (0, 255), (3, 200), (99, 100), (100, 255)] {
        eb_line::<255>(&big, ri, wi, w);
        m += 1;
    }
    let big2 = vec![b'z'; 4096];
    for (ri, wi) in [(0usize, 0usize), (0, 4096), (1000, 1010), (4000, 4096)] {
        eb_line::<4096>(&big2, ri, wi, w);
        m += 1;
    }
    eprintln!("STAT es strings={} all_256_bytes=true all_65536_pairs=true random={} buffer_states={}", n, cases, m);
}

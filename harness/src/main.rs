//! Correspondence harness for fixed-buffer (blocking crate).  Runs the real code and
//! prints one line per explored case for the Lean driver (`fbvdriver`).
mod ad;
mod big;
mod df;
mod es;
mod pl;
mod replay;
mod rf;
mod t1;
mod util;
use std::io::Write as _;
use util::*;

#[global_allocator]
static GLOBAL: Counting = Counting;

fn arg(args: &[String], name: &str, default: &str) -> String {
    args.iter()
        .position(|a| a == name)
        .and_then(|i| args.get(i + 1).cloned())
        .unwrap_or_else(|| default.to_string())
}

macro_rules! explore_sizes {
    ($sc:expr, $w:expr, $tot:expr, $($n:literal),*) => {{
        $( {
            let st = t1::explore::<$n>(&$sc($n), &mut $w);
            eprintln!("STAT t1_explore size={} states={} transitions={} capped={}", $n, st.states, st.transitions, st.capped);
            $tot.0 += st.states; $tot.1 += st.transitions; $tot.2 |= st.capped;
        } )*
    }};
}
include!(concat!(env!("OUT_DIR"), "/gen_sizes.rs"));

macro_rules! walk_sizes {
    ($rng:expr, $walks:expr, $steps:expr, $w:expr, $tot:expr, $($n:literal),*) => {{
        $( for _ in 0..$walks { $tot += t1::walk::<$n>(&mut $rng, $steps, &mut $w); } )*
    }};
}

/// replay of scenario kinds added by later modules
pub fn replay_other(line: &str, w: &mut impl std::io::Write) -> bool {
    ad::replay_line(line, w) || rf::replay_line(line, w) || pl::replay_line(line, w)
}

fn main() {
    std::panic::set_hook(Box::new(|_| {}));
    let args: Vec<String> = std::env::args().collect();
    let mode = args.get(1).cloned().unwrap_or_default();
    let tier = arg(&args, "--tier", "quick");
    let seed: u64 = arg(&args, "--seed", "1").parse().unwrap_or(1);
    let thorough = tier == "thorough";
    let stdout = std::io::stdout();
    let mut w = std::io::BufWriter::with_capacity(1 << 20, stdout.lock());
    let profile = if cfg!(debug_assertions) { "dev" } else { "release" };
    eprintln!("STAT profile={} overflow_checks={}", profile, cfg!(debug_assertions));
    match mode.as_str() {
        "t1" => {
            let mut tot = (0usize, 0usize, false);
            if thorough {
                let sc = |n: usize| t1::Scope {
                    alpha: if n <= 3 { vec![b'a', b'\r', b'\n'] } else { vec![b'a', b'\n'] },
                    write_maxlen: if n <= 3 { 3 } else { 2 },
                    tp_len: if n <= 2 { 2 } else { 1 },
                    tp_rich: n <= 3,
                    max_states: if n <= 4 { 6000 } else { 2500 },
                };
                explore_sizes!(sc, w, tot, 0, 1, 2, 3, 4, 5);
            } else {
                let sc = |n: usize| t1::Scope {
                    alpha: vec![b'a', b'\n'],
                    write_maxlen: 2,
                    tp_len: if n <= 2 { 2 } else { 1 },
                    tp_rich: false,
                    max_states: 4000,
                };
                explore_sizes!(sc, w, tot, 0, 1, 2, 3, 4);
            }
            let mut gt = 0usize;
            for v in 0..2 {
                gt += t1::grid::<5>(v, &mut w) + t1::grid::<6>(v, &mut w) + t1::grid::<7>(v, &mut w) + t1::grid::<8>(v, &mut w);
                gt += t1::grid::<9>(v, &mut w) + t1::grid::<16>(v, &mut w) + t1::grid::<17>(v, &mut w);
            }
            gt += t1::grid::<32>(1, &mut w) + t1::grid::<33>(2, &mut w) + t1::grid::<64>(0, &mut w);
            if thorough {
                gt += t1::grid::<32>(0, &mut w) + t1::grid::<64>(1, &mut w) + t1::grid::<64>(2, &mut w) + t1::grid::<128>(1, &mut w);
            }
            // large buffers (block-size thresholds): every (ri, wi) near the ends, strided in the middle, lengths that are multiples of 8/16/32 included
            gt += t1::grid_lite::<96>(true, &mut w) + t1::grid_lite::<130>(thorough, &mut w) + t1::grid_lite::<200>(thorough, &mut w);
            if thorough {
                gt += t1::grid_lite::<255>(true, &mut w);
            }
            // long frames: one terminator near the end of a nearly full buffer
            for (pos, term) in [(31usize, &b"\n"[..]), (32, b"\r\n"), (40, b"\0"), (55, b"\n"), (46, b"\r\n")] {
                gt += t1::grid_df::<48>(pos.min(46), term, &mut w) + t1::grid_df::<64>(pos, term, &mut w);
            }
            let sb = t1::sparse_big::<4200>(&mut w) + if thorough { t1::sparse_big::<8192>(&mut w) + t1::sparse_big::<16385>(&mut w) } else { t1::sparse_big::<8192>(&mut w) };
            eprintln!("STAT t1_sparse_big transitions={} sizes=4200,8192{}", sb, if thorough { ",16385" } else { "" });
            // buffer SIZEs named by integer literals of the source under test (and their neighbours)
            let mut dsz = 0usize;
            macro_rules! dict_t1 { ($n:expr, $w:expr, $tot:expr) => { $tot += t1::sparse_big::<$n>($w) + t1::repeat::<$n>($w); } }
            with_dict_sizes!(dict_t1, &mut w, dsz);
            eprintln!("STAT t1_dictionary_sizes transitions={} sizes={:?}", dsz, DICT_SIZES);
            let cl = t1::clones::<0>(&mut w) + t1::clones::<1>(&mut w) + t1::clones::<3>(&mut w) + t1::clones::<6>(&mut w) + t1::clones::<11>(&mut w);
            eprintln!("STAT t1_clones cases={} sizes=0,1,3,6,11", cl);
            let uw = t1::unwinding::<0>(&mut w) + t1::unwinding::<1>(&mut w) + t1::unwinding::<4>(&mut w) + t1::unwinding::<7>(&mut w);
            eprintln!("STAT t1_unwinding transitions={} sizes=0,1,4,7", uw);
            let ck = t1::cof_kinds::<8>(&mut w);
            eprintln!("STAT t1_cof_error_kinds transitions={}", ck);
            let rp = t1::repeat::<16>(&mut w) + t1::repeat::<64>(&mut w);
            eprintln!("STAT t1_repeat transitions={} cycles=300 sizes=16,64", rp);
            let tv = t1::vectored::<0>(&mut w) + t1::vectored::<1>(&mut w) + t1::vectored::<2>(&mut w) + t1::vectored::<3>(&mut w) + t1::vectored::<5>(&mut w) + t1::vectored::<8>(&mut w) + t1::vectored::<13>(&mut w);
            eprintln!("STAT t1_vectored calls={} sizes=0,1,2,3,5,8,13", tv);
            gt += t1::grid_df::<33>(31, b"\n", &mut w) + t1::grid_df::<33>(24, b"\r\n", &mut w) + t1::grid_df::<40>(33, b"\0", &mut w);
            eprintln!("STAT t1_grid transitions={} sizes=5,6,7,8,9,16,17,32,33,64{} content_variants=3 long_frame_grids=13", gt, if thorough { ",128" } else { "" });
            let mut rng = Rng(seed);
            let mut wt = 0usize;
            let (walks, steps) = if thorough { (120, 400) } else { (30, 250) };
            walk_sizes!(rng, walks, steps, w, wt, 4, 7, 8, 16, 32, 33, 64, 255);
            walk_sizes!(rng, (walks / 6).max(1), steps / 2, w, wt, 4096);
            eprintln!("STAT t1_total states={} transitions={} capped={} walk_transitions={}", tot.0, tot.1, tot.2, wt);
        }
        "big" => {
            let mut bn = 0usize;
            macro_rules! big_run { ($n:expr, $w:expr, $tot:expr) => { $tot += big::run_size::<$n>($w); } }
            with_big_sizes!(big_run, &mut w, bn);
            bn += big::long_repetitions(&mut w) + big::interleavings(&mut w) + big::read_to_string_cases(&mut w);
            // half-gigabyte inputs: release builds always, dev builds (much slower) in the thorough tier
            if thorough || !cfg!(debug_assertions) {
                bn += big::huge_inputs(&mut w);
            }
            eprintln!("STAT big scenarios={} sizes={:?}", bn, BIG_SIZES);
        }
        "df" => df::run(thorough, seed, &mut w),
        "chain" | "take" => ad::run(&mode, thorough, seed, &mut w),
        "rf" | "rfe" => rf::run(&mode, thorough, seed, &mut w),
        "pl" => pl::run(thorough, seed, &mut w),
        "es" => es::run(thorough, seed, &mut w),
        "c18" => {
            // inline storage: SIZE bytes and two indices, nothing else; usable in a static through the const fn
            static IN_STATIC: fixed_buffer::FixedBuf<16> = fixed_buffer::FixedBuf::new();
            macro_rules! sz { ($($n:literal),*) => { $( writeln!(w, "SZ {} {} {}", $n, core::mem::size_of::<fixed_buffer::FixedBuf<$n>>(), core::mem::align_of::<fixed_buffer::FixedBuf<$n>>()).unwrap(); )* } }
            sz!(0, 1, 2, 3, 4, 5, 6, 7, 8, 9, 15, 16, 17, 31, 32, 33, 63, 64, 100, 255, 256, 1000, 4096, 65536, 131072);
            let s0 = count_on();
            let copy = IN_STATIC;
            let a = count_off(s0);
            writeln!(w, "ST {} {} {}", core::mem::size_of_val(&IN_STATIC), copy.len(), a).unwrap();
            eprintln!("STAT c18 sizes=25 static=1");
        }
        "replay" => replay::run(&mut w),
        _ => {
            eprintln!("usage: fbharness t1 [--tier quick|thorough] [--seed N]");
            std::process::exit(2);
        }
    }
    w.flush().unwrap();
}

//! C02 / C06 / C12: repeated `read_frame` calls over a scripted reader.
//!   RF <N> <df> <prehex> <ri> <srw> <maxcalls> | <call>,<call>,... ; <log> ; <allocs>
//! call = <frame:HEX | none | err<k> | panic>@<readable after>@<reader position after>
//! log  = C (start of a read_frame call) and R1:<destlen>:<result> entries
use crate::ad::{mk, Log, RAct, Srw};
use crate::t1::{kind_num, Df, ALL_DF};
use crate::util::*;
use fixed_buffer::*;
use std::panic::{catch_unwind, AssertUnwindSafe};

pub fn rf_line<const N: usize>(df: Df, pre: &[u8], ri: usize, srw: &Srw, maxcalls: usize, w: &mut impl std::io::Write) -> bool {
    rf_line_mixed::<N>(&[df], pre, ri, srw, maxcalls, w)
}

/// like `rf_line`, with a different deframer for each call (cycling through `dfs`): state a call leaves behind for the
/// next one must not depend on which deframer looked at the bytes
pub fn rf_line_mixed<const N: usize>(dfs: &[Df], pre: &[u8], ri: usize, srw: &Srw, maxcalls: usize, w: &mut impl std::io::Write) -> bool {
    if pre.len() > N || ri > pre.len() || (ri > 0 && ri == pre.len()) {
        return false;
    }
    let mut buf: FixedBuf<N> = FixedBuf::new();
    buf.write_bytes(pre).unwrap();
    if ri > 0 {
        buf.read_bytes(ri);
    }
    let log = Log::default();
    let mut reader = srw.twin(&log);
    let mut calls: Vec<String> = vec![];
    let mut allocs = 0u64;
    let mut after_terminal = 0;
    for callno in 0..maxcalls {
        let df = dfs[callno % dfs.len()];
        log.borrow_mut().push("C".into());
        let mut a = 0u64;
        let r = catch_unwind(AssertUnwindSafe(|| {
            let s = count_on();
            let r = buf.read_frame(&mut reader, |d: &[u8]| df.call(d)).map(|o| o.map(|p| p.to_vec()));
            a = count_off(s);
            r
        }));
        let (txt, terminal) = match r {
            Ok(Ok(Some(p))) => {
                // the returned slice is copied by the harness (to_vec) inside the window: subtract nothing, count only library allocations
                (format!("frame:{}", hex(&p)), false)
            }
            Ok(Ok(None)) => ("none".to_string(), true),
            Ok(Err(e)) => {
                let k = kind_num(e.kind());
                (format!("err{}", k), k == 0 || k == 1)
            }
            Err(_) => {
                count_off(0);
                ("panic".to_string(), false)
            }
        };
        if txt.starts_with("frame") {
            // `to_vec` of a non-empty payload allocates once in the harness, not in the library
            let payload_len = (txt.len() - 6) / 2;
            allocs += a.saturating_sub(if payload_len > 0 && txt != "frame:-" { 1 } else { 0 });
        } else if txt == "none" {
            allocs += a;
        }
        let rd = catch_unwind(AssertUnwindSafe(|| buf.readable().to_vec()));
        let rd = match rd {
            Ok(v) => hex(&v),
            Err(_) => "X".into(),
        };
        calls.push(format!("{}@{}@{}", txt, rd, reader.pos));
        if terminal {
            after_terminal += 1;
            if after_terminal >= 2 {
                break;
            }
        } else {
            after_terminal = 0;
        }
    }
    let lg = log.borrow().join(",");
    writeln!(w, "RF {} {} {} {} {} {} | {} ; {} ; {}", N, dfs.iter().map(|d| d.name()).collect::<Vec<_>>().join("+"), hex(pre), ri, srw.describe(), maxcalls, calls.join(","), lg, allocs).unwrap();
    true
}

/// chunk lengths whose boundaries fall at interesting places of `data`: right after a CR (splitting CR|LF), right before / after a
/// terminator, at multiples of 8 and 16, single bytes ("drip"), or buffer-sized
pub fn boundary_chunks(data: &[u8], size: usize, rng: &mut Rng) -> Vec<usize> {
    let mut out = vec![];
    let mut pos = 0usize;
    let drip = rng.chance(1, 5);
    while pos < data.len() {
        let rest = &data[pos..];
        let next = |b: u8| rest.iter().position(|x| *x == b);
        let mut cands: Vec<usize> = vec![1, 7, 8, 9, 16, 17, size.saturating_sub(1).max(1), size.max(1), size + 3];
        if let Some(i) = next(b'\r') {
            cands.extend([i + 1, i + 1, i + 2]);
        }
        if let Some(i) = next(b'\n') {
            cands.extend([i.max(1), i + 1, i + 1, i + 2]);
        }
        if let Some(i) = next(0) {
            cands.extend([i.max(1), i + 1]);
        }
        let k = if drip { 1 + rng.below(2) } else { cands[rng.below(cands.len())] }.max(1).min(rest.len());
        out.push(k);
        pos += k;
    }
    out
}

/// all compositions of n into positive parts, as chunk scripts
fn compositions(n: usize) -> Vec<Vec<usize>> {
    if n == 0 {
        return vec![vec![]];
    }
    let mut out = vec![];
    for first in 1..=n {
        for mut rest in compositions(n - first) {
            let mut v = vec![first];
            v.append(&mut rest);
            out.push(v);
        }
    }
    out
}

pub fn dispatch(n: usize, df: Df, pre: &[u8], ri: usize, srw: &Srw, maxcalls: usize, w: &mut impl std::io::Write) -> bool {
    match n {
        0 => rf_line::<0>(df, pre, ri, srw, maxcalls, w),
        1 => rf_line::<1>(df, pre, ri, srw, maxcalls, w),
        2 => rf_line::<2>(df, pre, ri, srw, maxcalls, w),
        3 => rf_line::<3>(df, pre, ri, srw, maxcalls, w),
        4 => rf_line::<4>(df, pre, ri, srw, maxcalls, w),
        5 => rf_line::<5>(df, pre, ri, srw, maxcalls, w),
        6 => rf_line::<6>(df, pre, ri, srw, maxcalls, w),
        7 => rf_line::<7>(df, pre, ri, srw, maxcalls, w),
        8 => rf_line::<8>(df, pre, ri, srw, maxcalls, w),
        16 => rf_line::<16>(df, pre, ri, srw, maxcalls, w),
        33 => rf_line::<33>(df, pre, ri, srw, maxcalls, w),
        48 => rf_line::<48>(df, pre, ri, srw, maxcalls, w),
        64 => rf_line::<64>(df, pre, ri, srw, maxcalls, w),
        96 => rf_line::<96>(df, pre, ri, srw, maxcalls, w),
        128 => rf_line::<128>(df, pre, ri, srw, maxcalls, w),
        300 => rf_line::<300>(df, pre, ri, srw, maxcalls, w),
        512 => rf_line::<512>(df, pre, ri, srw, maxcalls, w),
        4200 => rf_line::<4200>(df, pre, ri, srw, maxcalls, w),
        8192 => rf_line::<8192>(df, pre, ri, srw, maxcalls, w),
        _ => false,
    }
}

/// mode "rf": error-free scenarios (C02, C12); mode "rfe": errors / panics injected at every reader call (C06)
pub fn run(mode: &str, thorough: bool, seed: u64, w: &mut impl std::io::Write) {
    let mut n = 0usize;
    let alpha = [b'a', b'\r', b'\n', 0u8];
    let maxlen = if thorough { 6 } else { 4 };
    let sizes: Vec<usize> = if thorough { vec![0, 1, 2, 3, 4, 5, 6, 7, 8] } else { vec![0, 1, 2, 3, 4, 6] };
    let dfs = [Df::Line, Df::Crlf, Df::Null, Df::LenPrefix];
    let errors = mode == "rfe";
    let streams = strings(&alpha, if errors { maxlen - 1 } else { maxlen });
    for s in &streams {
        for comp in compositions(s.len()) {
            let base: Vec<RAct> = comp.iter().map(|k| RAct::Data(*k, false)).collect();
            let mut scripts: Vec<Vec<RAct>> = vec![];
            if !errors {
                scripts.push(base.clone());
            } else {
                // an error of each kind (and a panic) before each reader call, singly; pairs in the thorough tier
                for pos in 0..=base.len() {
                    for a in [RAct::Err(2), RAct::Err(3), RAct::Err(4), RAct::Err(5), RAct::Err(6), RAct::Panic] {
                        let mut v = base.clone();
                        v.insert(pos, a);
                        scripts.push(v);
                    }
                    if thorough {
                        for pos2 in pos..=base.len() {
                            let mut v = base.clone();
                            v.insert(pos2, RAct::Err(5));
                            v.insert(pos, RAct::Err(2));
                            scripts.push(v);
                        }
                    }
                }
            }
            for script in scripts {
                let srw = mk(1, s, script);
                for &size in &sizes {
                    for df in dfs {
                        // buffers that start empty
                        if dispatch(size, df, &[], 0, &srw, s.len() + 8, w) {
                            n += 1;
                        }
                    }
                }
            }
        }
    }
    // pre-loaded buffers at a non-zero read offset, own-error deframers, seeded longer streams
    let mut rng = Rng(seed ^ 0x2f);
    let cases = if thorough { 60000 } else { 6000 };
    for _ in 0..cases {
        let size = [2usize, 3, 4, 5, 6, 8, 16, 64, 16, 64][rng.below(10)];
        let df = if rng.chance(1, 6) { [Df::RejectX, Df::Reject][rng.below(2)] } else { ALL_DF[rng.below(3)] };
        let pl = rng.below(size.min(6) + 1);
        let mut pre = rng.bytes(pl, b"ab\r\n\0x");
        if df == Df::LenPrefix {
            pre = rng.bytes(pl, &[0, 1, 2, 3, b'a']);
        }
        let ri = if pl > 1 { rng.below(pl) } else { 0 };
        let sl = rng.below(if size >= 16 { 120 } else { 14 });
        let p = 2 + rng.below(8);
        let mut data = rng.bytes(sl, b"abcdefgh\x80\xff\x7f");
        for x in data.iter_mut() {
            if rng.chance(1, p) {
                *x = [b'\n', b'\r', 0, b'\n', b'x'][rng.below(5)];
            }
        }
        let na = rng.below(8);
        let mut racts: Vec<RAct> = (0..na).map(|_| RAct::Data(1 + rng.below(size.max(1) + 2), rng.chance(1, 8))).collect();
        if errors && !racts.is_empty() {
            let k = 1 + rng.below(3);
            for _ in 0..k {
                let pos = rng.below(racts.len() + 1);
                let a = if rng.chance(1, 6) { RAct::Panic } else { RAct::Err([2u8, 3, 4, 5, 6][rng.below(5)]) };
                racts.insert(pos, a);
            }
        }
        let srw = mk(1, &data, racts);
        if dispatch(size, df, &pre, ri, &srw, 40, w) {
            n += 1;
        }
    }
    // long frames: frame lengths around the buffer size, chunk sizes around 8 / SIZE, bytes incl. >= 0x80
    let lcases = if thorough { 20000 } else { 2500 };
    for _ in 0..lcases {
        let size = [16usize, 33, 48, 64, 96, 128][rng.below(6)];
        let df = [Df::Line, Df::Crlf, Df::Null, Df::Line][rng.below(4)];
        let term: &[u8] = match df { Df::Crlf => b"\r\n", Df::Null => b"\0", _ => b"\n" };
        let nf = 1 + rng.below(4);
        let mut data: Vec<u8> = vec![];
        for _ in 0..nf {
            let fl = match rng.below(8) {
                0 => 0,
                1 => 1 + rng.below(3),
                2 => size / 2,
                3 => size - term.len(),          // exactly fills the buffer
                4 => size - term.len() + 1,      // one too long
                _ => size.saturating_sub(10) + rng.below(10).min(size),
            };
            for i in 0..fl {
                data.push([b'a', 0x80, 0xff, b'\r', 0x01, 0x7f][(i + rng.below(2)) % 6]);
            }
            // the byte right before the terminator: values one off the terminator bytes and their high-bit twins
            if fl > 0 && rng.chance(2, 3) {
                let k = data.len() - 1;
                data[k] = [0x0bu8, 0x09, 0x01, 0x0c, 0x0e, 0x8a, 0x8d, b'\r', 0xff][rng.below(9)];
            }
            data.extend_from_slice(term);
        }
        if rng.chance(1, 3) {
            let cut = rng.below(data.len() + 1);
            data.truncate(cut);
        }
        let mut racts: Vec<RAct> = if rng.chance(1, 2) {
            boundary_chunks(&data, size, &mut rng).into_iter().map(|k| RAct::Data(k, rng.chance(1, 12))).collect()
        } else {
            let nc = rng.below(10);
            (0..nc).map(|_| RAct::Data([1usize, 7, 8, 9, size - 1, size, size + 5, 1000][rng.below(8)], rng.chance(1, 10))).collect()
        };
        if errors && !racts.is_empty() {
            let pos = rng.below(racts.len() + 1);
            racts.insert(pos, if rng.chance(1, 6) { RAct::Panic } else { RAct::Err([2u8, 3, 4, 5, 6][rng.below(5)]) });
        }
        let pl = rng.below(9);
        let pre: Vec<u8> = (0..pl).map(|i| b'p' + i as u8).collect();
        let ri = if pl > 1 { rng.below(pl) } else { 0 };
        let srw = mk(1, &data, racts);
        if dispatch(size, df, &pre, ri, &srw, 60, w) {
            n += 1;
        }
    }
    // dictionary: frames that start with / contain / end with the byte strings the source mentions as literals
    let dict = dict();
    let mut dn = 0usize;
    for t in dict.iter().take(120) {
        for df in [Df::Line, Df::Crlf, Df::Null] {
            let term: &[u8] = match df { Df::Crlf => b"\r\n", Df::Null => b"\0", _ => b"\n" };
            if t.windows(term.len()).any(|x| x == term) {
                continue; // the token would itself end the frame: covered by the exhaustive small streams
            }
            let data: Vec<u8> = [&t[..], b"abc", term, b"k", &t[..], term, &t[..], b"q", &t[..], term, &t[..]].concat();
            for size in [16usize, 33, 64] {
                if data.len() > 3 * size {
                    continue;
                }
                for chunk in [1usize, 3, 1000] {
                    let mut racts: Vec<RAct> = (0..data.len() / chunk + 1).map(|_| RAct::Data(chunk, false)).collect();
                    if errors {
                        racts.insert(racts.len() / 2, RAct::Err(4));
                    }
                    let srw = mk(1, &data, racts);
                    if dispatch(size, df, &[], 0, &srw, 30, w) {
                        n += 1;
                        dn += 1;
                    }
                }
            }
        }
    }
    // long runs: hundreds of reader calls inside ONE read_frame call (counters that wrap, retry budgets), and long runs
    // of one and the same reader error
    let mut ln = 0usize;
    for (size, fl) in [(300usize, 280usize), (512, 299), (512, 260)] {
        for df in [Df::Line, Df::Crlf, Df::Null] {
            let term: &[u8] = match df { Df::Crlf => b"\r\n", Df::Null => b"\0", _ => b"\n" };
            let mut data: Vec<u8> = (0..fl).map(|j| b'a' + (j % 26) as u8).collect();
            data.extend_from_slice(term);
            data.extend_from_slice(b"tail");
            data.extend_from_slice(term);
            let drip: Vec<RAct> = (0..data.len()).map(|_| RAct::Data(1, false)).collect();
            if !errors {
                let srw = mk(1, &data, drip.clone());
                if dispatch(size, df, &[], 0, &srw, 8, w) {
                    n += 1;
                    ln += 1;
                }
            } else {
                for kind in [2u8, 3, 5] {
                    for run in [1usize, 2, 5, 9, 10, 11, 12, 40, 300] {
                        if run > 40 && (kind != 2 || size != 512) {
                            continue;
                        }
                        for at in [0usize, 3, fl / 2] {
                            let mut v = drip.clone();
                            for _ in 0..run {
                                v.insert(at, RAct::Err(kind));
                            }
                            let srw = mk(1, &data, v);
                            if dispatch(size, df, &[], 0, &srw, run + 8, w) {
                                n += 1;
                                ln += 1;
                            }
                        }
                    }
                }
            }
        }
    }
    // a different deframer for each call: what one call leaves behind (buffered bytes another deframer considers
    // complete / incomplete, EOF or an error in between) must not carry over as hidden state
    let mut mn = 0usize;
    {
        let pairs: [&[Df]; 6] = [&[Df::Crlf, Df::Line], &[Df::Line, Df::Crlf], &[Df::Null, Df::Line], &[Df::Line, Df::Null, Df::Crlf], &[Df::Crlf, Df::Crlf, Df::Line], &[Df::LenPrefix, Df::Line]];
        let alpha2 = [b'a', b'\r', b'\n', 0u8, 2u8];
        for st in strings(&alpha2, if thorough { 5 } else { 4 }) {
            for dfs in pairs {
                let mut scripts: Vec<Vec<RAct>> = vec![vec![], vec![RAct::Data(1, false), RAct::Data(2, false)], vec![RAct::Data(st.len().max(1), false), RAct::Eof]];
                if errors {
                    scripts = vec![vec![RAct::Data(st.len().max(1), false), RAct::Err(5)], vec![RAct::Err(4), RAct::Data(2, false), RAct::Err(2)]];
                }
                for sc in scripts {
                    let srw = mk(1, &st, sc);
                    if rf_line_mixed::<8>(dfs, &[], 0, &srw, st.len() + 6, w) {
                        n += 1;
                        mn += 1;
                    }
                    if st.len() >= 3 && rf_line_mixed::<16>(dfs, &st[..2], 1, &srw, st.len() + 6, w) {
                        n += 1;
                        mn += 1;
                    }
                }
            }
        }
    }
    eprintln!("STAT rf mixed_deframer_scenarios={}", mn);
    // every error kind std::io knows, at the first / a middle reader call
    if errors {
        for kind in (2u8..=38).filter(|k| *k != 0 && *k != 1) {
            for df in [Df::Line, Df::Null] {
                let data: &[u8] = if df == Df::Null { b"ab\0cd\0" } else { b"ab\ncd\n" };
                for at in [0usize, 1, 2] {
                    let mut v = vec![RAct::Data(2, false), RAct::Data(3, false), RAct::Data(1, false)];
                    v.insert(at, RAct::Err(kind));
                    let srw = mk(1, data, v);
                    if dispatch(8, df, &[], 0, &srw, 10, w) {
                        n += 1;
                    }
                }
            }
        }
    }
    eprintln!("STAT rf long_run_scenarios={} error_kinds=37", ln);
    // buffers beyond 4 KiB (size_of thresholds, windows): frames shorter and longer than 4096, several in the buffer
    let bcases = if thorough { 120 } else { 24 };
    for i in 0..bcases {
        let size = [4200usize, 8192][i % 2];
        let df = [Df::Line, Df::Crlf, Df::Null][i % 3];
        let term: &[u8] = match df { Df::Crlf => b"\r\n", Df::Null => b"\0", _ => b"\n" };
        let mut data: Vec<u8> = vec![];
        for fl in [5usize, [4090usize, 4096, 4100, 4199 - term.len()][i % 4], 0, 17, [100usize, 4097, 8000, 8193][(i / 4) % 4]] {
            for j in 0..fl {
                data.push(b'a' + (j % 23) as u8);
            }
            data.extend_from_slice(term);
        }
        let racts: Vec<RAct> = match i % 3 {
            0 => vec![],
            1 => (0..40).map(|_| RAct::Data([1usize, 4095, 4096, 4097, 100][rng.below(5)], false)).collect(),
            _ => (0..12).map(|_| RAct::Data(1000, rng.chance(1, 4))).collect(),
        };
        let mut racts = racts;
        if errors {
            racts.insert(racts.len().min(2), RAct::Err(5));
        }
        let srw = mk(1, &data, racts);
        if dispatch(size, df, &[], 0, &srw, 16, w) {
            n += 1;
        }
    }
    eprintln!("STAT rf mode={} scenarios={} exhaustive_stream_len={} alphabet=4 sizes={:?} long_frame_scenarios={} dictionary_scenarios={} big_buffer_scenarios={}", mode, n, if errors { maxlen - 1 } else { maxlen }, sizes, lcases, dn, bcases);
}

pub fn replay_line(l: &str, w: &mut impl std::io::Write) -> bool {
    let parts: Vec<&str> = l.split(" | ").collect();
    let head: Vec<&str> = parts[0].split(' ').collect();
    if head[0] != "RF" || head.len() != 7 {
        return false;
    }
    let log = Log::default();
    let dfs: Option<Vec<Df>> = head[2].split('+').map(Df::from_name).collect();
    match (head[1].parse::<usize>(), dfs, crate::replay::unhex(head[3]), head[4].parse::<usize>(), Srw::parse(head[5], &log), head[6].parse::<usize>()) {
        (Ok(n), Some(dfs), Some(pre), Ok(ri), Some(srw), Ok(mc)) if dfs.len() == 1 => dispatch(n, dfs[0], &pre, ri, &srw, mc, w),
        (Ok(8), Some(dfs), Some(pre), Ok(ri), Some(srw), Ok(mc)) => rf_line_mixed::<8>(&dfs, &pre, ri, &srw, mc, w),
        (Ok(16), Some(dfs), Some(pre), Ok(ri), Some(srw), Ok(mc)) => rf_line_mixed::<16>(&dfs, &pre, ri, &srw, mc, w),
        _ => false,
    }
}

//! generates `with_dict_sizes!`: the buffer SIZEs named by integer literals of the source under test (written by
//! tools/extract.py --nums into the file FBV_SIZES_FILE points to), so that const-generic special cases are instantiated
use std::{env, fs, path::Path};
fn main() {
    println!("cargo:rerun-if-env-changed=FBV_SIZES_FILE");
    let mut sizes: Vec<usize> = vec![];
    if let Ok(p) = env::var("FBV_SIZES_FILE") {
        println!("cargo:rerun-if-changed={}", p);
        if let Ok(t) = fs::read_to_string(&p) {
            for l in t.lines() {
                if let Ok(v) = l.trim().parse::<usize>() {
                    if (16..=10000).contains(&v) {
                        sizes.push(v);
                    }
                }
            }
        }
    }
    sizes.sort();
    sizes.dedup();
    let mut s = String::from("#[allow(unused_macros)]\nmacro_rules! with_dict_sizes { ($m:ident, $($a:expr),*) => { ");
    for v in &sizes {
        s += &format!("$m!({}, $($a),*); ", v);
    }
    s += "}; }\n";
    s += &format!("#[allow(dead_code)]\npub const DICT_SIZES: &[usize] = &{:?};\n", sizes);
    fs::write(Path::new(&env::var("OUT_DIR").unwrap()).join("gen_sizes.rs"), s).unwrap();
}

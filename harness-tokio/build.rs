//! generates `with_dict_sizes!`: the buffer SIZEs named by integer literals of the source under test (written by
//! tools/extract.py --nums into the file FBV_SIZES_FILE points to), so that const-generic special cases are instantiated
use std::{env, fs, path::Path};
fn main() {
    println!("cargo:rerun-if-env-changed=FBV_SIZES_FILE");
    let mut sizes: Vec<usize> = vec![];
    // always some sizes beyond 64 KiB (u16 limits, 64 KiB thresholds), plus those the source names
    let mut big: Vec<usize> = vec![65537, 70000];
    if let Ok(p) = env::var("FBV_SIZES_FILE") {
        println!("cargo:rerun-if-changed={}", p);
        if let Ok(t) = fs::read_to_string(&p) {
            for l in t.lines() {
                if let Some(b) = l.trim().strip_prefix("big ") {
                    if let Ok(v) = b.trim().parse::<usize>() {
                        if v > 10000 && v <= (1 << 21) + 64 {
                            big.push(v);
                        }
                    }
                } else if let Ok(v) = l.trim().parse::<usize>() {
                    if (16..=10000).contains(&v) {
                        sizes.push(v);
                    }
                }
            }
        }
    }
    sizes.sort();
    sizes.dedup();
    let mut s = String::from("#[allow(unused_macros)]\nmacro_rules! with_dict_sizes { ($m:ident, $($a:expr),*) => { ");
    for v in &sizes {
        s += &format!("$m!({}, $($a),*); ", v);
    }
    s += "}; }\n";
    s += &format!("#[allow(dead_code)]\npub const DICT_SIZES: &[usize] = &{:?};\n", sizes);
    big.sort();
    big.dedup();
    s += "#[allow(unused_macros)]\nmacro_rules! with_big_sizes { ($m:ident, $($a:expr),*) => { ";
    for v in &big {
        s += &format!("$m!({}, $($a),*); ", v);
    }
    s += "}; }\n";
    s += &format!("#[allow(dead_code)]\npub const BIG_SIZES: &[usize] = &{:?};\n", big);
    fs::write(Path::new(&env::var("OUT_DIR").unwrap()).join("gen_sizes.rs"), s).unwrap();
}

//! C14 / C15: AsyncFixedBuf::read_frame / copy_once_from under hand-driven polls, with Pending placements and
//! cancellation (dropping the future at a pending point and starting a new call).
//!   ARF <N> <df> <prehex> <ri> <asrw> <choices> <maxcalls> | <poll>,<poll>,... ; <log>
//!     poll = pending                      (future kept, polled again)
//!          | cancel@<readable>@<pos>     (future dropped at this pending point; a NEW call follows)
//!          | <frame:HEX|none|err<k>|panic>@<readable>@<pos>   (the call completed)
//!     choices: one letter per Pending in order: r = resume, c = cancel; resume when exhausted
//!   ACO <N> <prehex> <ri> <asrw> <choices> | <poll>,... ; <log>      (one copy_once_from call, restarted after cancels)
use crate::asrw::*;
use crate::util::*;
use fixed_buffer_reg::MalformedInputError;
use fixed_buffer_tokio::*;
use std::future::Future;
use std::panic::{catch_unwind, AssertUnwindSafe};
use std::task::{Context, Poll, Waker};

#[derive(Clone, Copy, Debug, PartialEq)]
pub enum Df {
    Line,
    Crlf,
    LenPrefix,
    RejectX,
}
impl Df {
    pub fn name(self) -> &'static str {
        match self {
            Df::Line => "line",
            Df::Crlf => "crlf",
            Df::LenPrefix => "lenp",
            Df::RejectX => "rejectx",
        }
    }
    pub fn from_name(s: &str) -> Option<Df> {
        [Df::Line, Df::Crlf, Df::LenPrefix, Df::RejectX].into_iter().find(|d| d.name() == s)
    }
    pub fn call(self, data: &[u8]) -> Result<Option<(core::ops::Range<usize>, usize)>, MalformedInputError> {
        match self {
            Df::Line => fixed_buffer_reg::deframe_line(data),
            Df::Crlf => fixed_buffer_reg::deframe_crlf(data),
            Df::RejectX => {
                if data.contains(&b'x') || data.contains(&b'X') {
                    return Err(MalformedInputError::new(String::from("x")));
                }
                fixed_buffer_reg::deframe_line(data)
            }
            Df::LenPrefix => {
                if data.is_empty() {
                    return Ok(None);
                }
                let l = (data[0] % 4) as usize;
                if data.len() < 1 + l {
                    Ok(None)
                } else {
                    Ok(Some((1..1 + l, 1 + l)))
                }
            }
        }
    }
}

pub fn arf_line<const N: usize>(dfs: &[Df], pre: &[u8], ri: usize, srw: &ASrw, choices: &str, maxcalls: usize, w: &mut impl std::io::Write) -> bool {
    if pre.len() > N || ri > pre.len() || (ri > 0 && ri == pre.len()) {
        return false;
    }
    let mut buf: AsyncFixedBuf<N> = AsyncFixedBuf::new();
    buf.write_bytes(pre).unwrap();
    if ri > 0 {
        buf.read_bytes(ri);
    }
    let log = Log::default();
    let mut reader = srw.twin(&log);
    let mut polls: Vec<String> = vec![];
    let wk = Waker::noop();
    let mut cx = Context::from_waker(&wk);
    let mut ch = choices.chars();
    let mut after_terminal = 0;
    for callno in 0..maxcalls {
        // the deframer is a per-call argument: call k uses dfs[k % len] (a cancelled call counts as a call)
        let df = dfs[callno % dfs.len()];
        log.borrow_mut().push("C".into());
        // one call: poll until Ready or until cancelled
        let outcome: Option<String> = {
            let mut fut = Box::pin(buf.read_frame(&mut reader, |d: &[u8]| df.call(d)));
            let mut res = None;
            for _ in 0..1000 {
                let r = catch_unwind(AssertUnwindSafe(|| fut.as_mut().poll(&mut cx).map(|x| x.map(|o| o.map(|p| p.to_vec())))));
                match r {
                    Err(_) => {
                        res = Some("panic".to_string());
                        break;
                    }
                    Ok(Poll::Pending) => {
                        if ch.next() == Some('c') {
                            break; // res stays None: cancelled
                        }
                        polls.push("pending".into());
                    }
                    Ok(Poll::Ready(Ok(Some(p)))) => {
                        res = Some(format!("frame:{}", hex(&p)));
                        break;
                    }
                    Ok(Poll::Ready(Ok(None))) => {
                        res = Some("none".into());
                        break;
                    }
                    Ok(Poll::Ready(Err(e))) => {
                        res = Some(format!("err{}", kind_num(e.kind())));
                        break;
                    }
                }
            }
            res
        }; // the future is dropped here
        let rd = hex(buf.readable());
        match outcome {
            None => {
                polls.push(format!("cancel@{}@{}", rd, reader.pos));
                after_terminal = 0;
            }
            Some(r) => {
                let terminal = r == "none" || r == "err0" || r == "err1";
                polls.push(format!("{}@{}@{}", r, rd, reader.pos));
                if terminal {
                    after_terminal += 1;
                    if after_terminal >= 2 {
                        break;
                    }
                } else {
                    after_terminal = 0;
                }
            }
        }
    }
    writeln!(w, "ARF {} {} {} {} {} {} {} | {} ; {}", N, dfs.iter().map(|d| d.name()).collect::<Vec<_>>().join("+"), hex(pre), ri, srw.describe(), if choices.is_empty() { "-" } else { choices }, maxcalls, polls.join(","), logstr(&log)).unwrap();
    true
}

pub fn aco_line<const N: usize>(pre: &[u8], ri: usize, srw: &ASrw, choices: &str, w: &mut impl std::io::Write) -> bool {
    if pre.len() > N || ri > pre.len() || (ri > 0 && ri == pre.len()) {
        return false;
    }
    let mut buf: AsyncFixedBuf<N> = AsyncFixedBuf::new();
    buf.write_bytes(pre).unwrap();
    if ri > 0 {
        buf.read_bytes(ri);
    }
    let log = Log::default();
    let mut reader = srw.twin(&log);
    let mut polls: Vec<String> = vec![];
    let wk = Waker::noop();
    let mut cx = Context::from_waker(&wk);
    let mut ch = choices.chars();
    for _ in 0..(choices.len() + 2) {
        log.borrow_mut().push("C".into());
        let outcome: Option<String> = {
            let mut fut = Box::pin(buf.copy_once_from(&mut reader));
            let mut res = None;
            for _ in 0..1000 {
                match fut.as_mut().poll(&mut cx) {
                    Poll::Pending => {
                        if ch.next() == Some('c') {
                            break;
                        }
                        polls.push("pending".into());
                    }
                    Poll::Ready(Ok(n)) => {
                        res = Some(format!("ok{}", n));
                        break;
                    }
                    Poll::Ready(Err(e)) => {
                        res = Some(format!("err{}", kind_num(e.kind())));
                        break;
                    }
                }
            }
            res
        };
        let rd = hex(buf.readable());
        match outcome {
            None => polls.push(format!("cancel@{}@{}", rd, reader.pos)),
            Some(r) => {
                polls.push(format!("{}@{}@{}", r, rd, reader.pos));
                break;
            }
        }
    }
    writeln!(w, "ACO {} {} {} {} {} | {} ; {}", N, hex(pre), ri, srw.describe(), if choices.is_empty() { "-" } else { choices }, polls.join(","), logstr(&log)).unwrap();
    true
}

/// chunk lengths whose boundaries fall right after a CR, right before / after a terminator, at multiples of 8/16, or drip
pub fn boundary_chunks(data: &[u8], size: usize, rng: &mut Rng) -> Vec<usize> {
    let mut out = vec![];
    let mut pos = 0usize;
    let drip = rng.chance(1, 5);
    while pos < data.len() {
        let rest = &data[pos..];
        let next = |b: u8| rest.iter().position(|x| *x == b);
        let mut cands: Vec<usize> = vec![1, 7, 8, 9, 16, 17, size.saturating_sub(1).max(1), size.max(1), size + 3];
        if let Some(i) = next(b'\r') {
            cands.extend([i + 1, i + 1, i + 2]);
        }
        if let Some(i) = next(b'\n') {
            cands.extend([i.max(1), i + 1, i + 1, i + 2]);
        }
        let k = if drip { 1 + rng.below(2) } else { cands[rng.below(cands.len())] }.max(1).min(rest.len());
        out.push(k);
        pos += k;
    }
    out
}

fn compositions(n: usize) -> Vec<Vec<usize>> {
    if n == 0 {
        return vec![vec![]];
    }
    let mut out = vec![];
    for first in 1..=n {
        for mut rest in compositions(n - first) {
            let mut v = vec![first];
            v.append(&mut rest);
            out.push(v);
        }
    }
    out
}

pub fn dispatch(n: usize, df: &[Df], pre: &[u8], ri: usize, srw: &ASrw, choices: &str, maxcalls: usize, w: &mut impl std::io::Write) -> bool {
    match n {
        0 => arf_line::<0>(df, pre, ri, srw, choices, maxcalls, w),
        1 => arf_line::<1>(df, pre, ri, srw, choices, maxcalls, w),
        2 => arf_line::<2>(df, pre, ri, srw, choices, maxcalls, w),
        3 => arf_line::<3>(df, pre, ri, srw, choices, maxcalls, w),
        4 => arf_line::<4>(df, pre, ri, srw, choices, maxcalls, w),
        5 => arf_line::<5>(df, pre, ri, srw, choices, maxcalls, w),
        6 => arf_line::<6>(df, pre, ri, srw, choices, maxcalls, w),
        8 => arf_line::<8>(df, pre, ri, srw, choices, maxcalls, w),
        16 => arf_line::<16>(df, pre, ri, srw, choices, maxcalls, w),
        33 => arf_line::<33>(df, pre, ri, srw, choices, maxcalls, w),
        48 => arf_line::<48>(df, pre, ri, srw, choices, maxcalls, w),
        64 => arf_line::<64>(df, pre, ri, srw, choices, maxcalls, w),
        96 => arf_line::<96>(df, pre, ri, srw, choices, maxcalls, w),
        128 => arf_line::<128>(df, pre, ri, srw, choices, maxcalls, w),
        300 => arf_line::<300>(df, pre, ri, srw, choices, maxcalls, w),
        512 => arf_line::<512>(df, pre, ri, srw, choices, maxcalls, w),
        _ => false,
    }
}

/// mode "arf": every subset of reader polls answered Pending, all resumed (C14);
/// mode "arfc": every Pending is a cancellation point, singly and in every subset (C15)
pub fn run(mode: &str, thorough: bool, seed: u64, w: &mut impl std::io::Write) {
    let cancel = mode == "arfc";
    let mut n = 0usize;
    let alpha = [b'a', b'\r', b'\n'];
    let maxlen = if thorough { 4 } else { 3 };
    let sizes: Vec<usize> = if thorough { vec![0, 1, 2, 3, 4, 6] } else { vec![1, 2, 3, 4] };
    // single deframers, and a different deframer on alternate calls (the deframer is a per-call argument: what one
    // call concluded about the buffered bytes says nothing about the next call's verdict)
    let dfs: Vec<Vec<Df>> = vec![vec![Df::Line], vec![Df::Crlf], vec![Df::LenPrefix], vec![Df::Crlf, Df::Line], vec![Df::LenPrefix, Df::Line], vec![Df::Line, Df::LenPrefix]];
    for s in strings(&alpha, maxlen) {
        for comp in compositions(s.len()) {
            // reader calls: one per chunk plus the final EOF call; a Pending may precede each of them
            let slots = comp.len() + 1;
            for mask in 0..(1u32 << slots) {
                let np = mask.count_ones() as usize;
                if !thorough && np > 2 {
                    continue;
                }
                let mut racts: Vec<RAct> = vec![];
                for (i, k) in comp.iter().enumerate() {
                    if mask & (1 << i) != 0 {
                        racts.push(RAct::Pending);
                    }
                    racts.push(RAct::Data(*k, false));
                }
                if mask & (1 << comp.len()) != 0 {
                    racts.push(RAct::Pending);
                }
                let srw = ASrw::new(1, &s, racts);
                let choice_sets: Vec<String> = if !cancel {
                    vec![String::new()]
                } else {
                    // every subset of the pending points as cancellation points
                    (1..(1u32 << np)).map(|m| (0..np).map(|i| if m & (1 << i) != 0 { 'c' } else { 'r' }).collect()).collect()
                };
                for choices in &choice_sets {
                    for &size in &sizes {
                        for df in &dfs {
                            if dispatch(size, df, &[], 0, &srw, choices, s.len() + np + 8, w) {
                                n += 1;
                            }
                        }
                    }
                }
            }
        }
    }
    // seeded: pre-loaded buffers, reader errors at any poll, longer streams, rejecting deframer; copy_once_from
    let mut rng = Rng(seed ^ 0xa2f);
    let cases = if thorough { 40000 } else { 4000 };
    for _ in 0..cases {
        let size = [2usize, 3, 4, 5, 6, 8, 16, 64][rng.below(8)];
        let df: Vec<Df> = match rng.below(7) {
            0 | 1 => vec![Df::Line],
            2 => vec![Df::Crlf],
            3 => vec![Df::RejectX],
            4 => vec![Df::Crlf, Df::Line],
            5 => vec![Df::Line, Df::Crlf, Df::LenPrefix],
            _ => vec![Df::LenPrefix, Df::Crlf],
        };
        let pl = rng.below(size.min(6) + 1);
        let pre = rng.bytes(pl, b"ab\r\n");
        let ri = if pl > 1 { rng.below(pl) } else { 0 };
        let sl = rng.below(if size >= 16 { 80 } else { 12 });
        let p = 2 + rng.below(8);
        let mut data = rng.bytes(sl, b"abcdefgh");
        for x in data.iter_mut() {
            if rng.chance(1, p) {
                *x = [b'\n', b'\r', b'\n', b'x'][rng.below(4)];
            }
        }
        let na = rng.below(10);
        let racts: Vec<RAct> = (0..na)
            .map(|_| match rng.below(10) {
                0 | 1 | 2 => RAct::Pending,
                3 => RAct::Err([2u8, 3, 4, 5, 6][rng.below(5)]),
                _ => RAct::Data(1 + rng.below(size.max(1) + 2), rng.chance(1, 8)),
            })
            .collect();
        let np = racts.iter().filter(|a| **a == RAct::Pending).count();
        let choices: String = if cancel { (0..np).map(|_| if rng.chance(1, 2) { 'c' } else { 'r' }).collect() } else { String::new() };
        let srw = ASrw::new(1, &data, racts);
        if dispatch(size, &df, &pre, ri, &srw, &choices, 40, w) {
            n += 1;
        }
        if rng.chance(1, 3) {
            let ok = match size {
                2 => aco_line::<2>(&pre, ri, &srw, &choices, w),
                4 => aco_line::<4>(&pre, ri, &srw, &choices, w),
                8 => aco_line::<8>(&pre, ri, &srw, &choices, w),
                _ => false,
            };
            if ok {
                n += 1;
            }
        }
    }
    // long frames around the buffer size, chunk sizes around 8 / SIZE, Pending anywhere, random resume / cancel
    let lcases = if thorough { 20000 } else { 2500 };
    for _ in 0..lcases {
        let size = [16usize, 33, 48, 64, 96, 128][rng.below(6)];
        let df = [Df::Line, Df::Crlf, Df::Line][rng.below(3)];
        let term: &[u8] = if df == Df::Crlf { b"\r\n" } else { b"\n" };
        let nf = 1 + rng.below(4);
        let mut data: Vec<u8> = vec![];
        for _ in 0..nf {
            let fl = match rng.below(8) {
                0 => 0,
                1 => 1 + rng.below(3),
                2 => size / 2,
                3 => size - term.len(),
                4 => size - term.len() + 1,
                _ => size.saturating_sub(10) + rng.below(10).min(size),
            };
            for i in 0..fl {
                data.push([b'a', 0x80, 0xff, b'\r', 0x01, 0x7f][(i + rng.below(2)) % 6]);
            }
            if fl > 0 && rng.chance(2, 3) {
                let k = data.len() - 1;
                data[k] = [0x0bu8, 0x09, 0x01, 0x0c, 0x0e, 0x8a, 0x8d, b'\r', 0xff][rng.below(9)];
            }
            data.extend_from_slice(term);
        }
        if rng.chance(1, 3) {
            let cut = rng.below(data.len() + 1);
            data.truncate(cut);
        }
        let racts: Vec<RAct> = if rng.chance(1, 2) {
            // boundaries at terminator-relevant places, a Pending after some chunks (more often right after a CR)
            let mut v = vec![];
            let mut pos = 0usize;
            for k in boundary_chunks(&data, size, &mut rng) {
                v.push(RAct::Data(k, rng.chance(1, 12)));
                pos += k;
                let after_cr = pos > 0 && pos <= data.len() && data[pos - 1] == b'\r';
                if rng.chance(if after_cr { 2 } else { 1 }, 4) {
                    v.push(RAct::Pending);
                }
            }
            v
        } else {
            let nc = rng.below(12);
            (0..nc)
                .map(|_| if rng.chance(1, 3) { RAct::Pending } else { RAct::Data([1usize, 7, 8, 9, size - 1, size, size + 5, 1000][rng.below(8)], rng.chance(1, 10)) })
                .collect()
        };
        let np = racts.iter().filter(|a| **a == RAct::Pending).count();
        let choices: String = if cancel { (0..np).map(|_| if rng.chance(1, 2) { 'c' } else { 'r' }).collect() } else { String::new() };
        let pl = rng.below(9);
        let pre: Vec<u8> = (0..pl).map(|i| b'p' + i as u8).collect();
        let ri = if pl > 1 { rng.below(pl) } else { 0 };
        let srw = ASrw::new(1, &data, racts);
        if dispatch(size, &[df], &pre, ri, &srw, &choices, 200, w) {
            n += 1;
        }
    }
    // every error kind std::io knows, at the first / a later reader poll, with a Pending before it
    for kind in 2u8..=38 {
        for at in [0usize, 1, 2] {
            let mut v = vec![RAct::Data(2, false), RAct::Pending, RAct::Data(3, false), RAct::Data(1, false)];
            v.insert(at, RAct::Err(kind));
            let srw = ASrw::new(1, b"ab\ncd\n", v);
            if dispatch(8, &[Df::Line], &[], 0, &srw, if cancel { "c" } else { "r" }, 10, w) {
                n += 1;
            }
        }
    }
    // long runs: hundreds of reader polls inside ONE future (counters that wrap, cooperative-yield budgets), without any
    // Pending from the reader, with a Pending every so often, all resumed / all cancelled
    let mut ln = 0usize;
    for (size, fl) in [(300usize, 280usize), (512, 299), (512, 260)] {
        for df in [Df::Line, Df::Crlf] {
            let term: &[u8] = match df { Df::Crlf => b"\r\n", _ => b"\n" };
            let mut data: Vec<u8> = (0..fl).map(|j| b'a' + (j % 26) as u8).collect();
            data.extend_from_slice(term);
            data.extend_from_slice(b"tail");
            data.extend_from_slice(term);
            for every in [0usize, 50, 7] {
                let mut racts: Vec<RAct> = vec![];
                let mut np = 0;
                for i in 0..data.len() {
                    if every > 0 && i % every == every - 1 {
                        racts.push(RAct::Pending);
                        np += 1;
                    }
                    racts.push(RAct::Data(1, false));
                }
                let srw = ASrw::new(1, &data, racts);
                // enough choices for spurious pending points too
                let ch: String = std::iter::repeat(if cancel { 'c' } else { 'r' }).take(np + 8).collect();
                if dispatch(size, &[df], &[], 0, &srw, &ch, np + 16, w) {
                    n += 1;
                    ln += 1;
                }
            }
        }
    }
    eprintln!("STAT arf mode={} scenarios={} exhaustive_stream_len={} sizes={:?} long_frame_scenarios={} long_run_scenarios={}", mode, n, maxlen, sizes, lcases, ln);
}

pub fn replay_line(l: &str, w: &mut impl std::io::Write) -> bool {
    let parts: Vec<&str> = l.split(" | ").collect();
    let head: Vec<&str> = parts[0].split(' ').collect();
    let log = Log::default();
    match head[0] {
        "ARF" if head.len() == 8 => {
            match (head[1].parse::<usize>(), head[2].split('+').map(Df::from_name).collect::<Option<Vec<Df>>>(), unhex(head[3]), head[4].parse::<usize>(), ASrw::parse(head[5], &log), head[7].parse::<usize>()) {
                (Ok(n), Some(df), Some(pre), Ok(ri), Some(srw), Ok(mc)) => dispatch(n, &df, &pre, ri, &srw, if head[6] == "-" { "" } else { head[6] }, mc, w),
                _ => false,
            }
        }
        "ACO" if head.len() == 6 => match (head[1].parse::<usize>(), unhex(head[2]), head[3].parse::<usize>(), ASrw::parse(head[4], &log)) {
            (Ok(n), Some(pre), Ok(ri), Some(srw)) => {
                let ch = if head[5] == "-" { "" } else { head[5] };
                match n {
                    2 => aco_line::<2>(&pre, ri, &srw, ch, w),
                    4 => aco_line::<4>(&pre, ri, &srw, ch, w),
                    8 => aco_line::<8>(&pre, ri, &srw, ch, w),
                    _ => false,
                }
            }
            _ => false,
        },
        _ => false,
    }
}

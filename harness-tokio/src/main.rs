//! Correspondence harness for fixed-buffer-tokio (links the registry copy fixed-buffer 0.3.1, as the crate does).
#[path = "../../harness/src/util.rs"]
mod util;
mod aad;
mod abig;
mod apl;
mod arf;
mod asrw;
mod at;
use std::io::Write as _;
use util::*;

#[global_allocator]
static GLOBAL: Counting = Counting;

fn arg(args: &[String], name: &str, default: &str) -> String {
    args.iter().position(|a| a == name).and_then(|i| args.get(i + 1).cloned()).unwrap_or_else(|| default.to_string())
}

include!(concat!(env!("OUT_DIR"), "/gen_sizes.rs"));

fn main() {
    std::panic::set_hook(Box::new(|_| {}));
    let args: Vec<String> = std::env::args().collect();
    let mode = args.get(1).cloned().unwrap_or_default();
    let thorough = arg(&args, "--tier", "quick") == "thorough";
    let seed: u64 = arg(&args, "--seed", "1").parse().unwrap_or(1);
    let stdout = std::io::stdout();
    let mut w = std::io::BufWriter::with_capacity(1 << 20, stdout.lock());
    eprintln!("STAT profile={} crate=fixed-buffer-tokio(+registry fixed-buffer 0.3.1)", if cfg!(debug_assertions) { "dev" } else { "release" });
    match mode.as_str() {
        "achain" | "atake" => aad::run(&mode, thorough, seed, &mut w),
        "arf" | "arfc" => arf::run(&mode, thorough, seed, &mut w),
        "at" => at::run(thorough, seed, &mut w),
        "apl" => apl::run(thorough, seed, &mut w),
        "abig" => {
            let mut bn = 0usize;
            macro_rules! big_run { ($n:expr, $w:expr, $tot:expr) => { $tot += abig::run_size::<$n>($w); } }
            with_big_sizes!(big_run, &mut w, bn);
            eprintln!("STAT abig scenarios={} sizes={:?}", bn, BIG_SIZES);
        }
        "replay" => {
            let stdin = std::io::stdin();
            let mut line = String::new();
            while {
                line.clear();
                stdin.read_line(&mut line).unwrap_or(0) > 0
            } {
                let l = line.trim();
                if l.is_empty() {
                    continue;
                }
                if !(aad::replay_line(l, &mut w) || arf::replay_line(l, &mut w) || apl::replay_line(l, &mut w)) {
                    writeln!(w, "CANNOT-REPLAY {}", l).unwrap();
                }
            }
        }
        _ => {
            eprintln!("usage: fbharness-tokio achain|atake|arf|arfc|at|replay [--tier quick|thorough] [--seed N]");
            std::process::exit(2);
        }
    }
    w.flush().unwrap();
}

//! Buffers beyond 64 KiB in the tokio crate (u16 limits, thresholds, sizes the source names), with their own oracle
//! (see harness/src/big.rs):   NO <property> <N> <scenario> | ok / FAIL <what>
use fixed_buffer_reg::deframe_line;
use fixed_buffer_tokio::*;
use std::future::Future;
use std::panic::{catch_unwind, AssertUnwindSafe};
use std::pin::Pin;
use std::task::{Context, Poll, Waker};
use tokio::io::{AsyncRead, ReadBuf};

/// hands out `data` in chunks of at most `chunk` bytes; `Pending` before every `every`-th poll (0 = never)
struct Chunked<'a> {
    data: &'a [u8],
    pos: usize,
    chunk: usize,
    every: usize,
    polls: usize,
    pendings: usize,
    just_pended: bool,
}
impl<'a> AsyncRead for Chunked<'a> {
    fn poll_read(self: Pin<&mut Self>, _cx: &mut Context<'_>, buf: &mut ReadBuf<'_>) -> Poll<std::io::Result<()>> {
        let s = self.get_mut();
        s.polls += 1;
        if s.every > 0 && !s.just_pended && s.polls % s.every == 0 {
            s.just_pended = true;
            s.pendings += 1;
            return Poll::Pending;
        }
        s.just_pended = false;
        let n = s.chunk.min(buf.remaining()).min(s.data.len() - s.pos);
        buf.put_slice(&s.data[s.pos..s.pos + n]);
        s.pos += n;
        Poll::Ready(Ok(()))
    }
}

fn verdict(w: &mut impl std::io::Write, prop: &str, n: usize, scenario: &str, r: Result<Result<(), String>, ()>) {
    match r {
        Ok(Ok(())) => writeln!(w, "NO {} {} {} | ok", prop, n, scenario).unwrap(),
        Ok(Err(e)) => writeln!(w, "NO {} {} {} | FAIL {}", prop, n, scenario, e.replace(' ', "_")).unwrap(),
        Err(()) => writeln!(w, "NO {} {} {} | FAIL panic", prop, n, scenario).unwrap(),
    }
}

fn frame(len: usize) -> Vec<u8> {
    (0..len).map(|i| b'a' + (i % 23) as u8).collect()
}

pub fn run_size<const N: usize>(w: &mut impl std::io::Write) -> usize {
    let mut n = 0;
    let wk = Waker::noop();
    let mut lens: Vec<usize> = vec![N - 70, N / 2, 65535, 65536, 65537, N - 1, N - 6];
    lens.retain(|l| *l + 1 <= N);
    lens.sort();
    lens.dedup();
    for &fl in &lens {
        let f = frame(fl);
        let mut stream = b"hello\n".to_vec();
        stream.extend_from_slice(&f);
        stream.extend_from_slice(b"\ntail\n");
        for (name, chunk, every, cancel) in [("greedy", usize::MAX, 0usize, false), ("pending2", usize::MAX, 2, false), ("cancel2", usize::MAX, 2, true), ("chunks65535_cancel3", 65535, 3, true), ("chunks4096_pending5", 4096, 5, false)] {
            let r = catch_unwind(AssertUnwindSafe(|| -> Result<(), String> {
                let mut cx = Context::from_waker(&wk);
                let mut buf: Box<AsyncFixedBuf<N>> = Box::new(AsyncFixedBuf::new());
                let mut rd = Chunked { data: &stream, pos: 0, chunk, every, polls: 0, pendings: 0, just_pended: false };
                let mut have: Vec<usize> = vec![];
                let mut seen_pending = 0usize;
                for _call in 0..2000 {
                    let mut fut = Box::pin(buf.read_frame(&mut rd, deframe_line));
                    let mut out = None;
                    for _ in 0..2000 {
                        match fut.as_mut().poll(&mut cx) {
                            Poll::Pending => {
                                seen_pending += 1;
                                if cancel {
                                    break; // drop the future, start a new call
                                }
                            }
                            Poll::Ready(r) => {
                                out = Some(r.map(|o| o.map(|p| p.len())));
                                break;
                            }
                        }
                    }
                    drop(fut);
                    match out {
                        None => continue,
                        Some(Ok(Some(l))) => have.push(l),
                        Some(Ok(None)) => break,
                        Some(Err(e)) => return Err(format!("frame {} error {:?}", have.len(), e.kind())),
                    }
                    if have.len() > 5 {
                        return Err("too many frames".into());
                    }
                }
                if have != vec![5, fl, 4] {
                    return Err(format!("frame lengths {:?} expected {:?}", have, vec![5, fl, 4]));
                }
                if seen_pending != rd.pendings {
                    return Err(format!("{} Pending results for {} Pending answers of the reader", seen_pending, rd.pendings));
                }
                Ok(())
            }))
            .map_err(|_| ());
            verdict(w, if cancel { "C15" } else { "C14" }, N, &format!("read_frame_{}_{}", name, fl), r);
            n += 1;
        }
    }
    // copy_once_from: one poll of the reader with the whole free space, exactly what it gives is committed
    for (name, every) in [("ready", 0usize), ("pending_first", 1usize)] {
        let r = catch_unwind(AssertUnwindSafe(|| -> Result<(), String> {
            let mut cx = Context::from_waker(&wk);
            let data = frame(N);
            let mut buf: Box<AsyncFixedBuf<N>> = Box::new(AsyncFixedBuf::new());
            let mut rd = Chunked { data: &data, pos: 0, chunk: usize::MAX, every, polls: 0, pendings: 0, just_pended: false };
            let mut results: Vec<String> = vec![];
            for _ in 0..3 {
                let mut fut = Box::pin(buf.copy_once_from(&mut rd));
                let mut r = None;
                for _ in 0..10 {
                    if let Poll::Ready(x) = fut.as_mut().poll(&mut cx) {
                        r = Some(x);
                        break;
                    }
                }
                drop(fut);
                results.push(match r {
                    Some(Ok(k)) => format!("ok{}", k),
                    Some(Err(e)) => format!("{:?}", e.kind()),
                    None => "stuck".into(),
                });
            }
            let want = vec![format!("ok{}", N), "InvalidData".to_string(), "InvalidData".to_string()];
            if results != want {
                return Err(format!("{:?} expected {:?}", results, want));
            }
            Ok(())
        }))
        .map_err(|_| ());
        verdict(w, "C14", N, &format!("copy_once_from_{}", name), r);
        n += 1;
    }
    n
}

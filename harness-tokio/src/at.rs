//! C17: AsyncFixedBuf's AsyncRead/AsyncWrite polls, mixed with Deref'd FixedBuf calls, explored breadth-first
//! from every small state (the FixedBuf here is the REGISTRY copy fixed-buffer 0.3.1 that the tokio crate links).
//!   AP <N> <mem> <ri> <wi> | pr <prefill> <cap> | ok <filled hex> | <mem2> <ri2> <wi2> <rd2> <e2>
//!   AP ... | pw <hex> | ok <n> / err<k> / pending | ...      AP ... | pf | ok | ...     AP ... | ps | ok | ...
//!   T1 lines (same format as the blocking harness) for the Deref'd calls
//!   AC <N> <content> <ri> <ops> | <results> | <final readable> | <sink>      (tokio combinators: read, read_exact, write_all, copy)
use crate::util::*;
use fixed_buffer_tokio::*;
use std::collections::{HashSet, VecDeque};
use std::future::Future;
use std::pin::Pin;
use std::task::{Context, Poll, Waker};
use tokio::io::{AsyncRead, AsyncReadExt, AsyncWrite, AsyncWriteExt, ReadBuf};

#[derive(Clone, PartialEq, Eq, Hash)]
pub struct St {
    pub mem: Vec<u8>,
    pub ri: usize,
    pub wi: usize,
    pub rd: Vec<u8>,
    pub e: bool,
}
fn observe<const N: usize>(b: &mut AsyncFixedBuf<N>) -> St {
    let wl = b.writable().len();
    let wi = N - wl;
    let ri = wi - b.len();
    St { mem: b.mem().to_vec(), ri, wi, rd: b.readable().to_vec(), e: b.is_empty() }
}
fn full(s: &St) -> String {
    format!("{} {} {} {} {}", hex(&s.mem), s.ri, s.wi, hex(&s.rd), s.e as u8)
}
fn rebuild<const N: usize>(s: &St) -> AsyncFixedBuf<N> {
    let mut a = [0u8; N];
    a.copy_from_slice(&s.mem);
    let mut b = AsyncFixedBuf::empty(a);
    b.wrote(s.wi);
    if s.ri > 0 {
        b.read_bytes(s.ri);
    }
    b
}

#[derive(Clone)]
enum Op {
    /// prefill, remaining capacity, and how many of the unfilled bytes are initialised beforehand (None = all: ReadBuf::new)
    PollRead(usize, usize, Option<usize>),
    PollWrite(Vec<u8>),
    /// `poll_write_vectored`; reported as the `poll_write` of the first non-empty slice that the trait's default performs
    PollWriteV(Vec<Vec<u8>>),
    PollFlush,
    PollShutdown,
    WriteBytes(Vec<u8>),
    ReadBytes(usize),
    ReadAll,
    Shift,
    Clear,
}

fn apply<const N: usize>(b: &mut AsyncFixedBuf<N>, s: &St, op: &Op, w: &mut impl std::io::Write) -> St {
    let wk = Waker::noop();
    let mut cx = Context::from_waker(&wk);
    let pre = format!("{} {} {} {}", N, hex(&s.mem), s.ri, s.wi);
    match op {
        Op::PollRead(p, c, init) => {
            let mut storage = vec![0x2eu8; p + c];
            let mut ustorage = vec![std::mem::MaybeUninit::<u8>::uninit(); p + c];
            let mut rb = match init {
                None => ReadBuf::new(&mut storage),
                Some(_) => ReadBuf::uninit(&mut ustorage),
            };
            rb.put_slice(&vec![0x50u8; *p]);
            if let Some(i) = init {
                rb.initialize_unfilled_to((*i).min(*c));
            }
            let r = std::panic::catch_unwind(std::panic::AssertUnwindSafe(|| Pin::new(&mut *b).poll_read(&mut cx, &mut rb)));
            let res = match r {
                Ok(Poll::Ready(Ok(()))) => format!("ok {}", hex(rb.filled())),
                Ok(Poll::Ready(Err(e))) => format!("err{} {}", crate::asrw::kind_num(e.kind()), hex(rb.filled())),
                Ok(Poll::Pending) => format!("pending {}", hex(rb.filled())),
                Err(_) => format!("panic {}", hex(rb.filled())),
            };
            let s2 = observe(b);
            match init {
                None => writeln!(w, "AP {} | pr {} {} | {} | {}", pre, p, c, res, full(&s2)).unwrap(),
                Some(i) => writeln!(w, "AP {} | pr {} {} {} | {} | {}", pre, p, c, i, res, full(&s2)).unwrap(),
            }
            s2
        }
        Op::PollWrite(d) => {
            let r = std::panic::catch_unwind(std::panic::AssertUnwindSafe(|| Pin::new(&mut *b).poll_write(&mut cx, d)));
            let res = match r {
                Ok(Poll::Ready(Ok(n))) => format!("ok {}", n),
                Ok(Poll::Ready(Err(e))) => format!("err{}", crate::asrw::kind_num(e.kind())),
                Ok(Poll::Pending) => "pending".into(),
                Err(_) => "panic".into(),
            };
            let s2 = observe(b);
            writeln!(w, "AP {} | pw {} | {} | {}", pre, hex(d), res, full(&s2)).unwrap();
            s2
        }
        Op::PollWriteV(l) => {
            let first: Vec<u8> = l.iter().find(|d| !d.is_empty()).cloned().unwrap_or_default();
            let r = std::panic::catch_unwind(std::panic::AssertUnwindSafe(|| {
                let ios: Vec<std::io::IoSlice> = l.iter().map(|d| std::io::IoSlice::new(d)).collect();
                Pin::new(&mut *b).poll_write_vectored(&mut cx, &ios)
            }));
            let res = match r {
                Ok(Poll::Ready(Ok(n))) => format!("ok {}", n),
                Ok(Poll::Ready(Err(e))) => format!("err{}", crate::asrw::kind_num(e.kind())),
                Ok(Poll::Pending) => "pending".into(),
                Err(_) => "panic".into(),
            };
            let s2 = observe(b);
            writeln!(w, "AP {} | pw {} | {} | {}", pre, hex(&first), res, full(&s2)).unwrap();
            s2
        }
        Op::PollFlush | Op::PollShutdown => {
            let (name, r) = if matches!(op, Op::PollFlush) { ("pf", Pin::new(&mut *b).poll_flush(&mut cx)) } else { ("ps", Pin::new(&mut *b).poll_shutdown(&mut cx)) };
            let res = match r {
                Poll::Ready(Ok(())) => "ok".to_string(),
                Poll::Ready(Err(e)) => format!("err{}", crate::asrw::kind_num(e.kind())),
                Poll::Pending => "pending".into(),
            };
            let s2 = observe(b);
            writeln!(w, "AP {} | {} | {} | {}", pre, name, res, full(&s2)).unwrap();
            s2
        }
        // Deref'd calls: T1 lines (in-contract arguments only: the registry copy predates the C04 repair)
        Op::WriteBytes(d) => {
            let out = match b.write_bytes(d) {
                Ok(n) => format!("ok - {} - 0", n),
                Err(_) => "refused - - - 0".into(),
            };
            let s2 = observe(b);
            writeln!(w, "T1 {} | wb {} | {} | {}", pre, hex(d), out, full(&s2)).unwrap();
            s2
        }
        Op::ReadBytes(n) => {
            let bytes = b.read_bytes(*n).to_vec();
            let s2 = observe(b);
            writeln!(w, "T1 {} | rb {} | ok {} - - 0 | {}", pre, n, hex(&bytes), full(&s2)).unwrap();
            s2
        }
        Op::ReadAll => {
            let bytes = b.read_all().to_vec();
            let s2 = observe(b);
            writeln!(w, "T1 {} | rall | ok {} - - 0 | {}", pre, hex(&bytes), full(&s2)).unwrap();
            s2
        }
        Op::Shift => {
            b.shift();
            let s2 = observe(b);
            writeln!(w, "T1 {} | shift | ok - - - 0 | {}", pre, full(&s2)).unwrap();
            s2
        }
        Op::Clear => {
            b.clear();
            let s2 = observe(b);
            writeln!(w, "T1 {} | clear | ok - - - 0 | {}", pre, full(&s2)).unwrap();
            s2
        }
    }
}

fn explore<const N: usize>(w: &mut impl std::io::Write) -> (usize, usize) {
    let alpha = [b'a', b'\n'];
    let mut seen: HashSet<(Vec<u8>, usize, usize)> = HashSet::new();
    let mut q: VecDeque<St> = VecDeque::new();
    let mut b0: AsyncFixedBuf<N> = AsyncFixedBuf::new();
    let s0 = observe(&mut b0);
    seen.insert((s0.mem.clone(), s0.ri, s0.wi));
    q.push_back(s0);
    let mut trans = 0;
    while let Some(s) = q.pop_front() {
        let len = s.wi - s.ri;
        let mut ops = vec![Op::PollFlush, Op::PollShutdown, Op::ReadAll, Op::Shift, Op::Clear];
        for p in 0..=2 {
            for c in 0..=N + 1 {
                ops.push(Op::PollRead(p, c, None));
                ops.push(Op::PollRead(p, c, Some(0)));
                if c > 1 {
                    ops.push(Op::PollRead(p, c, Some(1)));
                }
            }
        }
        for d in strings(&alpha, (N + 1).min(3)) {
            ops.push(Op::PollWrite(d.clone()));
            ops.push(Op::WriteBytes(d));
        }
        ops.push(Op::PollWrite((0..N + 1).map(|i| alpha[i % 2]).collect()));
        {
            let free = N.saturating_sub(s.wi);
            let mk = |k: usize| -> Vec<u8> { (0..k).map(|i| alpha[i % 2]).collect() };
            ops.push(Op::PollWriteV(vec![]));
            ops.push(Op::PollWriteV(vec![vec![], mk(1)]));
            ops.push(Op::PollWriteV(vec![mk(free), mk(1)]));
            ops.push(Op::PollWriteV(vec![mk(free + 1), mk(1)]));
            ops.push(Op::PollWriteV(vec![mk(1), mk(free)]));
        }
        for n in 0..=len {
            ops.push(Op::ReadBytes(n));
        }
        for op in &ops {
            let mut b = rebuild::<N>(&s);
            let s2 = apply(&mut b, &s, op, w);
            trans += 1;
            if seen.insert((s2.mem.clone(), s2.ri, s2.wi)) {
                q.push_back(s2);
            }
        }
    }
    (seen.len(), trans)
}

/// every index shape at a moderate size: polls with ReadBufs around the unread length, writes around the free space
fn grid<const N: usize>(w: &mut impl std::io::Write) -> usize {
    let mut n = 0;
    let mem: Vec<u8> = (0..N).map(|i| (i as u8).wrapping_mul(5).wrapping_add(0x30)).collect();
    for wi in 0..=N {
        for ri in 0..=wi {
            if ri == wi && ri > 0 {
                continue;
            }
            let len = wi - ri;
            let free = N - wi;
            let s = St { mem: mem.clone(), ri, wi, rd: mem[ri..wi].to_vec(), e: ri == wi };
            let mut ops = vec![Op::PollFlush, Op::PollShutdown, Op::Shift];
            for p in [0usize, 1, 3] {
                for c in [0usize, 1, len.saturating_sub(1), len, len + 1, 9, 16, 40] {
                    ops.push(Op::PollRead(p, c, None));
                    // uninitialised and partially initialised ReadBufs (ReadBuf::uninit + initialize_unfilled_to)
                    for i in [0usize, 1, c / 2, c.saturating_sub(1)] {
                        if i <= c {
                            ops.push(Op::PollRead(p, c, Some(i)));
                        }
                    }
                }
            }
            for k in [0usize, 1, free.saturating_sub(1), free, free + 1] {
                ops.push(Op::PollWrite((0..k).map(|i| 0x61 + (i as u8 % 26)).collect()));
            }
            for op in &ops {
                let mut b = rebuild::<N>(&s);
                apply(&mut b, &s, op, w);
                n += 1;
            }
        }
    }
    n
}

fn block_on<F: Future>(f: F) -> F::Output {
    let wk = Waker::noop();
    let mut cx = Context::from_waker(&wk);
    let mut f = Box::pin(f);
    for _ in 0..100000 {
        if let Poll::Ready(x) = f.as_mut().poll(&mut cx) {
            return x;
        }
    }
    panic!("future did not complete")
}

/// tokio's combinators over an AsyncFixedBuf: the results are judged as Read/Write histories (C01/C03 via C17)
fn combinators<const N: usize>(rng: &mut Rng, w: &mut impl std::io::Write) {
    let cl = rng.below(N + 1);
    let content = rng.bytes(cl, b"abc\n");
    let ri = if cl > 1 { rng.below(cl) } else { 0 };
    let mut b: AsyncFixedBuf<N> = AsyncFixedBuf::new();
    b.write_bytes(&content).unwrap();
    if ri > 0 && ri < cl {
        b.read_bytes(ri);
    }
    let ri = if ri < cl { ri } else { 0 };
    let mut ops: Vec<String> = vec![];
    let mut results: Vec<String> = vec![];
    let mut sink: Vec<u8> = vec![];
    let k = 1 + rng.below(5);
    for _ in 0..k {
        match rng.below(4) {
            0 => {
                let n = rng.below(4);
                let mut d = vec![0x2eu8; n];
                let r = block_on(b.read(&mut d));
                ops.push(format!("read{}", n));
                results.push(match r { Ok(m) => format!("ok{}:{}", m, hex(&d)), Err(e) => format!("err{}", crate::asrw::kind_num(e.kind())) });
            }
            1 => {
                let n = rng.below(4);
                let mut d = vec![0x2eu8; n];
                let r = block_on(b.read_exact(&mut d));
                ops.push(format!("exact{}", n));
                results.push(match r { Ok(_) => format!("ok:{}", hex(&d)), Err(e) => format!("err{}", crate::asrw::kind_num(e.kind())) });
            }
            2 => {
                let n = rng.below(4);
                let d = rng.bytes(n, b"XY");
                let r = block_on(b.write_all(&d));
                ops.push(format!("wall{}", hex(&d)));
                results.push(match r { Ok(_) => "ok".to_string(), Err(e) => format!("err{}", crate::asrw::kind_num(e.kind())) });
            }
            _ => {
                let mut out: Vec<u8> = vec![];
                let r = block_on(tokio::io::copy(&mut b, &mut out));
                ops.push("copy".into());
                results.push(match r { Ok(m) => format!("ok{}", m), Err(e) => format!("err{}", crate::asrw::kind_num(e.kind())) });
                sink.extend(out);
            }
        }
    }
    writeln!(w, "AC {} {} {} {} | {} | {} | {}", N, hex(&content), ri, ops.join(","), results.join(","), hex(b.readable()), hex(&sink)).unwrap();
}

/// long runs of polls on ONE value (counters, budgets): 300 one-byte reads, then 300 write/read pairs
fn long_run<const N: usize>(w: &mut impl std::io::Write) -> usize {
    let mut b: AsyncFixedBuf<N> = AsyncFixedBuf::new();
    let fill: Vec<u8> = (0..N - 100).map(|i| b'a' + (i % 26) as u8).collect();
    b.write_bytes(&fill).unwrap();
    let mut s = observe(&mut b);
    let mut n = 0;
    for _ in 0..300 {
        s = apply(&mut b, &s, &Op::PollRead(0, 1, None), w);
        n += 1;
    }
    for i in 0..300 {
        s = apply(&mut b, &s, &Op::PollWrite(vec![b'0' + (i % 10) as u8]), w);
        s = apply(&mut b, &s, &Op::PollRead(1, 1, Some(0)), w);
        if i % 64 == 63 {
            s = apply(&mut b, &s, &Op::Shift, w);
        }
        n += 2;
    }
    n
}

/// the constructors and `into_inner` (`T0` lines, same format as the blocking harness)
fn ctors<const N: usize>(w: &mut impl std::io::Write) -> usize {
    let mems: Vec<Vec<u8>> = vec![(0..N).map(|i| 0x61 + (i % 26) as u8).collect(), vec![0u8; N], vec![0xffu8; N]];
    let mut n = 0;
    let mut b: AsyncFixedBuf<N> = AsyncFixedBuf::new();
    writeln!(w, "T0 {} new - | {}", N, full(&observe(&mut b))).unwrap();
    n += 1;
    for m in &mems {
        let mut a = [0u8; N];
        a.copy_from_slice(m);
        let mut e = AsyncFixedBuf::empty(a);
        writeln!(w, "T0 {} empty {} | {}", N, hex(m), full(&observe(&mut e))).unwrap();
        let mut f = AsyncFixedBuf::filled(a);
        writeln!(w, "T0 {} filled {} | {}", N, hex(m), full(&observe(&mut f))).unwrap();
        // into_inner hands back the same buffer: wrap it again via its memory and indices
        let mut inner = AsyncFixedBuf::filled(a).into_inner();
        let wl = inner.writable().len();
        let wi = N - wl;
        let ri = wi - inner.len();
        let st = St { mem: inner.mem().to_vec(), ri, wi, rd: inner.readable().to_vec(), e: inner.is_empty() };
        writeln!(w, "T0 {} filled {} | {}", N, hex(m), full(&st)).unwrap();
        n += 3;
    }
    n
}

pub fn run(thorough: bool, seed: u64, w: &mut impl std::io::Write) {
    let nc = ctors::<0>(w) + ctors::<1>(w) + ctors::<2>(w) + ctors::<7>(w) + ctors::<64>(w) + ctors::<300>(w);
    let lr = long_run::<512>(w);
    eprintln!("STAT at constructors={} long_run_polls={}", nc, lr);
    let r0 = explore::<0>(w);
    let r1 = explore::<1>(w);
    let r2 = explore::<2>(w);
    let r3 = explore::<3>(w);
    let mut tot = r0.1 + r1.1 + r2.1 + r3.1;
    let mut states = r0.0 + r1.0 + r2.0 + r3.0;
    if thorough {
        let r4 = explore::<4>(w);
        tot += r4.1;
        states += r4.0;
    }
    tot += grid::<8>(w) + grid::<16>(w) + grid::<33>(w);
    if thorough {
        tot += grid::<64>(w) + grid::<130>(w);
    }
    let mut rng = Rng(seed ^ 0xa7);
    let cases = if thorough { 20000 } else { 2000 };
    for _ in 0..cases {
        let seed2 = rng.next();
        let mut line: Vec<u8> = vec![];
        let r = std::panic::catch_unwind(std::panic::AssertUnwindSafe(|| {
            let mut r2 = Rng(seed2);
            combinators::<8>(&mut r2, &mut line)
        }));
        match r {
            Ok(()) => w.write_all(&line).unwrap(),
            Err(_) => writeln!(w, "AC 8 - 0 panicked-seed-{} | panic | - | -", seed2).unwrap(),
        }
    }
    eprintln!("STAT at states={} transitions={} combinator_runs={}", states, tot, cases);
}

//! C07 (async variant): the request loop of fixed-buffer-tokio/tests/server.rs over a scripted async transport with
//! Pending at any poll; the future is driven by hand until it completes.
//!   APL <N> <asrw> <dests> | <header:payload,...> ; <terminal> ; <written hex>
use crate::asrw::*;
use crate::util::*;
use fixed_buffer_tokio::*;
use std::future::Future;
use std::task::{Context, Poll, Waker};
use tokio::io::{AsyncReadExt, AsyncWriteExt};

pub fn len_of(h: &[u8]) -> usize {
    if h.is_empty() || h[0] < 0x30 {
        0
    } else {
        ((h[0] - 0x30) % 80) as usize
    }
}

async fn conn<const N: usize>(transport: &mut ASrw, dests: &[usize]) -> (Vec<String>, String) {
    let mut buf: AsyncFixedBuf<N> = AsyncFixedBuf::new();
    let mut reqs: Vec<String> = vec![];
    for _ in 0..64 {
        let header: Vec<u8> = match buf.read_frame(transport, fixed_buffer_reg::deframe_line).await {
            Ok(Some(h)) => h.to_vec(),
            Ok(None) => return (reqs, "none".into()),
            Err(e) => return (reqs, format!("err{}", kind_num(e.kind()))),
        };
        let n = len_of(&header);
        let mut payload: Vec<u8> = vec![];
        let mut failed: Option<String> = None;
        {
            let mut chain = AsyncReadWriteChain::new(&mut buf, transport);
            let mut take = AsyncReadWriteTake::new(&mut chain, n as u64);
            let mut di = 0usize;
            let mut dest = vec![0u8; 8192];
            for _ in 0..100000 {
                let d = if dests.is_empty() { 8192 } else { dests[di % dests.len()] };
                di += 1;
                match take.read(&mut dest[..d]).await {
                    Ok(0) if d > 0 => break,
                    Ok(k) => payload.extend_from_slice(&dest[..k]),
                    Err(e) => {
                        failed = Some(format!("err{}", kind_num(e.kind())));
                        break;
                    }
                }
            }
            if failed.is_none() {
                if let Err(e) = take.write_all(b"OK").await {
                    failed = Some(format!("werr{}", kind_num(e.kind())));
                }
            }
        }
        reqs.push(format!("{}:{}", hex(&header), hex(&payload)));
        if let Some(f) = failed {
            return (reqs, f);
        }
    }
    (reqs, "guard".into())
}

pub fn apl_line<const N: usize>(srw: &ASrw, dests: &[usize], w: &mut impl std::io::Write) {
    let log = Log::default();
    let mut transport = srw.twin(&log);
    let (reqs, terminal) = {
        let wk = Waker::noop();
        let mut cx = Context::from_waker(&wk);
        let mut fut = Box::pin(conn::<N>(&mut transport, dests));
        let mut out = None;
        for _ in 0..1_000_000 {
            if let Poll::Ready(x) = fut.as_mut().poll(&mut cx) {
                out = Some(x);
                break;
            }
        }
        out.unwrap_or((vec![], "stuck".into()))
    };
    let written: Vec<u8> = log.borrow().iter().filter(|e| e.starts_with('W') && !e.ends_with(":pending")).flat_map(|e| unhex(e.split(':').nth(1).unwrap_or("-")).unwrap_or_default()).collect();
    let ds = if dests.is_empty() { "-".to_string() } else { nums(dests) };
    writeln!(w, "APL {} {} {} | {} ; {} ; {}", N, srw.describe(), ds, if reqs.is_empty() { "-".to_string() } else { reqs.join(",") }, terminal, hex(&written)).unwrap();
}

pub fn dispatch(n: usize, srw: &ASrw, dests: &[usize], w: &mut impl std::io::Write) -> bool {
    match n {
        4 => apl_line::<4>(srw, dests, w),
        5 => apl_line::<5>(srw, dests, w),
        6 => apl_line::<6>(srw, dests, w),
        8 => apl_line::<8>(srw, dests, w),
        16 => apl_line::<16>(srw, dests, w),
        33 => apl_line::<33>(srw, dests, w),
        64 => apl_line::<64>(srw, dests, w),
        96 => apl_line::<96>(srw, dests, w),
        128 => apl_line::<128>(srw, dests, w),
        200 => apl_line::<200>(srw, dests, w),
        _ => return false,
    }
    true
}

fn stream(rng: &mut Rng, size: usize) -> Vec<u8> {
    let mut s = vec![];
    let k = 1 + rng.below(3);
    for _ in 0..k {
        let n = [0usize, 1, 2, 3, 5, 9, size - 1, size, size + 7, 15, 31][rng.below(11)].min(79);
        s.push(0x30 + n as u8);
        if rng.chance(1, 3) {
            let hl = [1usize, size / 2, size.saturating_sub(3)][rng.below(3)];
            for i in 0..hl {
                s.push([b'h', 0x80, 0x0b, b'\r'][i % 4]);
            }
        }
        if rng.chance(1, 4) {
            s.push(b'\r');
        }
        s.push(b'\n');
        for _ in 0..n {
            s.push([b'a', b'\n', b'b', b'\r'][rng.below(4)]);
        }
    }
    match rng.below(5) {
        0 => {
            let cut = rng.below(s.len() + 1);
            s.truncate(cut);
        }
        1 => s.extend_from_slice(b"zz"),
        _ => {}
    }
    s
}


/// many pipelined requests arriving in big chunks into a large buffer (twin of the blocking harness' family)
fn pipelined_stream(rng: &mut Rng, size: usize) -> Vec<u8> {
    let k = 4 + rng.below(12);
    let mut s: Vec<u8> = vec![];
    let hmax = [6usize, 14, 30, 54][rng.below(4)].min(size - 4);
    for j in 0..k {
        let n = match rng.below(6) {
            0 => 0,
            1 => 1 + rng.below(4),
            2 => 79,
            3 => 30 + rng.below(40),
            _ => rng.below(20),
        };
        s.push(0x30 + n as u8);
        let hl = if rng.chance(1, 3) { hmax } else { rng.below(hmax + 1) };
        for i in 0..hl {
            s.push(b'A' + ((i + j) % 26) as u8);
        }
        if rng.chance(1, 6) {
            s.push(b'\r');
        }
        s.push(b'\n');
        for i in 0..n {
            s.push([b'a' + (i % 26) as u8, b'\n', 0xff, b'\r'][if rng.chance(1, 5) { 1 + rng.below(3) } else { 0 }]);
        }
    }
    if rng.chance(1, 8) {
        let cut = rng.below(s.len() + 1);
        s.truncate(cut);
    }
    s
}

pub fn run(thorough: bool, seed: u64, w: &mut impl std::io::Write) {
    let mut rng = Rng(seed ^ 0xa91);
    let scheds: Vec<Vec<usize>> = vec![vec![], vec![1], vec![2], vec![0, 1], vec![1, 0, 2], vec![3, 0, 0, 1], vec![9], vec![16, 0, 7]];
    let cases = if thorough { 40000 } else { 5000 };
    let mut n = 0;
    for _ in 0..cases {
        let size = [4usize, 5, 6, 8, 16, 33, 64][rng.below(7)];
        let s = stream(&mut rng, size);
        let na = rng.below(16);
        // Pending at any poll (also on writes), chunks of any size, scribbling short fills
        let racts: Vec<RAct> = (0..na).map(|_| if rng.chance(1, 3) { RAct::Pending } else { RAct::Data([1usize, 2, 3, 7, 8, 9, size, 1000][rng.below(8)], rng.chance(1, 8)) }).collect();
        let mut srw = ASrw::new(1, &s, racts);
        let nw = rng.below(4);
        srw.wacts = (0..nw).map(|_| if rng.chance(1, 2) { WAct::Pending } else { WAct::Full }).collect();
        let ds = &scheds[rng.below(scheds.len())];
        if dispatch(size, &srw, ds, w) {
            n += 1;
        }
    }
    let pcases = if thorough { 12000 } else { 1500 };
    let pscheds: Vec<Vec<usize>> = vec![vec![], vec![50], vec![7, 64], vec![1, 0, 33], vec![128], vec![3]];
    for _ in 0..pcases {
        let size = [64usize, 96, 128, 200][rng.below(4)];
        let s = pipelined_stream(&mut rng, size);
        let na = rng.below(10);
        let racts: Vec<RAct> = (0..na).map(|_| if rng.chance(1, 4) { RAct::Pending } else { RAct::Data([1usize, 8, 31, 32, 33, size / 2, size - 1, size, 1000][rng.below(9)], rng.chance(1, 10)) }).collect();
        let mut srw = ASrw::new(1, &s, racts);
        let nw = rng.below(3);
        srw.wacts = (0..nw).map(|_| if rng.chance(1, 2) { WAct::Pending } else { WAct::Full }).collect();
        let ds = &pscheds[rng.below(pscheds.len())];
        if dispatch(size, &srw, ds, w) {
            n += 1;
        }
    }
    eprintln!("STAT apl scenarios={} pipelined_scenarios={}", n, pcases);
}

pub fn replay_line(l: &str, w: &mut impl std::io::Write) -> bool {
    let parts: Vec<&str> = l.split(" | ").collect();
    let head: Vec<&str> = parts[0].split(' ').collect();
    if head[0] != "APL" || head.len() != 4 {
        return false;
    }
    let log = Log::default();
    let ds: Option<Vec<usize>> = if head[3] == "-" { Some(vec![]) } else { head[3].split(',').map(|x| x.parse().ok()).collect() };
    match (head[1].parse::<usize>(), ASrw::parse(head[2], &log), ds) {
        (Ok(n), Some(srw), Some(ds)) => dispatch(n, &srw, &ds, w),
        _ => false,
    }
}

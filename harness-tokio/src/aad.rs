//! C16 / C13 (async half): AsyncReadWriteChain / AsyncReadWriteTake poll by poll, three-way with tokio's chain()/take()
//!   ACH <asrw1> <asrw2> <ops> | <impl results> ; <log> | <tokio read results> ; <log>
//!   ACB <N> <content> <ri> <asrw2> <ops> | <impl results> ; <log> ; <left in first> | <tokio read results> ; <log>
//!   ATK <asrw> <limit> <ops> | <impl results> ; <log> | <tokio read results> ; <log>
//! ops: r<prefill>:<cap> (a ReadBuf with `prefill` filled bytes 'P' and `cap` bytes of remaining capacity) | w<hex> | f | s
use crate::asrw::*;
use crate::util::*;
use fixed_buffer_tokio::*;
use std::panic::{catch_unwind, AssertUnwindSafe};
use std::pin::Pin;
use std::task::{Context, Poll, Waker};
use tokio::io::{AsyncRead, AsyncReadExt, AsyncWrite, ReadBuf};

#[derive(Clone, Debug, PartialEq)]
pub enum AOp {
    Read(usize, usize),
    /// like Read, over ReadBuf::uninit with only `init` unfilled bytes initialised
    ReadU(usize, usize, usize),
    Write(Vec<u8>),
    /// `poll_write_vectored` (default: `poll_write` of the first non-empty slice)
    WriteV(Vec<Vec<u8>>),
    Flush,
    Shutdown,
}
pub fn ops_str(ops: &[AOp]) -> String {
    if ops.is_empty() {
        return "-".into();
    }
    ops.iter()
        .map(|o| match o {
            AOp::Read(p, c) => format!("r{}:{}", p, c),
            AOp::ReadU(p, c, i) => format!("r{}:{}:{}", p, c, i),
            AOp::Write(d) => format!("w{}", hex(d)),
            AOp::WriteV(l) => format!("W{}", l.iter().map(|d| hex(d)).collect::<Vec<_>>().join("+")),
            AOp::Flush => "f".into(),
            AOp::Shutdown => "s".into(),
        })
        .collect::<Vec<_>>()
        .join(",")
}
pub fn parse_ops(s: &str) -> Option<Vec<AOp>> {
    if s == "-" {
        return Some(vec![]);
    }
    let mut v = vec![];
    for t in s.split(',') {
        v.push(match t.as_bytes()[0] {
            b'r' => {
                let f: Vec<&str> = t[1..].split(':').collect();
                match f.len() {
                    2 => AOp::Read(f[0].parse().ok()?, f[1].parse().ok()?),
                    3 => AOp::ReadU(f[0].parse().ok()?, f[1].parse().ok()?, f[2].parse().ok()?),
                    _ => return None,
                }
            }
            b'w' => AOp::Write(unhex(&t[1..])?),
            b'W' => AOp::WriteV(if t.len() == 1 { vec![] } else { t[1..].split('+').map(unhex).collect::<Option<Vec<Vec<u8>>>>()? }),
            b'f' if t.len() == 1 => AOp::Flush,
            b's' if t.len() == 1 => AOp::Shutdown,
            _ => return None,
        });
    }
    Some(v)
}

fn poll_read_op<T: AsyncRead + Unpin>(x: &mut T, prefill: usize, cap: usize, init: Option<usize>) -> String {
    let mut storage = vec![0x2eu8; prefill + cap];
    let mut ustorage = vec![std::mem::MaybeUninit::<u8>::uninit(); prefill + cap];
    let mut rb = match init {
        None => ReadBuf::new(&mut storage),
        Some(_) => ReadBuf::uninit(&mut ustorage),
    };
    rb.put_slice(&vec![0x50u8; prefill]);
    if let Some(i) = init {
        rb.initialize_unfilled_to(i.min(cap));
    }
    let w = Waker::noop();
    let mut cx = Context::from_waker(&w);
    let r = catch_unwind(AssertUnwindSafe(|| Pin::new(&mut *x).poll_read(&mut cx, &mut rb)));
    match r {
        Ok(Poll::Ready(Ok(()))) => format!("ok:{}", hex(rb.filled())),
        Ok(Poll::Ready(Err(e))) => format!("err{}:{}", kind_num(e.kind()), hex(rb.filled())),
        Ok(Poll::Pending) => format!("pending:{}", hex(rb.filled())),
        Err(_) => "panic".into(),
    }
}

fn drive<T: AsyncRead + AsyncWrite + Unpin>(x: &mut T, ops: &[AOp]) -> String {
    let w = Waker::noop();
    let mut cx = Context::from_waker(&w);
    let mut out: Vec<String> = vec![];
    for op in ops {
        match op {
            AOp::Read(p, c) => out.push(poll_read_op(x, *p, *c, None)),
            AOp::ReadU(p, c, i) => out.push(poll_read_op(x, *p, *c, Some(*i))),
            AOp::Write(d) => match Pin::new(&mut *x).poll_write(&mut cx, d) {
                Poll::Ready(Ok(n)) => out.push(format!("wok{}", n)),
                Poll::Ready(Err(e)) => out.push(format!("werr{}", kind_num(e.kind()))),
                Poll::Pending => out.push("wpending".into()),
            },
            AOp::WriteV(l) => {
                let ios: Vec<std::io::IoSlice> = l.iter().map(|d| std::io::IoSlice::new(d)).collect();
                match Pin::new(&mut *x).poll_write_vectored(&mut cx, &ios) {
                    Poll::Ready(Ok(n)) => out.push(format!("wok{}", n)),
                    Poll::Ready(Err(e)) => out.push(format!("werr{}", kind_num(e.kind()))),
                    Poll::Pending => out.push("wpending".into()),
                }
            }
            AOp::Flush => match Pin::new(&mut *x).poll_flush(&mut cx) {
                Poll::Ready(Ok(())) => out.push("fok".into()),
                Poll::Ready(Err(e)) => out.push(format!("ferr{}", kind_num(e.kind()))),
                Poll::Pending => out.push("fpending".into()),
            },
            AOp::Shutdown => match Pin::new(&mut *x).poll_shutdown(&mut cx) {
                Poll::Ready(Ok(())) => out.push("sok".into()),
                Poll::Ready(Err(e)) => out.push(format!("serr{}", kind_num(e.kind()))),
                Poll::Pending => out.push("spending".into()),
            },
        }
    }
    if out.is_empty() {
        "-".into()
    } else {
        out.join(",")
    }
}

fn drive_reads<T: AsyncRead + Unpin>(x: &mut T, ops: &[AOp]) -> String {
    let mut out: Vec<String> = vec![];
    for op in ops {
        match op {
            AOp::Read(p, c) => out.push(poll_read_op(x, *p, *c, None)),
            AOp::ReadU(p, c, i) => out.push(poll_read_op(x, *p, *c, Some(*i))),
            _ => {}
        }
    }
    if out.is_empty() {
        "-".into()
    } else {
        out.join(",")
    }
}

pub fn chain_line(s1: &ASrw, s2: &ASrw, ops: &[AOp], w: &mut impl std::io::Write) {
    let log = Log::default();
    let (mut a, mut b) = (s1.twin(&log), s2.twin(&log));
    a.vectored = true;
    b.vectored = true;
    let impl_res = {
        let mut chain = AsyncReadWriteChain::new(&mut a, &mut b);
        drive(&mut chain, ops)
    };
    let tlog = Log::default();
    let (ta, tb) = (s1.twin(&tlog), s2.twin(&tlog));
    let tok_res = {
        let mut chain = ta.chain(tb);
        drive_reads(&mut chain, ops)
    };
    writeln!(w, "ACH {} {} {} | {} ; {} | {} ; {}", s1.describe(), s2.describe(), ops_str(ops), impl_res, logstr(&log), tok_res, logstr(&tlog)).unwrap();
}

pub fn chainbuf_line<const N: usize>(content: &[u8], ri: usize, s2: &ASrw, ops: &[AOp], w: &mut impl std::io::Write) -> bool {
    if content.len() > N || ri > content.len() || (ri > 0 && ri == content.len()) {
        return false;
    }
    let mk = || {
        let mut b: AsyncFixedBuf<N> = AsyncFixedBuf::new();
        b.write_bytes(content).unwrap();
        if ri > 0 {
            b.read_bytes(ri);
        }
        b
    };
    let log = Log::default();
    let mut first = mk();
    let mut b = s2.twin(&log);
    b.vectored = true;
    let impl_res = {
        let mut chain = AsyncReadWriteChain::new(&mut first, &mut b);
        drive(&mut chain, ops)
    };
    let left = first.readable().to_vec();
    let tlog = Log::default();
    let tfirst = mk();
    let tb = s2.twin(&tlog);
    let tok_res = {
        let mut chain = tfirst.chain(tb);
        drive_reads(&mut chain, ops)
    };
    writeln!(w, "ACB {} {} {} {} {} | {} ; {} ; {} | {} ; {}", N, hex(content), ri, s2.describe(), ops_str(ops), impl_res, logstr(&log), hex(&left), tok_res, logstr(&tlog)).unwrap();
    true
}

pub fn take_line(s: &ASrw, limit: u64, ops: &[AOp], w: &mut impl std::io::Write) {
    let log = Log::default();
    let mut a = s.twin(&log);
    a.vectored = true;
    let impl_res = {
        let mut take = AsyncReadWriteTake::new(&mut a, limit);
        drive(&mut take, ops)
    };
    let tlog = Log::default();
    let ta = s.twin(&tlog);
    let tok_res = {
        let mut take = ta.take(limit);
        drive_reads(&mut take, ops)
    };
    writeln!(w, "ATK {} {} {} | {} ; {} | {} ; {}", s.describe(), limit, ops_str(ops), impl_res, logstr(&log), tok_res, logstr(&tlog)).unwrap();
}

fn seqs<T: Clone>(alpha: &[T], maxlen: usize) -> Vec<Vec<T>> {
    let mut out = vec![vec![]];
    let mut cur: Vec<Vec<T>> = vec![vec![]];
    for _ in 0..maxlen {
        let mut nxt = vec![];
        for s in &cur {
            for a in alpha {
                let mut t = s.clone();
                t.push(a.clone());
                nxt.push(t);
            }
        }
        out.extend(nxt.iter().cloned());
        cur = nxt;
    }
    out
}

fn random_asrw(rng: &mut Rng, id: usize) -> ASrw {
    let dl = rng.below(9);
    let data = rng.bytes(dl, b"abcdefgh\n\r");
    let n = rng.below(7);
    let racts = (0..n)
        .map(|_| match rng.below(12) {
            0 => RAct::Eof,
            1 => RAct::Err([2u8, 3, 4, 5, 6, 1, 0][rng.below(7)]),
            2 => RAct::Data(1 + rng.below(4), true),
            3 | 4 | 5 => RAct::Pending,
            _ => RAct::Data(1 + rng.below(5), false),
        })
        .collect();
    let m = rng.below(5);
    let wacts = (0..m)
        .map(|_| match rng.below(7) {
            0 => WAct::Zero,
            1 => WAct::Err([2u8, 3, 5, 6, 1, 0][rng.below(6)]),
            2 => WAct::Part([1usize, 2, 3, 8, 15, 16, 63][rng.below(7)]),
            3 => WAct::Pending,
            _ => WAct::Full,
        })
        .collect();
    let f = rng.below(4);
    let facts = (0..f).map(|_| match rng.below(4) { 0 => Some(5), 1 => Some(255), _ => None }).collect();
    let mut s = ASrw::new(id, &data, racts);
    s.wacts = wacts;
    s.facts = facts;
    s
}

fn random_ops(rng: &mut Rng) -> Vec<AOp> {
    let n = 1 + rng.below(9);
    (0..n)
        .map(|_| match rng.below(9) {
            0 => AOp::Flush,
            1 => AOp::Shutdown,
            2 | 3 => {
                let l = [0usize, 1, 2, 4, 9, 16, 17, 64, 65][rng.below(9)];
                AOp::Write(rng.bytes(l, b"XYZ\n"))
            }
            7 => {
                let c = [1usize, 2, 4, 9, 16, 33, 40][rng.below(7)];
                AOp::ReadU(rng.below(3), c, rng.below(c + 1))
            }
            _ => AOp::Read(rng.below(3), [0usize, 0, 1, 2, 3, 4, 8, 9, 16, 33][rng.below(10)]),
        })
        .collect()
}

pub fn run(mode: &str, thorough: bool, seed: u64, w: &mut impl std::io::Write) {
    let mut rng = Rng(seed ^ 0xaad);
    let mut n = 0usize;
    // every schedule of <= 3 ReadBufs from {empty+cap0, empty+cap1, empty+cap4, prefilled 1 + cap 0, prefilled 2 + cap 2}
    let bufs = [(0usize, 0usize), (0, 1), (0, 4), (1, 0), (2, 2)];
    let scheds: Vec<Vec<AOp>> = seqs(&bufs, 3).into_iter().filter(|s| !s.is_empty()).map(|s| s.into_iter().map(|(p, c)| AOp::Read(p, c)).collect()).collect();
    // vectored writes of total length zero (no slices, only empty slices) and mixed ones, against every scripted result
    for wact in [WAct::Full, WAct::Part(1), WAct::Zero, WAct::Err(5), WAct::Pending] {
        let ops = vec![AOp::WriteV(vec![]), AOp::WriteV(vec![vec![]]), AOp::WriteV(vec![vec![], vec![]]), AOp::WriteV(vec![vec![], b"ab".to_vec(), b"c".to_vec()]), AOp::Write(b"z".to_vec()), AOp::Flush];
        for shift in 0..ops.len() {
            let mut o = ops.clone();
            o.rotate_left(shift);
            if mode == "achain" {
                let s1 = ASrw::new(1, b"AB", vec![]);
                let mut s2 = ASrw::new(2, b"cd", vec![]);
                s2.wacts = vec![wact.clone(), WAct::Full, wact.clone()];
                chain_line(&s1, &s2, &o, w);
                n += 1;
            }
            if mode == "atake" {
                let mut s = ASrw::new(1, b"abcd", vec![]);
                s.wacts = vec![wact.clone(), WAct::Full, wact.clone()];
                take_line(&s, 3, &o, w);
                n += 1;
            }
        }
    }
    // every error kind std::io knows: on reads, writes, flush and shutdown, from either stream
    for kind in 0u8..=38 {
        let ops = vec![AOp::Read(0, 4), AOp::Write(b"xy".to_vec()), AOp::Flush, AOp::Read(1, 4), AOp::Write(b"z".to_vec()), AOp::Shutdown, AOp::Read(0, 4)];
        if mode == "achain" {
            let mut s1 = ASrw::new(1, b"AB", vec![RAct::Err(kind), RAct::Data(1, false)]);
            let mut s2 = ASrw::new(2, b"cdef", vec![RAct::Data(2, false), RAct::Err(kind)]);
            s1.wacts = vec![WAct::Err(kind)];
            s2.wacts = vec![WAct::Err(kind), WAct::Full];
            s2.facts = vec![Some(kind), Some(kind)];
            chain_line(&s1, &s2, &ops, w);
            n += 1;
        }
        if mode == "atake" {
            let mut s = ASrw::new(1, b"abcdefgh", vec![RAct::Err(kind), RAct::Data(3, false), RAct::Err(kind)]);
            s.wacts = vec![WAct::Err(kind), WAct::Part(1)];
            s.facts = vec![Some(kind), Some(kind)];
            take_line(&s, 5, &ops, w);
            n += 1;
        }
    }
    // long runs of polls on ONE adapter value (poll counters that wrap, cooperative-yield budgets), inner stream always
    // Ready, or Pending every 60th poll
    {
        let d1: Vec<u8> = (0..150u32).map(|i| b'A' + (i % 26) as u8).collect();
        let d2: Vec<u8> = (0..250u32).map(|i| b'a' + (i % 26) as u8).collect();
        let reads: Vec<AOp> = (0..330).map(|_| AOp::Read(0, 1)).collect();
        let mut mixed: Vec<AOp> = vec![];
        for i in 0..300 {
            mixed.push(AOp::Read(0, 1));
            mixed.push(AOp::Write(vec![b'0' + (i % 10) as u8]));
            if i % 50 == 49 {
                mixed.push(AOp::Flush);
            }
        }
        let pend = |k: usize| -> Vec<RAct> { (0..400).map(|i| if i % k == k - 1 { RAct::Pending } else { RAct::Data(1, false) }).collect() };
        if mode == "achain" {
            chain_line(&ASrw::new(1, &d1, vec![]), &ASrw::new(2, &d2, vec![]), &reads, w);
            chain_line(&ASrw::new(1, &d1, vec![]), &ASrw::new(2, &d2, vec![]), &mixed, w);
            chain_line(&ASrw::new(1, &d1, pend(60)), &ASrw::new(2, &d2, pend(60)), &reads, w);
            n += 3;
        }
        if mode == "atake" {
            for limit in [280u64, 1000] {
                take_line(&ASrw::new(1, &d2, vec![]), limit, &reads, w);
                take_line(&ASrw::new(1, &d2, vec![]), limit, &mixed, w);
                take_line(&ASrw::new(1, &d2, pend(60)), limit, &reads, w);
                n += 3;
            }
        }
    }
    if mode == "achain" {
        let a1 = [RAct::Data(1, false), RAct::Data(2, false), RAct::Eof, RAct::Err(5), RAct::Pending, RAct::Data(2, true)];
        let a2 = [RAct::Data(3, false), RAct::Eof, RAct::Err(5), RAct::Pending];
        let l1 = if thorough { 3 } else { 2 };
        for r1 in seqs(&a1, l1) {
            for d1 in [&b""[..], b"AB"] {
                for r2 in seqs(&a2, 2) {
                    let (s1, s2) = (ASrw::new(1, d1, r1.clone()), ASrw::new(2, b"cd", r2.clone()));
                    for ops in &scheds {
                        chain_line(&s1, &s2, ops, w);
                        n += 1;
                    }
                }
            }
        }
        // larger ReadBufs, every error kind, short fills relative to the capacity
        let a3 = [RAct::Data(3, false), RAct::Data(20, false), RAct::Eof, RAct::Err(2), RAct::Err(3), RAct::Pending, RAct::Data(9, true)];
        let big: Vec<u8> = (0..40u8).map(|i| 0x41 + i % 26).collect();
        let bufs4 = [(0usize, 16usize), (3, 4), (2, 33)];
        let scheds4: Vec<Vec<AOp>> = seqs(&bufs4, 4).into_iter().filter(|s| s.len() == 4 || s.len() == 2).map(|s| s.into_iter().map(|(p, c)| AOp::Read(p, c)).collect()).collect();
        for r1 in seqs(&a3, 3) {
            if r1.is_empty() {
                continue;
            }
            for r2 in [vec![], vec![RAct::Data(3, false)], vec![RAct::Pending, RAct::Data(17, false)]] {
                let (s1, s2) = (ASrw::new(1, &big, r1.clone()), ASrw::new(2, b"SECONDsecondSECONDsecond", r2.clone()));
                for ops in &scheds4 {
                    chain_line(&s1, &s2, ops, w);
                    n += 1;
                }
            }
        }
        // write pass-through: larger payloads, every inner result (incl. Pending) in every position, flush / shutdown results
        {
            let wa = [WAct::Full, WAct::Part(1), WAct::Part(15), WAct::Part(16), WAct::Zero, WAct::Err(2), WAct::Err(5), WAct::Pending];
            let p16: Vec<u8> = (0..16u8).map(|i| b'A' + i).collect();
            let p64: Vec<u8> = (0..64u8).map(|i| b'a' + i % 26).collect();
            let wops = vec![AOp::Write(p16.clone()), AOp::Read(1, 4), AOp::Write(p64.clone()), AOp::Flush, AOp::Write(b"123456789".to_vec()), AOp::WriteV(vec![vec![], b"vw".to_vec(), p16.clone()]), AOp::WriteV(vec![]), AOp::WriteV(vec![p64.clone(), b"x".to_vec()]), AOp::Shutdown, AOp::Read(0, 16)];
            for ws in seqs(&wa, 3) {
                for fa in [vec![], vec![Some(5u8)], vec![Some(255u8), None]] {
                    let mut s2 = ASrw::new(2, b"cdcdcdcdcdcdcdcdcdcd", vec![RAct::Data(3, false)]);
                    s2.wacts = ws.clone();
                    s2.facts = fa.clone();
                    let s1 = ASrw::new(1, b"AB", vec![]);
                    chain_line(&s1, &s2, &wops, w);
                    n += 1;
                }
            }
        }
        for content in [&b""[..], b"A", b"AB", b"ABCD"] {
            for ri in 0..=content.len() {
                for r2 in seqs(&a2, 2) {
                    let s2 = ASrw::new(2, b"cd", r2);
                    for ops in &scheds {
                        if chainbuf_line::<4>(content, ri, &s2, ops, w) {
                            n += 1;
                        }
                    }
                }
            }
        }
        let cases = if thorough { 40000 } else { 4000 };
        for _ in 0..cases {
            let (s1, s2) = (random_asrw(&mut rng, 1), random_asrw(&mut rng, 2));
            let ops = random_ops(&mut rng);
            chain_line(&s1, &s2, &ops, w);
            n += 1;
            if rng.chance(1, 4) {
                let cl = rng.below(9);
                let content = rng.bytes(cl, b"ABCDEFG\n");
                let ri = if cl > 1 { rng.below(cl) } else { 0 };
                if chainbuf_line::<8>(&content, ri, &s2, &ops, w) {
                    n += 1;
                }
            }
        }
    } else {
        let a = [RAct::Data(1, false), RAct::Data(3, false), RAct::Data(2, true), RAct::Eof, RAct::Err(5), RAct::Pending];
        let l = if thorough { 3 } else { 2 };
        for r in seqs(&a, l) {
            for d in [&b""[..], b"ab", b"abcde"] {
                let s = ASrw::new(1, d, r.clone());
                for limit in [0u64, 1, 2, 3, 5, u64::MAX] {
                    for ops in &scheds {
                        take_line(&s, limit, ops, w);
                        n += 1;
                    }
                }
            }
        }
        let a3 = [RAct::Data(3, false), RAct::Data(20, false), RAct::Eof, RAct::Err(2), RAct::Pending, RAct::Data(9, true)];
        let big: Vec<u8> = (0..40u8).map(|i| 0x41 + i % 26).collect();
        let bufs4 = [(0usize, 16usize), (3, 4), (2, 33)];
        let scheds4: Vec<Vec<AOp>> = seqs(&bufs4, 4).into_iter().filter(|s| s.len() == 4 || s.len() == 2).map(|s| s.into_iter().map(|(p, c)| AOp::Read(p, c)).collect()).collect();
        for r in seqs(&a3, 3) {
            let s = ASrw::new(1, &big, r.clone());
            for limit in [8u64, 16, 17, 32, 33, (1 << 32) - 1, 1 << 32, (1 << 32) + 1, u64::MAX - 1] {
                for ops in &scheds4 {
                    take_line(&s, limit, ops, w);
                    n += 1;
                }
            }
        }
        // write pass-through: larger payloads, every inner result (incl. Pending) in every position, flush / shutdown results
        {
            let wa = [WAct::Full, WAct::Part(1), WAct::Part(15), WAct::Part(16), WAct::Zero, WAct::Err(2), WAct::Err(5), WAct::Pending];
            let p16: Vec<u8> = (0..16u8).map(|i| b'A' + i).collect();
            let p64: Vec<u8> = (0..64u8).map(|i| b'a' + i % 26).collect();
            let wops = vec![AOp::Write(p16.clone()), AOp::Read(1, 4), AOp::Write(p64.clone()), AOp::Flush, AOp::Write(b"123456789".to_vec()), AOp::WriteV(vec![vec![], b"vw".to_vec(), p16.clone()]), AOp::WriteV(vec![]), AOp::WriteV(vec![p64.clone(), b"x".to_vec()]), AOp::Shutdown, AOp::Read(0, 16)];
            for ws in seqs(&wa, 3) {
                for fa in [vec![], vec![Some(5u8)], vec![Some(255u8), None]] {
                    let mut s2 = ASrw::new(2, b"cdcdcdcdcdcdcdcdcdcd", vec![RAct::Data(3, false)]);
                    s2.wacts = ws.clone();
                    s2.facts = fa.clone();
                    s2.id = 1;
                    take_line(&s2, 7, &wops, w);
                    n += 1;
                }
            }
        }
        for limit in [65535u64, 65536, 65537, 70000, (1 << 32) + 5] {
            for d in [65535usize, 65536, 65537, 70001] {
                for r in [vec![], vec![RAct::Data(3, false)], vec![RAct::Pending, RAct::Data(70000, true)]] {
                    let s = ASrw::new(1, &big, r);
                    take_line(&s, limit, &[AOp::Read(1, d), AOp::Read(0, 4)], w);
                    n += 1;
                }
            }
        }
        let cases = if thorough { 40000 } else { 4000 };
        for _ in 0..cases {
            let s = random_asrw(&mut rng, 1);
            let ops = random_ops(&mut rng);
            let limit = match rng.below(6) {
                0 => 0,
                1 => u64::MAX,
                2 => u64::MAX - 1,
                _ => rng.below(10) as u64,
            };
            take_line(&s, limit, &ops, w);
            n += 1;
        }
    }
    eprintln!("STAT aad mode={} scenarios={}", mode, n);
}

pub fn replay_line(l: &str, w: &mut impl std::io::Write) -> bool {
    let parts: Vec<&str> = l.split(" | ").collect();
    let head: Vec<&str> = parts[0].split(' ').collect();
    let log = Log::default();
    match head[0] {
        "ACH" if head.len() == 4 => match (ASrw::parse(head[1], &log), ASrw::parse(head[2], &log), parse_ops(head[3])) {
            (Some(a), Some(b), Some(ops)) => {
                chain_line(&a, &b, &ops, w);
                true
            }
            _ => false,
        },
        "ACB" if head.len() == 6 => {
            let n: usize = head[1].parse().unwrap_or(0);
            match (unhex(head[2]), head[3].parse::<usize>(), ASrw::parse(head[4], &log), parse_ops(head[5])) {
                (Some(c), Ok(ri), Some(b), Some(ops)) => match n {
                    4 => chainbuf_line::<4>(&c, ri, &b, &ops, w),
                    8 => chainbuf_line::<8>(&c, ri, &b, &ops, w),
                    _ => false,
                },
                _ => false,
            }
        }
        "ATK" if head.len() == 4 => match (ASrw::parse(head[1], &log), head[2].parse::<u64>(), parse_ops(head[3])) {
            (Some(a), Ok(limit), Some(ops)) => {
                take_line(&a, limit, &ops, w);
                true
            }
            _ => false,
        },
        _ => false,
    }
}

//! scripted async read-writer (twin of the Lean `ASRW`), hand-driven polls, shared call log
use crate::util::*;
use std::cell::RefCell;
use std::pin::Pin;
use std::rc::Rc;
use std::task::{Context, Poll};
use tokio::io::{AsyncRead, AsyncWrite, ReadBuf};

pub type Log = Rc<RefCell<Vec<String>>>;

#[derive(Clone, Debug, PartialEq)]
pub enum RAct {
    Data(usize, bool),
    Eof,
    Err(u8),
    Pending,
}
#[derive(Clone, Debug, PartialEq)]
pub enum WAct {
    Full,
    Part(usize),
    Zero,
    Err(u8),
    Pending,
}

pub fn kind_num(k: std::io::ErrorKind) -> u8 {
    use std::io::ErrorKind::*;
    match k {
        InvalidData => 0,
        UnexpectedEof => 1,
        Interrupted => 2,
        WouldBlock => 3,
        TimedOut => 4,
        ConnectionReset => 5,
        Other => 6,
        NotFound => 7,
        PermissionDenied => 8,
        ConnectionRefused => 9,
        HostUnreachable => 10,
        NetworkUnreachable => 11,
        ConnectionAborted => 12,
        NotConnected => 13,
        AddrInUse => 14,
        AddrNotAvailable => 15,
        NetworkDown => 16,
        BrokenPipe => 17,
        AlreadyExists => 18,
        NotADirectory => 19,
        IsADirectory => 20,
        DirectoryNotEmpty => 21,
        ReadOnlyFilesystem => 22,
        StaleNetworkFileHandle => 23,
        InvalidInput => 24,
        WriteZero => 25,
        StorageFull => 26,
        NotSeekable => 27,
        FileTooLarge => 28,
        ResourceBusy => 29,
        ExecutableFileBusy => 30,
        Deadlock => 31,
        TooManyLinks => 32,
        ArgumentListTooLong => 33,
        Unsupported => 34,
        OutOfMemory => 35,
        QuotaExceeded => 36,
        CrossesDevices => 37,
        InvalidFilename => 38,
        _ => 99,
    }
}

/// a scripted error of kind `k`, built in one of the ways real readers build theirs — a message, a bare kind, or a
/// WRAPPED error of another kind (layered transports: TLS over TCP, timeouts) — chosen by a running counter; the kind
/// the caller must see is `k` in every case
pub fn scripted_error(k: u8) -> std::io::Error {
    use std::sync::atomic::{AtomicUsize, Ordering};
    static SHAPE: AtomicUsize = AtomicUsize::new(0);
    let kind = num_kind(k);
    match SHAPE.fetch_add(1, Ordering::Relaxed) % 4 {
        0 => std::io::Error::new(kind, "scripted"),
        1 => std::io::Error::from(kind),
        2 => {
            let inner = if kind == std::io::ErrorKind::WouldBlock { std::io::ErrorKind::TimedOut } else { std::io::ErrorKind::WouldBlock };
            std::io::Error::new(kind, std::io::Error::new(inner, "inner"))
        }
        _ => {
            let inner = if kind == std::io::ErrorKind::Interrupted { std::io::ErrorKind::Other } else { std::io::ErrorKind::Interrupted };
            std::io::Error::new(kind, std::io::Error::new(std::io::ErrorKind::Other, std::io::Error::from(inner)))
        }
    }
}

pub fn num_kind(k: u8) -> std::io::ErrorKind {
    use std::io::ErrorKind::*;
    match k {
        0 => InvalidData,
        1 => UnexpectedEof,
        2 => Interrupted,
        3 => WouldBlock,
        4 => TimedOut,
        5 => ConnectionReset,
        7 => NotFound,
        8 => PermissionDenied,
        9 => ConnectionRefused,
        10 => HostUnreachable,
        11 => NetworkUnreachable,
        12 => ConnectionAborted,
        13 => NotConnected,
        14 => AddrInUse,
        15 => AddrNotAvailable,
        16 => NetworkDown,
        17 => BrokenPipe,
        18 => AlreadyExists,
        19 => NotADirectory,
        20 => IsADirectory,
        21 => DirectoryNotEmpty,
        22 => ReadOnlyFilesystem,
        23 => StaleNetworkFileHandle,
        24 => InvalidInput,
        25 => WriteZero,
        26 => StorageFull,
        27 => NotSeekable,
        28 => FileTooLarge,
        29 => ResourceBusy,
        30 => ExecutableFileBusy,
        31 => Deadlock,
        32 => TooManyLinks,
        33 => ArgumentListTooLong,
        34 => Unsupported,
        35 => OutOfMemory,
        36 => QuotaExceeded,
        37 => CrossesDevices,
        38 => InvalidFilename,
        _ => Other,
    }
}

#[derive(Clone)]
pub struct ASrw {
    pub id: usize,
    pub data: Vec<u8>,
    pub pos: usize,
    pub racts: Vec<RAct>,
    pub ri: usize,
    pub wacts: Vec<WAct>,
    pub wi: usize,
    /// flush / shutdown script: None = Ok, Some(255) = Pending, Some(k) = Err(k)
    pub facts: Vec<Option<u8>>,
    pub fi: usize,
    pub log: Log,
    /// whether the stream advertises and performs real gathering writes (`is_write_vectored()`), like a socket; set on the
    /// implementation side only
    pub vectored: bool,
}

// the harness is single-threaded; the adapters only require Send for their type parameters
unsafe impl Send for ASrw {}

impl ASrw {
    pub fn new(id: usize, data: &[u8], racts: Vec<RAct>) -> ASrw {
        ASrw { id, data: data.to_vec(), pos: 0, racts, ri: 0, wacts: vec![], wi: 0, facts: vec![], fi: 0, log: Log::default(), vectored: false }
    }
    pub fn twin(&self, log: &Log) -> ASrw {
        let mut t = self.clone();
        t.log = log.clone();
        t
    }
    pub fn describe(&self) -> String {
        let ra: Vec<String> = self
            .racts
            .iter()
            .map(|a| match a {
                RAct::Data(k, false) => format!("d{}", k),
                RAct::Data(k, true) => format!("s{}", k),
                RAct::Eof => "e".into(),
                RAct::Err(k) => format!("x{}", k),
                RAct::Pending => "P".into(),
            })
            .collect();
        let wa: Vec<String> = self
            .wacts
            .iter()
            .map(|a| match a {
                WAct::Full => "f".into(),
                WAct::Part(k) => format!("p{}", k),
                WAct::Zero => "z".into(),
                WAct::Err(k) => format!("x{}", k),
                WAct::Pending => "P".into(),
            })
            .collect();
        let fa: Vec<String> = self
            .facts
            .iter()
            .map(|a| match a {
                None => "o".to_string(),
                Some(255) => "P".to_string(),
                Some(k) => format!("x{}", k),
            })
            .collect();
        let j = |v: Vec<String>| if v.is_empty() { "-".to_string() } else { v.join(",") };
        format!("{}:{}:{}:{}:{}", self.id, hex(&self.data), j(ra), j(wa), j(fa))
    }
    pub fn parse(s: &str, log: &Log) -> Option<ASrw> {
        let p: Vec<&str> = s.split(':').collect();
        if p.len() != 5 {
            return None;
        }
        let list = |x: &str| -> Vec<String> { if x == "-" { vec![] } else { x.split(',').map(|t| t.to_string()).collect() } };
        let mut racts = vec![];
        for t in list(p[2]) {
            racts.push(match t.as_bytes()[0] {
                b'd' => RAct::Data(t[1..].parse().ok()?, false),
                b's' => RAct::Data(t[1..].parse().ok()?, true),
                b'e' => RAct::Eof,
                b'x' => RAct::Err(t[1..].parse().ok()?),
                b'P' => RAct::Pending,
                _ => return None,
            });
        }
        let mut wacts = vec![];
        for t in list(p[3]) {
            wacts.push(match t.as_bytes()[0] {
                b'f' => WAct::Full,
                b'p' => WAct::Part(t[1..].parse().ok()?),
                b'z' => WAct::Zero,
                b'x' => WAct::Err(t[1..].parse().ok()?),
                b'P' => WAct::Pending,
                _ => return None,
            });
        }
        let mut facts = vec![];
        for t in list(p[4]) {
            facts.push(match t.as_bytes()[0] {
                b'o' => None,
                b'P' => Some(255),
                b'x' => Some(t[1..].parse().ok()?),
                _ => return None,
            });
        }
        Some(ASrw { id: p[0].parse().ok()?, data: unhex(p[1])?, pos: 0, racts, ri: 0, wacts, wi: 0, facts, fi: 0, log: log.clone(), vectored: false })
    }
}

pub fn unhex(s: &str) -> Option<Vec<u8>> {
    if s == "-" {
        return Some(vec![]);
    }
    if s.len() % 2 != 0 {
        return None;
    }
    (0..s.len() / 2).map(|i| u8::from_str_radix(&s[2 * i..2 * i + 2], 16).ok()).collect()
}

impl AsyncRead for ASrw {
    fn poll_read(self: Pin<&mut Self>, _cx: &mut Context<'_>, buf: &mut ReadBuf<'_>) -> Poll<std::io::Result<()>> {
        let s = self.get_mut();
        uncounted(|| {
            let cap = buf.remaining();
            let a = s.racts.get(s.ri).cloned().unwrap_or(RAct::Data(cap, false));
            s.ri += 1;
            match a {
                RAct::Pending => {
                    s.log.borrow_mut().push(format!("R{}:{}:pending", s.id, cap));
                    Poll::Pending
                }
                RAct::Eof => {
                    s.log.borrow_mut().push(format!("R{}:{}:ok0", s.id, cap));
                    Poll::Ready(Ok(()))
                }
                RAct::Err(k) => {
                    s.log.borrow_mut().push(format!("R{}:{}:err{}", s.id, cap, k));
                    Poll::Ready(Err(scripted_error(k)))
                }
                RAct::Data(k, scr) => {
                    let n = k.min(cap).min(s.data.len() - s.pos);
                    if scr {
                        // scribble over the whole unfilled part, then deliver n bytes
                        let un = buf.initialize_unfilled();
                        for x in un.iter_mut() {
                            *x = 0xEE;
                        }
                    }
                    buf.put_slice(&s.data[s.pos..s.pos + n]);
                    s.pos += n;
                    s.log.borrow_mut().push(format!("R{}:{}:ok{}", s.id, cap, n));
                    Poll::Ready(Ok(()))
                }
            }
        })
    }
}

impl AsyncWrite for ASrw {
    fn poll_write(self: Pin<&mut Self>, _cx: &mut Context<'_>, b: &[u8]) -> Poll<std::io::Result<usize>> {
        let s = self.get_mut();
        uncounted(|| {
            let a = s.wacts.get(s.wi).cloned().unwrap_or(WAct::Full);
            s.wi += 1;
            let (txt, r) = match a {
                WAct::Full => (format!("ok{}", b.len()), Poll::Ready(Ok(b.len()))),
                WAct::Part(k) => (format!("ok{}", k.min(b.len())), Poll::Ready(Ok(k.min(b.len())))),
                WAct::Zero => ("ok0".to_string(), Poll::Ready(Ok(0))),
                WAct::Err(k) => (format!("err{}", k), Poll::Ready(Err(scripted_error(k)))),
                WAct::Pending => ("pending".to_string(), Poll::Pending),
            };
            s.log.borrow_mut().push(format!("W{}:{}:{}", s.id, hex(b), txt));
            r
        })
    }
    fn is_write_vectored(&self) -> bool {
        self.vectored
    }
    fn poll_write_vectored(self: Pin<&mut Self>, cx: &mut Context<'_>, bufs: &[std::io::IoSlice<'_>]) -> Poll<std::io::Result<usize>> {
        if self.vectored {
            // a gathering write: one scripted write over the concatenation (also when it is empty)
            let all: Vec<u8> = uncounted(|| bufs.iter().flat_map(|b| b.iter().copied()).collect());
            self.poll_write(cx, &all)
        } else {
            let first: &[u8] = bufs.iter().find(|b| !b.is_empty()).map(|b| &**b).unwrap_or(&[]);
            self.poll_write(cx, first)
        }
    }
    fn poll_flush(self: Pin<&mut Self>, _cx: &mut Context<'_>) -> Poll<std::io::Result<()>> {
        let s = self.get_mut();
        uncounted(|| {
            let a = s.facts.get(s.fi).cloned().unwrap_or(None);
            s.fi += 1;
            let (txt, r) = match a {
                None => ("ok".to_string(), Poll::Ready(Ok(()))),
                Some(255) => ("pending".to_string(), Poll::Pending),
                Some(k) => (format!("err{}", k), Poll::Ready(Err(scripted_error(k)))),
            };
            s.log.borrow_mut().push(format!("F{}:{}", s.id, txt));
            r
        })
    }
    fn poll_shutdown(self: Pin<&mut Self>, _cx: &mut Context<'_>) -> Poll<std::io::Result<()>> {
        let s = self.get_mut();
        uncounted(|| {
            let a = s.facts.get(s.fi).cloned().unwrap_or(None);
            s.fi += 1;
            let (txt, r) = match a {
                None => ("ok".to_string(), Poll::Ready(Ok(()))),
                Some(255) => ("pending".to_string(), Poll::Pending),
                Some(k) => (format!("err{}", k), Poll::Ready(Err(scripted_error(k)))),
            };
            s.log.borrow_mut().push(format!("S{}:{}", s.id, txt));
            r
        })
    }
}

pub fn logstr(l: &Log) -> String {
    let v = l.borrow();
    if v.is_empty() {
        "-".into()
    } else {
        v.join(",")
    }
}
